"""B1 for C20: a single particle on a (non-square, binned, misaligned) histogram Screen: the pixel that lights up in
the real `Screen.reading`, the image shape and total vs the Lean model `pixelOf` (driver op pixel)."""
from __future__ import annotations

import numpy as np
import torch

import cheetah
from common import LeanDriver

F32 = torch.float32


def run_screen_correspondence(ctx, prop: str, n: int) -> None:
    rep, rng = ctx.report, ctx.rng
    drv = LeanDriver()
    pend = []
    for _ in range(n):
        b = int(rng.choice([1, 1, 2, 4]))
        W, H = int(rng.integers(3, 12)) * b, int(rng.integers(3, 12)) * b
        if rng.random() < 0.3:
            W += int(rng.integers(0, b))          # resolution not divisible by the binning
        pw, ph = float(np.float32(rng.choice([1e-4, 2.5e-4, 1e-3]))), float(np.float32(rng.choice([1e-4, 3e-4, 1e-3])))
        dx = float(np.float32(rng.choice([0.0, 1.0, -1.0]) * rng.uniform(0, 3) * pw))
        dy = float(np.float32(rng.choice([0.0, 1.0, -1.0]) * rng.uniform(0, 3) * ph))
        nW, nH = W // b, H // b
        if nW == 0 or nH == 0:
            continue
        # a point in the middle third of a random effective pixel (or off the screen)
        off = rng.random() < 0.15
        ix, iy = int(rng.integers(nW)), int(rng.integers(nH))
        ex, ey = W * pw / nW, H * ph / nH
        x = -W * pw / 2 + (ix + rng.uniform(0.3, 0.7)) * ex + dx
        y = -H * ph / 2 + (iy + rng.uniform(0.3, 0.7)) * ey + dy
        if off:
            x += W * pw * 1.5
        x, y = float(np.float32(x)), float(np.float32(y))
        scr = cheetah.Screen(resolution=(W, H), pixel_size=torch.tensor([pw, ph], dtype=F32), binning=b,
                             misalignment=torch.tensor([dx, dy], dtype=F32), is_active=True, dtype=F32)
        P = torch.zeros(1, 7, dtype=F32)
        P[0, 0], P[0, 2], P[0, 6] = x, y, 1.0
        beam = cheetah.ParticleBeam(P, torch.tensor(1e8, dtype=F32), particle_charges=torch.tensor([1.0], dtype=F32),
                                    dtype=F32)
        try:
            scr.track(beam)
            img = scr.reading
        except Exception as ex:
            rep.count(f"screen-rejected:{type(ex).__name__}")
            continue
        tot = float(img.sum())
        if tot > 0:
            r, c = np.unravel_index(int(torch.argmax(img)), img.shape)
            real = [float(r), float(c), float(img.shape[0]), float(img.shape[1])]
        else:
            real = [-1.0, -1.0, float(img.shape[0]), float(img.shape[1])]
        idx = drv.call("pixel", float(W), float(H), float(b), pw, ph, dx, dy, x, y)
        pend.append((idx, real, {"W": W, "H": H, "binning": b, "pixel_size": [pw, ph], "misalignment": [dx, dy],
                                 "x": x, "y": y, "off": bool(off)}))
    replies = drv.run()
    for idx, real, desc in pend:
        rep.corr_cases += 1
        rep.count("screen:" + ("off" if desc["off"] else "on") + (":binned" if desc["binning"] > 1 else ""))
        rep.case(("screen", desc["W"], desc["H"], desc["binning"], desc["misalignment"][0] != 0, desc["misalignment"][1] != 0),
                 {"op": "pixel", **desc} if rep.corr_cases % 40 == 1 else None)
        model = replies[idx]
        if isinstance(model, str) or list(model) != real:
            ctx.escalate = True
            rep.fail("correspondence", f"{prop}|model-mismatch|Screen.reading|pixel",
                     f"Screen.reading lights pixel/shape {real} but the Lean model pixelOf gives {model}",
                     {"kind": "pixel", **desc, "code": real, "model": model if isinstance(model, str) else list(model),
                      "broken": "correspondence Screen.reading (histogram) <-> CheetahModel.Diagnostics.pixelOf"},
                     found_input=False)
