"""B1 for C20: a single particle on a (non-square, binned, misaligned) histogram Screen: the pixel that lights up in
the real `Screen.reading`, the image shape and total vs the Lean model `pixelOf` (driver op pixel)."""
from __future__ import annotations

import numpy as np
import torch

import cheetah
from common import LeanDriver

F32 = torch.float32


def run_screen_correspondence(ctx, prop: str, n: int) -> None:
    rep, rng = ctx.report, ctx.rng
    drv = LeanDriver()
    pend = []
    for _ in range(n):
        b = int(rng.choice([1, 1, 2, 4]))
        W, H = int(rng.integers(3, 12)) * b, int(rng.integers(3, 12)) * b
        if rng.random() < 0.3:
            W += int(rng.integers(0, b))          # resolution not divisible by the binning
        pw, ph = float(np.float32(rng.choice([1e-4, 2.5e-4, 1e-3]))), float(np.float32(rng.choice([1e-4, 3e-4, 1e-3])))
        dx = float(np.float32(rng.choice([0.0, 1.0, -1.0]) * rng.uniform(0, 3) * pw))
        dy = float(np.float32(rng.choice([0.0, 1.0, -1.0]) * rng.uniform(0, 3) * ph))
        nW, nH = W // b, H // b
        if nW == 0 or nH == 0:
            continue
        # a point in the middle third of a random effective pixel (or off the screen)
        off = rng.random() < 0.15
        ix, iy = int(rng.integers(nW)), int(rng.integers(nH))
        ex, ey = W * pw / nW, H * ph / nH
        x = -W * pw / 2 + (ix + rng.uniform(0.3, 0.7)) * ex + dx
        y = -H * ph / 2 + (iy + rng.uniform(0.3, 0.7)) * ey + dy
        if off:
            x += W * pw * 1.5
        x, y = float(np.float32(x)), float(np.float32(y))
        scr = cheetah.Screen(resolution=(W, H), pixel_size=torch.tensor([pw, ph], dtype=F32), binning=b,
                             misalignment=torch.tensor([dx, dy], dtype=F32), is_active=True, dtype=F32)
        P = torch.zeros(1, 7, dtype=F32)
        P[0, 0], P[0, 2], P[0, 6] = x, y, 1.0
        beam = cheetah.ParticleBeam(P, torch.tensor(1e8, dtype=F32), particle_charges=torch.tensor([1.0], dtype=F32),
                                    dtype=F32)
        try:
            scr.track(beam)
            img = scr.reading
        except Exception as ex:
            rep.count(f"screen-rejected:{type(ex).__name__}")
            continue
        tot = float(img.sum())
        if tot > 0:
            r, c = np.unravel_index(int(torch.argmax(img)), img.shape)
            real = [float(r), float(c), float(img.shape[0]), float(img.shape[1])]
        else:
            real = [-1.0, -1.0, float(img.shape[0]), float(img.shape[1])]
        idx = drv.call("pixel", float(W), float(H), float(b), pw, ph, dx, dy, x, y)
        pend.append((idx, real, {"W": W, "H": H, "binning": b, "pixel_size": [pw, ph], "misalignment": [dx, dy],
                                 "x": x, "y": y, "off": bool(off)}))
    replies = drv.run()
    for idx, real, desc in pend:
        rep.corr_cases += 1
        rep.count("screen:" + ("off" if desc["off"] else "on") + (":binned" if desc["binning"] > 1 else ""))
        rep.case(("screen", desc["W"], desc["H"], desc["binning"], desc["misalignment"][0] != 0, desc["misalignment"][1] != 0),
                 {"op": "pixel", **desc} if rep.corr_cases % 40 == 1 else None)
        model = replies[idx]
        if isinstance(model, str) or list(model) != real:
            ctx.escalate = True
            rep.fail("correspondence", f"{prop}|model-mismatch|Screen.reading|pixel",
                     f"Screen.reading lights pixel/shape {real} but the Lean model pixelOf gives {model}",
                     {"kind": "pixel", **desc, "code": real, "model": model if isinstance(model, str) else list(model),
                      "broken": "correspondence Screen.reading (histogram) <-> CheetahModel.Diagnostics.pixelOf"},
                     found_input=False)


def run_hist_correspondence(ctx, prop: str, n: int) -> None:
    """several particles (weights = charge x survival, some lost, some off the screen) on a float64 histogram screen:
    the whole image and its total vs the Lean model `histImage` / `histTotal` (theorem C20.histogram_sums_to_charge_inside
    is about these definitions)"""
    from common import vec_close
    F64 = torch.float64
    rep, rng = ctx.report, ctx.rng
    drv = LeanDriver()
    pend = []
    for _ in range(n):
        b = int(rng.choice([1, 1, 2, 3]))
        W, H = int(rng.integers(2, 7)) * b, int(rng.integers(2, 7)) * b
        pw, ph = float(rng.choice([1e-4, 2.5e-4, 1e-3])), float(rng.choice([1e-4, 3e-4, 1e-3]))
        dx = float(rng.choice([0.0, 1.0, -1.0]) * rng.uniform(0, 3) * pw)
        dy = float(rng.choice([0.0, 1.0, -1.0]) * rng.uniform(0, 3) * ph)
        nW, nH = W // b, H // b
        m = int(rng.integers(1, 9))
        ex, ey = W * pw / nW, H * ph / nH
        xs = -W * pw / 2 + (rng.integers(0, nW, m) + rng.uniform(0.2, 0.8, m)) * ex + dx
        ys = -H * ph / 2 + (rng.integers(0, nH, m) + rng.uniform(0.2, 0.8, m)) * ey + dy
        offm = rng.random(m) < 0.2
        xs = np.where(offm, xs + W * pw * 1.5, xs)
        q = rng.uniform(0.1, 1.0, m)
        sv = np.where(rng.random(m) < 0.75, 1.0, rng.choice([0.0, 0.5], m))
        scr = cheetah.Screen(resolution=(W, H), pixel_size=torch.tensor([pw, ph], dtype=F64), binning=b,
                             misalignment=torch.tensor([dx, dy], dtype=F64), is_active=True, dtype=F64)
        P = torch.zeros(m, 7, dtype=F64)
        P[:, 0], P[:, 2], P[:, 6] = torch.tensor(xs), torch.tensor(ys), 1.0
        beam = cheetah.ParticleBeam(P, torch.tensor(1e8, dtype=F64), particle_charges=torch.tensor(q, dtype=F64),
                                    survival_probabilities=torch.tensor(sv, dtype=F64), dtype=F64)
        try:
            scr.track(beam)
            img = scr.reading
        except Exception as ex:  # noqa: BLE001
            rep.count(f"screen-rejected:{type(ex).__name__}")
            continue
        if tuple(img.shape) != (nH, nW):
            real = None
        else:
            real = img.reshape(-1).tolist() + [float(img.sum())]
        args = [float(W), float(H), float(b), pw, ph, dx, dy, float(m)]
        for k in range(m):
            args += [float(xs[k]), float(ys[k]), float(q[k] * sv[k])]
        pend.append((drv.call("hist", *args), real, {"W": W, "H": H, "binning": b, "pixel_size": [pw, ph], "misalignment": [dx, dy],
                                                      "x": xs.tolist(), "y": ys.tolist(), "q": q.tolist(), "survival": sv.tolist(),
                                                      "shape": list(img.shape)}))
    replies = drv.run()
    for idx, real, desc in pend:
        rep.corr_cases += 1
        rep.count("hist" + (":binned" if desc["binning"] > 1 else ""))
        rep.case(("hist", desc["W"], desc["H"], desc["binning"], len(desc["x"])), {"op": "hist", **{k: desc[k] for k in ("W", "H", "binning")}} if rep.corr_cases % 40 == 1 else None)
        model = replies[idx]
        ok = real is not None and not isinstance(model, str) and len(model) == len(real) and vec_close(real, model, ulps=64.0, scale=max(real[-1], 1e-300))[0]
        if not ok:
            ctx.escalate = True
            rep.fail("correspondence", f"{prop}|model-mismatch|Screen.reading|histogram image",
                     f"histogram image of {len(desc['x'])} particles (shape {desc['shape']}) differs from the Lean model histImage: code "
                     f"{real if real is None else [round(v, 6) for v in real][:12]} model {model if isinstance(model, str) else [round(v, 6) for v in model][:12]}",
                     {"kind": "hist", **desc, "code": real, "model": model if isinstance(model, str) else list(model),
                      "broken": "correspondence Screen.reading (histogram) <-> CheetahModel.Diagnostics.histImage/histTotal"},
                     found_input=False)
