"""Shared machinery of the /verif checks: paths, bit-exact Lean driver protocol, float comparison,
failure records, known-findings matching, evidence writing."""
from __future__ import annotations

import fcntl
import hashlib
import json
import math
import os
import re
import struct
import subprocess
import sys
import time
from dataclasses import dataclass, field
from pathlib import Path
from typing import Any, Callable, Iterable, Optional

VERIF = Path(__file__).resolve().parent.parent
REPO = Path(os.environ.get("VERIF_REPO", "/repo"))
LEAN = VERIF / "lean"
WORK = VERIF / ".work"
EPS = 2.0 ** -52

os.environ.setdefault("DESY_ML_CHEETAH_VERIF", "1")
import warnings  # noqa: E402
warnings.filterwarnings("ignore")
if str(REPO) not in sys.path:
    sys.path.insert(0, str(REPO))


# ---------------------------------------------------------------------------------------------
# bit-exact float transport
# ---------------------------------------------------------------------------------------------
def f2b(x: float) -> int:
    return struct.unpack("<Q", struct.pack("<d", float(x)))[0]


def b2f(n: int) -> float:
    return struct.unpack("<d", struct.pack("<Q", int(n)))[0]


class LeanDriver:
    """Collects request lines, runs the Lean driver once over all of them, returns the replies."""

    def __init__(self) -> None:
        self.lines: list[str] = []

    def call(self, op: str, *floats: float) -> int:
        self.lines.append(op + " " + " ".join(str(f2b(x)) for x in floats))
        return len(self.lines) - 1

    def raw(self, line: str) -> int:
        self.lines.append(line)
        return len(self.lines) - 1

    @staticmethod
    def command() -> list[str]:
        exe = LEAN / ".lake" / "build" / "bin" / "driver"
        if exe.exists():
            return [str(exe)]
        return ["lake", "env", "lean", "--run", "Driver.lean"]

    def run(self) -> list[Any]:
        """Returns per request: list[float] for float replies, or str for textual replies."""
        if not self.lines:
            return []
        inp = "\n".join(self.lines) + "\n"
        p = subprocess.run(self.command(), input=inp, capture_output=True, text=True, cwd=LEAN, timeout=1800)
        if p.returncode != 0:
            raise RuntimeError(f"Lean driver failed: {p.stderr[:2000]}")
        out = p.stdout.split("\n")
        if out and out[-1] == "":
            out.pop()
        if len(out) != len(self.lines):
            raise RuntimeError(f"Lean driver: {len(self.lines)} requests, {len(out)} replies")
        res: list[Any] = []
        for o in out:
            if o.startswith("ERR") or o.startswith("T "):
                res.append(o)
            else:
                toks = o.split()
                try:
                    res.append([b2f(int(t)) for t in toks])
                except ValueError:
                    res.append(o)
        self.lines = []
        return res


# ---------------------------------------------------------------------------------------------
# float comparison (DESIGN §3.4)
# ---------------------------------------------------------------------------------------------
def kind(x: float) -> str:
    if math.isnan(x):
        return "nan"
    if math.isinf(x):
        return "+inf" if x > 0 else "-inf"
    return "fin"


def vec_close(a: Iterable[float], b: Iterable[float], ulps: float = 256.0, scale: Optional[float] = None,
              atol: float = 0.0) -> tuple[bool, float, int]:
    """|a_i-b_i| <= ulps*eps*max(|a_i|,|b_i|,s), s = inf-norm of the finite entries (or `scale`).
    Non-finite entries must agree in kind. Returns (ok, worst ratio err/(eps*scale_i), index)."""
    a = list(a)
    b = list(b)
    if len(a) != len(b):
        return False, float("inf"), -1
    fin = [abs(x) for x in a + b if kind(x) == "fin"]
    s = scale if scale is not None else (max(fin) if fin else 0.0)
    worst, wi, ok = 0.0, -1, True
    for i, (x, y) in enumerate(zip(a, b)):
        kx, ky = kind(x), kind(y)
        if kx != "fin" or ky != "fin":
            if kx != ky:
                return False, float("inf"), i
            continue
        den = max(abs(x), abs(y), s)
        err = abs(x - y)
        if err <= atol:
            continue
        r = err / (EPS * den) if den > 0 else (0.0 if err == 0 else float("inf"))
        if r > worst:
            worst, wi = r, i
        if r > ulps:
            ok = False
    return ok, worst, wi


# ---------------------------------------------------------------------------------------------
# failures, findings, evidence
# ---------------------------------------------------------------------------------------------
@dataclass
class Failure:
    prop: str
    source: str            # 'correspondence' | 'falsifier' | 'proof' | 'table'
    signature: str         # stable classifier: call site | configuration predicate | observable
    what: str              # one line for humans
    replay: dict           # everything needed to reproduce
    found_input: bool = True


@dataclass
class Report:
    prop: str
    evaluations: int = 0
    nontrivial: set = field(default_factory=set)
    samples: list = field(default_factory=list)
    distribution: dict = field(default_factory=dict)
    failures: list = field(default_factory=list)
    notes: list = field(default_factory=list)
    corr_cases: int = 0
    fals_cases: int = 0
    worst_ulp: float = 0.0
    ulp_hist: dict = field(default_factory=dict)

    def count(self, key: str, n: int = 1) -> None:
        self.distribution[key] = self.distribution.get(key, 0) + n

    def case(self, key: Any, sample: Any = None, max_samples: int = 6) -> None:
        self.evaluations += 1
        self.nontrivial.add(key if isinstance(key, (str, int, tuple)) else repr(key))
        if sample is not None and len(self.samples) < max_samples:
            self.samples.append(sample)

    def ulp(self, r: float) -> None:
        self.worst_ulp = max(self.worst_ulp, r) if r != float("inf") else self.worst_ulp
        b = "0" if r == 0 else ("inf" if r == float("inf") else f"2^{max(-1, int(math.log2(r))) + 1}" if r >= 1 else "<1")
        self.ulp_hist[b] = self.ulp_hist.get(b, 0) + 1

    def fail(self, source: str, signature: str, what: str, replay: dict, found_input: bool = True) -> None:
        # keep one failure per signature (the first = usually the smallest)
        for f in self.failures:
            if f.signature == signature:
                f.replay.setdefault("more_cases", 0)
                f.replay["more_cases"] += 1
                return
        try:
            import elements as _E
            if _E.WARM is not None and isinstance(replay, dict):
                replay = dict(replay, _warm=True)      # elements may have been used before (re-run with --replay)
        except Exception:  # noqa: BLE001
            pass
        self.failures.append(Failure(self.prop, source, signature, what, replay, found_input))


def unjson(x: Any) -> Any:
    """inverse of `jsonable` for the non-finite floats"""
    if isinstance(x, dict):
        return {k: unjson(v) for k, v in x.items()}
    if isinstance(x, list):
        return [unjson(v) for v in x]
    if x == "inf":
        return float("inf")
    if x == "-inf":
        return float("-inf")
    if x == "nan":
        return float("nan")
    return x


def load_findings() -> list[dict]:
    p = VERIF / "known_findings.json"
    if not p.exists():
        return []
    return unjson(json.loads(p.read_text()).get("findings", []))


def jsonable(x: Any) -> Any:
    try:
        import numpy as np
        import torch
    except Exception:  # pragma: no cover
        np = torch = None
    if isinstance(x, dict):
        return {str(k): jsonable(v) for k, v in x.items()}
    if isinstance(x, (list, tuple, set)):
        return [jsonable(v) for v in x]
    if torch is not None and isinstance(x, torch.Tensor):
        return jsonable(x.detach().cpu().tolist())
    if np is not None and isinstance(x, np.ndarray):
        return jsonable(x.tolist())
    if np is not None and isinstance(x, np.generic):
        return jsonable(x.item())
    if isinstance(x, float):
        if math.isnan(x):
            return "nan"
        if math.isinf(x):
            return "inf" if x > 0 else "-inf"
        return x
    if isinstance(x, (int, str, bool)) or x is None:
        return x
    return repr(x)


class BuildLock:
    def __enter__(self):
        WORK.mkdir(exist_ok=True)
        self.f = open(WORK / "lake.lock", "w")
        fcntl.flock(self.f, fcntl.LOCK_EX)
        return self

    def __exit__(self, *a):
        fcntl.flock(self.f, fcntl.LOCK_UN)
        self.f.close()


def sh(cmd: list[str], cwd: Path, timeout: Optional[float] = None) -> tuple[int, str]:
    p = subprocess.run(cmd, cwd=cwd, capture_output=True, text=True, timeout=timeout)
    return p.returncode, p.stdout + p.stderr


def digest(obj: Any) -> str:
    return hashlib.sha256(json.dumps(jsonable(obj), sort_keys=True).encode()).hexdigest()[:12]
