"""Probes shared by several properties: the *context* in which an element's map reaches the beam.

* `in_segment_probe`   — an element acts on the beam in the same way whether it is tracked on its own, as the only
  element of a Segment, between drifts (mergeable neighbours), between non-mergeable neighbours (active BPMs), or inside
  a nested sub-segment; and `Segment.transfer_map` of a one-element segment is the element's map.  Thin elements
  (zero length with a non-zero kick / focusing) are generated often.
* `diagnostics_probe`  — markers, BPMs, screens (active / inactive, misaligned, blocking) and apertures leave the
  coordinates of the outgoing beam untouched (both beam types) and never modify the incoming beam object.
"""
from __future__ import annotations

import copy

import numpy as np
import torch

import cheetah
import elements as E
import lattices as LT

F64 = torch.float64
THIN_OK = {"HorizontalCorrector", "VerticalCorrector", "Dipole", "RBend", "Quadrupole", "Solenoid", "Drift", "Undulator"}


def _beam_arrays(b) -> dict:
    if isinstance(b, cheetah.ParticleBeam):
        return {"particles": b.particles.detach().clone(), "energy": b.energy.detach().clone(),
                "charges": b.particle_charges.detach().clone(), "survival": b.survival_probabilities.detach().clone()}
    return {"mu": b._mu.detach().clone(), "cov": b._cov.detach().clone(), "energy": b.energy.detach().clone(),
            "total_charge": b.total_charge.detach().clone()}


def _same(a: dict, b: dict, skip=()) -> str | None:
    for k in a:
        if k in skip:
            continue
        x, y = a[k], b[k]
        if tuple(x.shape) != tuple(y.shape):
            return f"{k}: shape {tuple(x.shape)} vs {tuple(y.shape)}"
        if not torch.equal(torch.nan_to_num(x, nan=1.2345e300), torch.nan_to_num(y, nan=1.2345e300)):
            d = (x - y).abs()
            return f"{k}: max |difference| {float(torch.nan_to_num(d, nan=float('inf')).max()):.3g}"
    return None


BMADX_KINDS = {"BmadxDrift": ("Drift", {"method": "bmadx"}), "BmadxQuadrupole": ("Quadrupole", {"method": "bmadx"}),
               "BmadxDipole": ("Dipole", {"method": "bmadx", "k1": 0.0}), "TransverseDeflectingCavity": ("TransverseDeflectingCavity", {})}
STRENGTH = {"Quadrupole": ["k1"], "Dipole": ["angle"], "RBend": ["angle"], "Solenoid": ["k"], "HorizontalCorrector": ["angle"],
            "VerticalCorrector": ["angle"], "Cavity": ["V"], "TransverseDeflectingCavity": ["V"]}


def in_segment_probe(ctx, prop: str, n: int, classes=None, off: float = 0.0) -> None:
    """off: probability that the element is switched off (strength exactly 0)"""
    rep, rng = ctx.report, ctx.rng
    classes = classes or ["Drift", "Quadrupole", "Dipole", "RBend", "Solenoid", "HorizontalCorrector", "VerticalCorrector",
                          "Undulator", "Cavity"]
    for i in range(n):
        kind = classes[i % len(classes)]
        cls, force = BMADX_KINDS.get(kind, (kind, {}))
        p = LT.tame(E.gen_params(rng, cls, force=dict(force)))
        if force.get("method") == "bmadx":
            if p.get("L") == 0.0:
                p["L"] = 0.4
            if cls == "Dipole" and p["angle"] == 0.0:
                p["angle"] = 0.05               # (Bmad-X dipole at angle 0 is NaN: a recorded C07/C09 finding)
            if cls == "Quadrupole":
                p["num_steps"] = int(E.pick(rng, 1, 2))
        if rng.random() < off and not (cls == "Dipole" and force.get("method") == "bmadx"):
            for k in STRENGTH.get(cls, []):
                p[k] = 0.0
        if cls == "Cavity":
            p["V"] = 0.0                      # (active cavities are not mergeable: C01's subject)
        thin = cls in THIN_OK and cls not in ("Drift", "Undulator") and p.get("method", "cheetah") == "cheetah" and rng.random() < 0.4
        if thin:
            p["L"] = 0.0
            if "angle" in p and p["angle"] == 0.0:
                p["angle"] = 1.5e-3
        r = {"kind": "in_segment", "params": p, "energy": float(E.energy(rng)), "particles": LT.gen_particles(rng, 6).tolist()}
        rep.fals_cases += 1
        rep.count(f"in-segment:{cls}:{'thin' if thin else 'thick'}")
        rep.case(("in_segment", cls, thin), None)
        in_segment_case(rep, prop, r)


def in_segment_case(rep, prop: str, r: dict) -> None:
    p, En, P = r["params"], r["energy"], np.array(r["particles"], dtype=float)
    cls = p["cls"]
    thin = "L==0" if p.get("L", 1.0) == 0.0 else "L>0"
    mk = lambda nm=None: E.build(p, name=nm)   # noqa: E731
    d = lambda L, nm: cheetah.Drift(length=torch.tensor(L, dtype=F64), name=nm, dtype=F64)   # noqa: E731
    bpm = lambda nm: cheetah.BPM(is_active=True, name=nm)   # noqa: E731
    try:
        el = mk("el")
    except Exception:  # noqa: BLE001  (record not constructible)
        return
    only_particles = p.get("method") == "bmadx" or cls == "TransverseDeflectingCavity"
    for bt in (("ParticleBeam",) if only_particles else ("ParticleBeam", "ParameterBeam")):
        beam = lambda: LT.particle_beam(P, En) if bt == "ParticleBeam" else LT.parameter_beam_from(P, En)   # noqa: E731
        try:
            ref = el.track(beam())
        except Exception:  # noqa: BLE001
            continue
        d1, d2 = d(0.3, "d1"), d(0.2, "d2")
        contexts = {
            "only element of a Segment": (lambda: cheetah.Segment([mk("el")], name="s"), lambda b: b, lambda b: b),
            "between drifts": (lambda: cheetah.Segment([d(0.3, "d1"), mk("el"), d(0.2, "d2")], name="s"),
                               lambda b: d1.track(b), lambda b: d2.track(b)),
            "between active BPMs": (lambda: cheetah.Segment([bpm("b1"), mk("el"), bpm("b2")], name="s"), lambda b: b, lambda b: b),
            "in a nested sub-segment": (lambda: cheetah.Segment([d(0.3, "d1"), cheetah.Segment([mk("el")], name="sub"), d(0.2, "d2")],
                                                                name="s"), lambda b: d1.track(b), lambda b: d2.track(b)),
            "behind a nested sub-segment with an active BPM": (
                lambda: cheetah.Segment([cheetah.Segment([d(0.3, "d1"), bpm("b1")], name="sub"), mk("el"), d(0.2, "d2")], name="s"),
                lambda b: d1.track(b), lambda b: d2.track(b)),
        }
        for cname, (mkseg, pre, post) in contexts.items():
            try:
                seg = mkseg()
                got = seg.track(beam())
                again = seg.track(beam())       # the same lattice object once more
                want = post(el.track(pre(beam())))
            except Exception as e:  # noqa: BLE001
                rep.fail("falsifier", f"{prop}|{cls}|{thin}|{cname}|{bt}|raises", f"{cls} {cname}: {type(e).__name__}: {e}", dict(r, beam=bt, context=cname))
                return
            diff = LT.beams_differ(got, want, rtol=1e-11)
            if diff is None:
                d2nd = LT.beams_differ(again, got, rtol=0.0)
                diff = None if d2nd is None else "the second track of the same lattice differs from the first: " + d2nd
            if diff is not None:
                rep.fail("falsifier", f"{prop}|{cls}|{thin}|{cname}|{bt}",
                         f"{cls} ({', '.join(f'{k}={v!r}' for k, v in p.items() if k != 'cls')}) {cname} acts differently from the element "
                         f"tracked on its own ({bt}): {diff}", dict(r, beam=bt, context=cname))
                return
    # the map of a one-element segment is the element's map
    try:
        Et = torch.tensor(En, dtype=F64)
        a, b = cheetah.Segment([mk("el")], name="s").transfer_map(Et), el.transfer_map(Et)
        if tuple(a.shape) != tuple(b.shape) or not bool(((a - b).abs() <= 1e-12 * (1 + b.abs())).all()):
            rep.fail("falsifier", f"{prop}|{cls}|{thin}|Segment.transfer_map", f"Segment([{cls}]).transfer_map differs from {cls}.transfer_map by "
                     f"{float((a - b).abs().max()) if a.shape == b.shape else 'shape'}", dict(r, context="transfer_map"))
    except Exception:  # noqa: BLE001  (non-skippable segment: no transfer map)
        pass


def retune_probe(ctx, prop: str, n: int) -> None:
    """caches keyed on too little, including on object identity: the *same* element object tracks the *same* beam object,
    is re-tuned through its attributes, and tracks that same beam object again: the result is the one of a freshly built
    element (and, for an active cavity, the transverse area scales by E_in/E_out of the new settings)"""
    rep, rng = ctx.report, ctx.rng
    kinds = list(E.WARM_ATTRS)
    for i in range(n):
        cls = kinds[i % len(kinds)]
        a = LT.tame(E.gen_params(rng, cls))
        b = LT.tame(E.gen_params(rng, cls))
        if cls == "TransverseDeflectingCavity" or any(not isinstance(a.get(k), float) for k in E.WARM_ATTRS[cls]):
            continue
        for k in a:
            if k not in E.WARM_ATTRS[cls]:
                b[k] = a[k]                   # only what can be re-tuned through attributes differs
        if cls in ("Cavity",) and (a["L"] == 0.0 or b["L"] == 0.0):
            a["L"], b["L"] = 0.7, 1.1
        r = {"kind": "retune", "a": a, "b": b, "energy": float(E.energy(rng)), "particles": LT.gen_particles(rng, 6).tolist()}
        rep.fals_cases += 1
        rep.count("retune:" + cls)
        rep.case(("retune", cls), None)
        try:
            retune_case(rep, prop, r)
        except Exception as ex:  # noqa: BLE001
            rep.count(f"retune:rejected:{type(ex).__name__}")


def retune_case(rep, prop: str, r: dict) -> None:
    a, b, En, P = r["a"], r["b"], r["energy"], np.array(r["particles"], dtype=float)
    cls = a["cls"]
    for bt in ("ParticleBeam", "ParameterBeam"):
        beam = LT.particle_beam(P, En) if bt == "ParticleBeam" else LT.parameter_beam_from(P, En)
        el = E._build(a)
        try:
            el.track(beam)
        except Exception:  # noqa: BLE001
            continue
        for k, attr in E.WARM_ATTRS[cls].items():
            setattr(el, attr, torch.tensor(b[k], dtype=F64))
        got = el.track(beam)                                       # the same beam object again
        fresh_beam = LT.particle_beam(P, En) if bt == "ParticleBeam" else LT.parameter_beam_from(P, En)
        want = E._build(b).track(fresh_beam)
        diff = LT.beams_differ(got, want, rtol=1e-11)
        if diff is not None:
            rep.fail("falsifier", f"{prop}|{cls}|re-tuned, same beam object|{bt}",
                     f"{cls} tracked a beam, was re-tuned ({', '.join(k for k in E.WARM_ATTRS[cls] if a[k] != b[k])}) and tracked the same beam "
                     f"object again: differs from a freshly built element with the new settings ({bt}): {diff}", dict(r, beam=bt))
            return


TOGGLES = ["Aperture", "BlockingScreen", "Cavity", "Screen"]


def toggle_probe(ctx, prop: str, n: int) -> None:
    """anything remembered about a segment's elements (skippability, merged maps): a segment whose elements are all
    mergeable is tracked, then one element is switched on (an aperture or screen activated, a cavity given a voltage) —
    or the other way round — and the same segment object is tracked again: the result is the one of a freshly built
    segment in the final configuration (survival, charges, energy, coordinates)"""
    rep, rng = ctx.report, ctx.rng
    for i in range(n):
        r = {"kind": "toggle", "what": TOGGLES[i % len(TOGGLES)], "on_first": bool(i // len(TOGGLES) % 2), "nested": bool(rng.random() < 0.5),
             "L": float(E.pick(rng, 0.3, 0.7, 1.2)), "k1": float(E.pick(rng, 1.5, -2.0, 0.0)), "V": float(E.pick(rng, 2e6, 8e6)),
             "phase": float(E.pick(rng, 0.0, 30.0)), "xmax": float(E.pick(rng, 2e-5, 1e-4)), "energy": float(E.energy(rng)),
             "particles": LT.gen_particles(rng, 8).tolist()}
        rep.fals_cases += 1
        rep.count("toggle:" + r["what"])
        rep.case(("toggle", r["what"], r["on_first"], r["nested"]), None)
        toggle_case(rep, prop, r)


def toggle_case(rep, prop: str, r: dict) -> None:
    En, P, what = r["energy"], np.array(r["particles"], dtype=float), r["what"]
    t = lambda v: torch.tensor(v, dtype=F64)  # noqa: E731

    def build(on: bool):
        if what == "Aperture":
            x = cheetah.Aperture(x_max=t(r["xmax"]), y_max=t(r["xmax"]), shape="rectangular", is_active=on, name="x", dtype=F64)
        elif what in ("BlockingScreen", "Screen"):
            x = cheetah.Screen(resolution=(20, 20), pixel_size=t([1e-4, 1e-4]), is_blocking=what == "BlockingScreen", is_active=on,
                               name="x", dtype=F64)
        else:
            x = cheetah.Cavity(length=t(r["L"]), voltage=t(r["V"] if on else 0.0), phase=t(r["phase"]), frequency=t(1.3e9), name="x", dtype=F64)
        core = [cheetah.Quadrupole(length=t(0.2), k1=t(r["k1"]), name="q", dtype=F64), x]
        mid = [cheetah.Segment(core, name="cell")] if r["nested"] else core
        return cheetah.Segment([cheetah.Drift(length=t(r["L"]), name="d1", dtype=F64)] + mid + [cheetah.Drift(length=t(0.4), name="d2", dtype=F64)], name="line")

    def switch(seg, on: bool):
        x = seg.cell.x if r["nested"] else seg.x
        if what == "Cavity":
            x.voltage = t(r["V"] if on else 0.0)
        else:
            x.is_active = on
    for bt in ("ParticleBeam", "ParameterBeam"):
        mk = lambda: LT.particle_beam(P, En) if bt == "ParticleBeam" else LT.parameter_beam_from(P, En)  # noqa: E731
        seg = build(r["on_first"])
        try:
            seg.track(mk())
            _ = seg.is_skippable
            switch(seg, not r["on_first"])
            got = seg.track(mk())
            want = build(not r["on_first"]).track(mk())
        except Exception as ex:  # noqa: BLE001
            rep.count(f"toggle:rejected:{type(ex).__name__}")
            continue
        diff = LT.beams_differ(got, want, rtol=1e-11)
        if diff is not None:
            rep.fail("falsifier", f"{prop}|Segment|{what} switched {'off' if r['on_first'] else 'on'} after a track|{bt}",
                     f"a segment was tracked, its {what} was switched {'off' if r['on_first'] else 'on'} and the segment tracked again ({bt}"
                     f"{', element in a nested segment' if r['nested'] else ''}): differs from a freshly built segment in that configuration: {diff}",
                     dict(r, beam=bt))
            return


DIAG = ["Marker", "BPM", "ActiveBPM", "Screen", "ActiveScreen", "BlockingScreen", "OpenAperture", "InactiveAperture"]


def diagnostics_probe(ctx, prop: str, n: int) -> None:
    rep, rng = ctx.report, ctx.rng
    for i in range(n):
        kind = DIAG[i % len(DIAG)]
        r = {"kind": "diagnostic", "diag": kind, "mx": float(E.signed(rng, 1e-4, 2e-3, 0.25)), "my": float(E.signed(rng, 1e-4, 2e-3, 0.25)),
             "energy": float(E.energy(rng)), "particles": LT.gen_particles(rng, 6).tolist(), "where": E.pick(rng, "alone", "segment")}
        rep.fals_cases += 1
        rep.count("diagnostic:" + kind)
        rep.case(("diagnostic", kind, r["mx"] != 0, r["my"] != 0, r["where"]), None)
        diagnostics_case(rep, prop, r)


def diagnostics_case(rep, prop: str, r: dict) -> None:
    kind, En, P = r["diag"], r["energy"], np.array(r["particles"], dtype=float)
    mis = torch.tensor([r["mx"], r["my"]], dtype=F64)

    def mk():
        if kind == "Marker":
            return cheetah.Marker(name="dg")
        if kind in ("BPM", "ActiveBPM"):
            return cheetah.BPM(is_active=kind == "ActiveBPM", name="dg")
        if kind in ("Screen", "ActiveScreen", "BlockingScreen"):
            return cheetah.Screen(resolution=(40, 30), pixel_size=torch.tensor([1e-4, 1e-4], dtype=F64), misalignment=mis,
                                  is_active=kind != "Screen", is_blocking=kind == "BlockingScreen", name="dg", dtype=F64)
        return cheetah.Aperture(x_max=torch.tensor(float("inf"), dtype=F64), y_max=torch.tensor(float("inf"), dtype=F64),
                                is_active=kind == "OpenAperture", name="dg", dtype=F64)
    misl = "misaligned" if (r["mx"] != 0 or r["my"] != 0) and "Screen" in kind else "aligned"
    for bt in ("ParticleBeam", "ParameterBeam"):
        b = LT.particle_beam(P, En) if bt == "ParticleBeam" else LT.parameter_beam_from(P, En)
        before = _beam_arrays(b)
        try:
            el = mk() if r["where"] == "alone" else cheetah.Segment([mk()], name="s")
            out = el.track(b)
        except Exception as e:  # noqa: BLE001
            rep.fail("falsifier", f"{prop}|{kind}|{misl}|{bt}|raises", f"{kind} ({r['where']}): {type(e).__name__}: {e}", dict(r, beam=bt))
            return
        after = _beam_arrays(b)
        dm = _same(before, after)
        if dm is not None:
            rep.fail("falsifier", f"{prop}|{kind}|{misl}|{bt}|incoming beam modified", f"{kind} ({misl}, {r['where']}) modified the incoming {bt}: {dm}",
                     dict(r, beam=bt))
            return
        skip = ("survival", "total_charge", "charges") if kind == "BlockingScreen" else ()
        do = _same(before, _beam_arrays(out), skip=skip)
        if do is not None:
            rep.fail("falsifier", f"{prop}|{kind}|{misl}|{bt}|outgoing coordinates", f"{kind} ({misl}, misalignment ({r['mx']!r}, {r['my']!r}), "
                     f"{r['where']}) changed the {bt} that passed it: {do}", dict(r, beam=bt))
            return


# ------------------------------------------------------------------------------------------------
# diagnostics with a history
# ------------------------------------------------------------------------------------------------
DIAG_CHANGES = ["close-aperture", "pixel_size", "resolution+binning", "misalignment", "method", "none"]


def _diag_lattice(r: dict, final: bool):
    t = lambda v: torch.tensor(v, dtype=F64)   # noqa: E731
    s = r["screen_final"] if final else r["screen"]
    ap_x = r["ap_final"] if final else r["ap"]
    return cheetah.Segment([
        cheetah.Aperture(x_max=t(ap_x), y_max=t(1.0), is_active=True, name="ap", dtype=F64),
        cheetah.Drift(length=t(0.5), name="d", dtype=F64),
        cheetah.BPM(is_active=True, name="bpm"),
        cheetah.Screen(resolution=tuple(s["resolution"]), pixel_size=t(s["pixel_size"]), binning=s["binning"], misalignment=t(s["misalignment"]),
                       method=s["method"], kde_bandwidth=t(r["screen"]["pixel_size"][0]), is_active=True, name="scr", dtype=F64),
    ], name="root")


def _nan_equal(a, b) -> bool:
    if a is None or b is None:
        return a is None and b is None
    a, b = torch.as_tensor(a), torch.as_tensor(b)
    return tuple(a.shape) == tuple(b.shape) and bool(torch.allclose(torch.nan_to_num(a, nan=1.25e30), torch.nan_to_num(b, nan=1.25e30),
                                                                     rtol=1e-9, atol=1e-300))


def diag_history_case(rep, prop: str, r: dict) -> None:
    """a diagnostic's reading reflects the most recent beam and the diagnostic's *current* settings: track and read, change
    something (close the upstream aperture so that nothing arrives, change the screen's pixel size / resolution and
    binning / misalignment / method), track and read again: equal to a freshly built lattice with the final values"""
    P = np.array(r["particles"], dtype=float)
    for bt in ("ParticleBeam", "ParameterBeam"):
        if bt == "ParameterBeam" and r["change"] == "close-aperture":
            continue            # (apertures act on particles only)
        beam = lambda: LT.particle_beam(P, r["energy"]) if bt == "ParticleBeam" else LT.parameter_beam_from(P, r["energy"])   # noqa: E731
        seg = _diag_lattice(r, final=False)
        seg.track(beam())
        _ = seg.bpm.reading, seg.scr.reading
        t = lambda v: torch.tensor(v, dtype=F64)   # noqa: E731
        sf = r["screen_final"]
        seg.ap.x_max = t(r["ap_final"])
        seg.scr.pixel_size = t(sf["pixel_size"])
        seg.scr.resolution = tuple(sf["resolution"])
        seg.scr.binning = sf["binning"]
        seg.scr.misalignment = t(sf["misalignment"])
        seg.scr.method = sf["method"]
        seg.track(beam())
        fresh = _diag_lattice(r, final=True)
        fresh.track(beam())
        for nm in ("bpm", "scr"):
            try:
                a, b = getattr(seg, nm).reading, getattr(fresh, nm).reading
            except Exception as e:  # noqa: BLE001
                rep.fail("falsifier", f"{prop}|{nm}.reading|after {r['change']}|{bt}|raises", f"{type(e).__name__}: {e}", dict(r, beam=bt))
                return
            if not _nan_equal(a, b):
                rep.fail("falsifier", f"{prop}|{nm}.reading|after {r['change']}|{bt}",
                         f"{nm}.reading after track, read, {r['change']}, track differs from a fresh lattice with the final settings ({bt}): "
                         f"{str(torch.as_tensor(a).reshape(-1)[:4].tolist()) if a is not None else None} ... vs "
                         f"{str(torch.as_tensor(b).reshape(-1)[:4].tolist()) if b is not None else None} ...", dict(r, beam=bt))
                return


def diag_history_probe(ctx, prop: str, n: int) -> None:
    rep, rng = ctx.report, ctx.rng
    for i in range(n):
        change = DIAG_CHANGES[i % len(DIAG_CHANGES)]
        scr = {"resolution": [int(E.pick(rng, 20, 24, 30)), int(E.pick(rng, 12, 16, 20))], "pixel_size": [float(E.pick(rng, 1e-4, 2e-4)), float(E.pick(rng, 1e-4, 3e-4))],
               "binning": 1, "misalignment": [0.0, 0.0], "method": str(E.pick(rng, "histogram", "kde"))}
        fin = copy.deepcopy(scr)
        ap, apf = 1.0, 1.0
        if change == "close-aperture":
            apf = 1e-9
        elif change == "pixel_size":
            fin["pixel_size"] = [scr["pixel_size"][0] * 2.0, scr["pixel_size"][1] * 0.5]
        elif change == "resolution+binning":
            fin["resolution"], fin["binning"] = [2 * scr["resolution"][0], 2 * scr["resolution"][1]], 2
        elif change == "misalignment":
            fin["misalignment"] = [float(E.pick(rng, 3e-4, 0.0)), float(E.pick(rng, -2e-4, 4e-4))]
        elif change == "method":
            fin["method"] = "kde" if scr["method"] == "histogram" else "histogram"
        r = {"kind": "diag_history", "change": change, "screen": scr, "screen_final": fin, "ap": ap, "ap_final": apf,
             "energy": float(E.energy(rng)), "particles": LT.gen_particles(rng, 8).tolist()}
        rep.fals_cases += 1
        rep.count("probe:diag-history:" + change)
        rep.case(("diag_history", change, scr["method"]), None)
        try:
            diag_history_case(rep, prop, r)
        except Exception as ex:  # noqa: BLE001
            rep.count(f"diag-history:rejected:{type(ex).__name__}")


# ------------------------------------------------------------------------------------------------
# diagnostics after `transfer_maps_merged` (C11): the optimisation tracks the beam through the shared diagnostics
# ------------------------------------------------------------------------------------------------
def merged_readings_case(rep, prop: str, r: dict) -> None:
    """`Segment.transfer_maps_merged(beam)` sends `beam` through the lattice (it needs the energy in front of every merged
    run) and thereby through the *shared* active diagnostics: what they show afterwards must be what a freshly built lattice
    shows after tracking the same beam — the beam that really arrives there (runs of one, two, three mergeable elements
    between the diagnostics; also read again after tracking the merged lattice)."""
    t = lambda v: torch.tensor(v, dtype=F64)  # noqa: E731
    En, P, bt = r["energy"], np.array(r["particles"], dtype=float), r["beam"]

    def build():
        els = [cheetah.BPM(is_active=True, name="bpm0")]
        for i, (run, kind) in enumerate(zip(r["runs"], r["diags"])):
            for j, (L, k1) in enumerate(run):
                els.append(cheetah.Quadrupole(length=t(L), k1=t(k1), dtype=F64, name=f"q{i}_{j}") if k1 != 0.0
                           else cheetah.Drift(length=t(L), dtype=F64, name=f"d{i}_{j}"))
            if kind == "bpm":
                els.append(cheetah.BPM(is_active=True, name=f"diag{i}"))
            else:
                els.append(cheetah.Screen(resolution=(40, 40), pixel_size=t([2e-4, 2e-4]), is_active=True, method="histogram",
                                          dtype=F64, name=f"diag{i}"))
        return cheetah.Segment(els, name="lat")

    def beam():
        return LT.particle_beam(P, En) if bt == "ParticleBeam" else LT.parameter_beam_from(P, En)

    def readings(seg):
        out = []
        for e in seg.elements:
            if isinstance(e, cheetah.BPM):
                out.append(None if e.reading is None else e.reading.detach().numpy().reshape(-1).copy())
            elif isinstance(e, cheetah.Screen):
                out.append(e.reading.detach().numpy().copy())
        return out
    fresh = build()
    fresh.track(beam())
    want = readings(fresh)
    seg = build()
    merged = seg.transfer_maps_merged(incoming_beam=beam(), except_for=r.get("except_for", []))
    for stage in ("after transfer_maps_merged", "after tracking the merged lattice"):
        got = readings(seg)
        for i, (a, b) in enumerate(zip(got, want)):
            if a is None or b is None:
                ok = a is None and b is None
            else:
                ok = a.shape == b.shape and bool(np.all(np.abs(a - b) <= 1e-9 * (np.abs(b).max() + 1e-300)))
            if not ok:
                rep.fail("falsifier", f"{prop}|transfer_maps_merged|diagnostic reading|{bt}",
                         f"{stage}: diagnostic #{i} of the lattice (runs of {[len(x) for x in r['runs']]} mergeable elements, {bt}) "
                         f"shows something else than the same diagnostic of a freshly built lattice tracked with the same beam", r)
                return
        merged.track(beam())


def merged_readings_probe(ctx, prop: str, n: int) -> None:
    rep, rng = ctx.report, ctx.rng
    for i in range(n):
        nruns = int(rng.integers(2, 4))
        runs = [[(float(E.pick(rng, 0.3, 1.0, 0.55)), float(E.pick(rng, 0.0, 0.0, 2.0, -3.0))) for _ in range([1, 2, 3, 1][(i + j) % 4])]
                for j in range(nruns)]
        r = {"kind": "merged_readings", "runs": runs, "diags": [str(E.pick(rng, "bpm", "bpm", "screen")) for _ in runs],
             "beam": ["ParticleBeam", "ParameterBeam"][i % 2], "energy": float(E.energy(rng)),
             "particles": (LT.gen_particles(rng, 12) * np.array([1, 1, 1, 1, 1, 1, 1.0])).tolist()}
        rep.fals_cases += 1
        rep.count("probe:merged-readings")
        rep.case(("merged_readings", tuple(len(x) for x in runs), r["beam"]), None)
        try:
            merged_readings_case(rep, prop, r)
        except Exception as ex:  # noqa: BLE001
            rep.count(f"merged-readings:rejected:{type(ex).__name__}")
