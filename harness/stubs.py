"""Stub `Element` subclasses with integer-valued maps: the real `Segment` algorithms (track, transfer_map,
flattened, subcell, length, transfer_maps_merged) run on them exactly (all products exact in float64) and are
compared bit-for-bit with the Lean model `Lat.*` over `Int` (driver ops `lat …`)."""
from __future__ import annotations

from typing import Optional

import numpy as np
import torch

import cheetah
from cheetah.accelerator import Element
from cheetah.particles import ParameterBeam, ParticleBeam

F64 = torch.float64


class StubElement(Element):
    def __init__(self, idx: int, skip: bool, m0: np.ndarray, m1: np.ndarray, dE: int, length: int, name: str):
        super().__init__(name=name)
        self.idx = idx
        self._skip = bool(skip)
        self.register_buffer("m0", torch.tensor(m0, dtype=F64))
        self.register_buffer("m1", torch.tensor(m1, dtype=F64))
        self.dE = int(dE)
        self.register_buffer("length", torch.tensor(float(length), dtype=F64))

    @property
    def is_skippable(self) -> bool:
        return self._skip

    def transfer_map(self, energy: torch.Tensor) -> torch.Tensor:
        return self.m0 if int(round(float(energy))) % 2 == 0 else self.m1

    def track(self, incoming):
        out = super().track(incoming)
        if self._skip:
            return out
        if isinstance(out, ParticleBeam):
            p = out.particles.clone()
            p[..., 0] = p[..., 0].abs()
            return ParticleBeam(p, out.energy + self.dE, particle_charges=out.particle_charges,
                                survival_probabilities=out.survival_probabilities, dtype=F64)
        mu = out._mu.clone()
        mu[..., 0] = mu[..., 0].abs()
        return ParameterBeam(mu, out._cov, out.energy + self.dE, total_charge=out.total_charge, dtype=F64)

    @property
    def defining_features(self):
        return super().defining_features + ["length"]

    def split(self, resolution):
        return [self]

    def plot(self, ax, s, vector_idx=None):
        pass


def rand_shear(rng) -> np.ndarray:
    """affine integer map: identity + one or two off-diagonal unit entries (+ sometimes a shift in the 7th column)"""
    m = np.eye(7)
    for _ in range(int(rng.integers(1, 3))):
        i, j = int(rng.integers(0, 6)), int(rng.integers(0, 6))
        if i != j:
            m[i, j] += float(rng.choice([-1, 1]))
    if rng.random() < 0.3:
        m[int(rng.integers(0, 6)), 6] = float(rng.choice([-1, 1, 2]))
    return m


class Case:
    """A random nested lattice of stubs, with its token encoding."""

    def __init__(self, rng, max_leaves: int = 10, max_depth: int = 3, p_skip: float = 0.65):
        self.rng = rng
        n = int(rng.integers(1, max_leaves + 1))
        self.stubs = []
        for k in range(n):
            skip = rng.random() < p_skip
            m0, m1 = rand_shear(rng), rand_shear(rng)
            if rng.random() < 0.5:
                m1 = m0.copy()
            self.stubs.append(dict(idx=k, skip=skip, m0=m0, m1=m1, dE=(0 if skip else int(rng.integers(0, 4))),
                                   length=int(rng.integers(0, 4)), name=100 + k))
        self._seg_counter = 0
        order = list(range(n))
        self.tree = self._nest(order, 0, max_depth)  # nested python lists of ints; root is a list

    def _nest(self, items, depth, max_depth):
        out = []
        i = 0
        while i < len(items):
            if depth < max_depth and self.rng.random() < 0.25:
                ln = int(self.rng.integers(1, min(4, len(items) - i) + 1))
                out.append(self._nest(items[i:i + ln], depth + 1, max_depth))
                i += ln
            else:
                out.append(items[i])
                i += 1
        return out

    # ---- real objects --------------------------------------------------------------------
    def build(self):
        self._seg_counter = 0
        self.seg_names = {}
        return self._build(self.tree, root=True)

    def _build(self, node, root=False):
        name = 0 if root else None
        if not root:
            self._seg_counter += 1
            name = 500 + self._seg_counter
        els = []
        for it in node:
            if isinstance(it, list):
                els.append(self._build(it))
            else:
                s = self.stubs[it]
                els.append(StubElement(s["idx"], s["skip"], s["m0"], s["m1"], s["dE"], s["length"], str(s["name"])))
        return cheetah.Segment(els, name=str(name))

    # ---- tokens ----------------------------------------------------------------------------
    def stub_tokens(self) -> str:
        toks = [str(len(self.stubs))]
        for s in self.stubs:
            toks += [str(int(s["skip"])), str(s["dE"]), str(s["length"]), str(s["name"])]
            toks += [str(int(v)) for v in s["m0"].reshape(-1)]
            toks += [str(int(v)) for v in s["m1"].reshape(-1)]
        return " ".join(toks)

    def tree_tokens(self) -> str:
        self._seg_counter = 0

        def go(node, root=False):
            if root:
                name = 0
            else:
                self._seg_counter += 1
                name = 500 + self._seg_counter
            parts = ["[", str(name)]
            for it in node:
                parts.append(go(it) if isinstance(it, list) else f"e{it}")
            parts.append("]")
            return " ".join(parts)
        return go(self.tree, root=True)

    def top_names(self) -> list[int]:
        self._seg_counter = 0
        names = []

        def count(node):
            self._seg_counter += 1
            nm = 500 + self._seg_counter
            for it in node:
                if isinstance(it, list):
                    count(it)
            return nm
        for it in self.tree:
            names.append(count(it) if isinstance(it, list) else self.stubs[it]["name"])
        return names

    def describe(self) -> dict:
        def go(node):
            return [go(it) if isinstance(it, list) else ("S" if self.stubs[it]["skip"] else "N") + str(it) for it in node]
        return {"tree": go(self.tree), "n": len(self.stubs)}


def show_real(seg_or_list) -> str:
    """Same rendering as DrvLat.showLat / showList."""
    def one(e):
        if isinstance(e, cheetah.Segment):
            return "[ " + " ".join(one(x) for x in e.elements) + " ]"
        if isinstance(e, cheetah.CustomTransferMap):
            return "m(" + " ".join(str(int(v)) for v in e.predefined_transfer_map.reshape(-1).tolist()) + ")"
        return f"e{e.idx}"
    els = seg_or_list.elements if isinstance(seg_or_list, cheetah.Segment) else seg_or_list
    return " ".join(one(e) for e in els)


def rand_pbeam(rng, n: Optional[int] = None):
    n = n or int(rng.integers(1, 4))
    P = rng.integers(-3, 4, size=(n, 7)).astype(float)
    P[:, 6] = 1.0
    en = int(rng.integers(10, 20))
    toks = [str(en), str(n)] + [str(int(v)) for v in P.reshape(-1)]
    return ParticleBeam(torch.tensor(P, dtype=F64), torch.tensor(float(en), dtype=F64), dtype=F64), " ".join(toks)


def rand_mbeam(rng):
    mu = rng.integers(-3, 4, size=7).astype(float)
    mu[6] = 1.0
    A = rng.integers(-2, 3, size=(7, 7)).astype(float)
    cov = A @ A.T
    cov[6, :] = 0
    cov[:, 6] = 0
    en = int(rng.integers(10, 20))
    toks = [str(en)] + [str(int(v)) for v in mu] + [str(int(v)) for v in cov.reshape(-1)]
    return (ParameterBeam(torch.tensor(mu, dtype=F64), torch.tensor(cov, dtype=F64), torch.tensor(float(en), dtype=F64),
                          dtype=F64), " ".join(toks))


def show_pbeam(b) -> str:
    return " ".join(str(int(v)) for v in [float(b.energy)] + b.particles.reshape(-1).tolist())


def show_mbeam(b) -> str:
    return " ".join(str(int(v)) for v in [float(b.energy)] + b._mu.reshape(-1).tolist() + b._cov.reshape(-1).tolist())
