"""Parameter records for every Cheetah element class: structured generators (exact zeros, both signs,
tilt/misalignment on/off, L=0, low energy), construction of the real element, and the matching
request to the Lean model."""
from __future__ import annotations

import math
from typing import Any, Optional

import numpy as np
import torch

import cheetah
from cheetah.utils.physics import electron_mass_eV
from scipy import constants as _sc

MC2 = float(electron_mass_eV)
CLIGHT = float(_sc.speed_of_light)
PI = float(torch.pi)
F64 = torch.float64


def t(x: Any) -> torch.Tensor:
    return torch.tensor(x, dtype=F64)


# ---------------------------------------------------------------------------------------------
# value menus
# ---------------------------------------------------------------------------------------------
def pick(rng, *choices):
    return choices[int(rng.integers(len(choices)))]


MENU_E = [5e6, 2e7, 1e8, 1e9]


def energy(rng, low: bool = False) -> float:
    """log-uniform 5 MeV .. 20 GeV; `low` biases to a few MeV where beta < 1 matters; a quarter of the draws come from
    a small menu (the energies at which "used before" elements were exercised, see WARM)"""
    if not low and rng.random() < 0.25:
        return float(MENU_E[int(rng.integers(len(MENU_E)))])
    if low or rng.random() < 0.25:
        return float(np.exp(rng.uniform(np.log(2e6), np.log(2e7))))
    return float(np.exp(rng.uniform(np.log(5e6), np.log(2e10))))


def length(rng, allow_zero: bool = True) -> float:
    r = rng.random()
    if allow_zero and r < 0.08:
        return 0.0
    if r < 0.2:
        return float(pick(rng, 0.1, 0.5, 1.0, 2.0))
    return float(rng.uniform(0.05, 3.0))


def signed(rng, lo: float, hi: float, p_zero: float = 0.2) -> float:
    if rng.random() < p_zero:
        return 0.0
    v = float(np.exp(rng.uniform(np.log(lo), np.log(hi))))
    return v if rng.random() < 0.5 else -v


def gen_params(rng, cls: str, force: Optional[dict] = None) -> dict:
    """One parameter record for element class `cls` (all float values are float64 python floats)."""
    p: dict = {"cls": cls}
    if cls == "Drift":
        p.update(L=length(rng))
    elif cls == "Quadrupole":
        p.update(L=length(rng), k1=signed(rng, 0.05, 30.0), mx=signed(rng, 1e-5, 5e-3, 0.5),
                 my=signed(rng, 1e-5, 5e-3, 0.5), tilt=signed(rng, 1e-3, 1.5, 0.45))
        if rng.random() < 0.5:  # misalignment all-or-nothing is the common case
            if p["mx"] == 0.0 or p["my"] == 0.0:
                p["mx"] = p["my"] = 0.0
    elif cls in ("Dipole", "RBend"):
        while True:
            L = length(rng)
            angle = signed(rng, 1e-3, 1.0, 0.15)
            if rng.random() < 0.12:      # bends of 90 degrees and more (the second branch of the Bmad-X bend body)
                angle = float(rng.uniform(1.6, 2.6)) * (1.0 if rng.random() < 0.5 else -1.0)
            k1 = signed(rng, 0.05, 10.0, 0.5)
            hx = 0.0 if L == 0.0 else angle / L
            kx2 = (k1 if k1 != 0 else 1e-12) + hx * hx
            if abs(kx2) >= 0.05 * (abs(k1) + hx * hx) or (k1 == 0.0 and hx == 0.0):
                break
        p.update(L=L, angle=angle, k1=k1, e1=signed(rng, 1e-3, 0.6, 0.4), e2=signed(rng, 1e-3, 0.6, 0.4),
                 tilt=signed(rng, 1e-3, 1.5, 0.5), gap=pick(rng, 0.0, 0.0, 0.02, 0.05),
                 fint=pick(rng, 0.0, 0.0, 0.5, 0.3), fintx=None)
        p["fintx"] = p["fint"] if rng.random() < 0.6 else pick(rng, 0.0, 0.4, 0.7)
    elif cls == "Solenoid":
        p.update(L=length(rng), k=signed(rng, 0.05, 5.0), mx=signed(rng, 1e-5, 5e-3, 0.6),
                 my=signed(rng, 1e-5, 5e-3, 0.6))
    elif cls in ("HorizontalCorrector", "VerticalCorrector"):
        p.update(L=length(rng), angle=signed(rng, 1e-6, 1e-2))
    elif cls == "Undulator":
        p.update(L=length(rng))
    elif cls == "Cavity":
        L = length(rng, allow_zero=False)
        p.update(L=L, V=signed(rng, 1e4, 5e7, 0.3), phase=pick(rng, 0.0, 0.0, 10.0, -25.0, 45.0, 170.0, -90.0 + 30.0),
                 freq=pick(rng, 1.3e9, 2.998e9, 0.0))
        if rng.random() < 0.4:
            p["phase"] = float(rng.uniform(-80.0, 80.0))
    elif cls in ("Marker",):
        pass
    elif cls == "BPM":
        p.update(active=bool(rng.random() < 0.5))
    elif cls == "Screen":
        p.update(active=bool(rng.random() < 0.5), blocking=False, mx=signed(rng, 1e-4, 2e-3, 0.5), my=signed(rng, 1e-4, 2e-3, 0.5))
    elif cls == "Aperture":
        p.update(xmax=pick(rng, float("inf"), 1e-3, 5e-4, 2e-3), ymax=pick(rng, float("inf"), 1e-3, 5e-4, 2e-3),
                 shape=pick(rng, "rectangular", "elliptical"), active=bool(rng.random() < 0.7))
    elif cls == "SpaceChargeKick":
        p.update(L=float(pick(rng, 0.1, 0.5, 1.0)), grid=8)
    elif cls == "CustomTransferMap":
        q = gen_params(rng, "Quadrupole")
        p.update(L=q["L"], inner=q, E0=1e8)
    elif cls == "TransverseDeflectingCavity":
        p.update(L=length(rng, allow_zero=False), V=signed(rng, 1e4, 5e6, 0.3), phase=float(rng.uniform(-180, 180)),
                 freq=pick(rng, 1.3e9, 2.998e9), mx=signed(rng, 1e-5, 1e-3, 0.6), my=signed(rng, 1e-5, 1e-3, 0.6),
                 tilt=signed(rng, 1e-3, 1.5, 0.5), num_steps=int(pick(rng, 1, 2, 5)))
    else:
        raise ValueError(cls)
    if cls in ("Drift", "Quadrupole", "Dipole", "RBend") and "method" not in p:
        p["method"] = "cheetah"
    if cls == "Quadrupole":
        p.setdefault("num_steps", 1)
    if force:
        p.update(force)
    return p


LINEAR_CLASSES = ["Drift", "Quadrupole", "Dipole", "RBend", "Solenoid", "HorizontalCorrector",
                  "VerticalCorrector", "Undulator", "Cavity", "Marker", "BPM", "Screen", "Aperture"]


# ---------------------------------------------------------------------------------------------
# "used before": hidden state.  When WARM is a numpy Generator, a fraction of the elements handed to the checks are
# not freshly constructed: they are built with *other* parameter values, used (tracked with both beam types, asked for
# their transfer map at two energies, split, cloned), and then re-tuned to the wanted values through the public
# attributes.  A result that depends only on the current parameter values (C11) is the same either way, so every
# correspondence and falsifier of every property doubles as a probe for stale caches / leftover state.
# ---------------------------------------------------------------------------------------------
WARM = None
WARM_P = 0.3
WARM_COUNT = {"warm": 0, "fresh": 0, "fallback": 0}
# record key -> attribute (tensor attributes that the constructor merely stores)
WARM_ATTRS = {
    "Drift": {"L": "length"},
    "Quadrupole": {"L": "length", "k1": "k1", "tilt": "tilt"},
    "Solenoid": {"L": "length", "k": "k"},
    "HorizontalCorrector": {"L": "length", "angle": "angle"},
    "VerticalCorrector": {"L": "length", "angle": "angle"},
    "Undulator": {"L": "length"},
    "Cavity": {"L": "length", "V": "voltage", "phase": "phase", "freq": "frequency"},
    "Dipole": {"L": "length", "angle": "angle", "k1": "k1", "tilt": "tilt", "e1": "dipole_e1", "e2": "dipole_e2",
               "fint": "fringe_integral", "fintx": "fringe_integral_exit"},   # (gap_exit is derived from gap at construction)
    "TransverseDeflectingCavity": {"L": "length", "V": "voltage", "phase": "phase", "freq": "frequency", "tilt": "tilt"},
}


def _warm_build(p: dict, dtype, name, extra):
    rng = WARM
    c = p["cls"]
    attrs = WARM_ATTRS[c]
    if any(not isinstance(p.get(k), float) for k in attrs):
        return None
    # earlier settings: a random non-empty subset of the parameters differs from the wanted values (a cache keyed on
    # the others would hit)
    vary = [k for k in attrs if rng.random() < 0.5] or [list(attrs)[int(rng.integers(len(attrs)))]]
    q = dict(p)
    for k in vary:
        v = p[k]
        if k == "L":
            q[k] = v * 0.5 + 0.21
        elif k == "freq":
            q[k] = v if v != 0.0 else 1.3e9
        else:
            q[k] = v * 0.6 + {"k1": 0.37, "k": 0.21, "angle": 2e-3, "tilt": 0.05, "V": 1.1e5, "phase": 3.0, "e1": 0.01, "e2": -0.02,
                              "fint": 0.1, "fintx": 0.2}.get(k, 0.1)
    el = _build(q, dtype, name, extra)
    P = torch.zeros(3, 7, dtype=dtype)
    P[:, :6] = torch.tensor(rng.normal(size=(3, 6)) * 1e-4, dtype=dtype)
    P[:, 6] = 1.0
    mu = P.mean(dim=0)
    cov = torch.zeros(7, 7, dtype=dtype)
    cov[:6, :6] = torch.cov(P[:, :6].T)
    for e in MENU_E:
        En = torch.tensor(e, dtype=dtype)
        for use in (lambda: el.track(cheetah.ParticleBeam(P, En, dtype=dtype)),
                    lambda: el.track(cheetah.ParameterBeam(mu, cov, En, dtype=dtype)),
                    lambda: el.transfer_map(En)):
            try:
                use()
            except Exception:  # noqa: BLE001
                pass
    try:
        el.split(torch.tensor(0.13, dtype=dtype))
        el.clone()
        _ = el.is_skippable, getattr(el, "is_active", None)
    except Exception:  # noqa: BLE001
        pass
    for k in vary:
        setattr(el, attrs[k], torch.tensor(p[k], dtype=dtype))
    return el


def build(p: dict, dtype=F64, name: Optional[str] = None, **extra):
    """The real Cheetah element for a parameter record (possibly one that was used before, see WARM)."""
    if WARM is not None and p.get("cls") in WARM_ATTRS and WARM.random() < WARM_P:
        try:
            el = _warm_build(p, dtype, name, extra)
        except Exception:  # noqa: BLE001
            el = None
        if el is not None:
            WARM_COUNT["warm"] += 1
            return el
        WARM_COUNT["fallback"] += 1
    else:
        WARM_COUNT["fresh"] += 1
    return _build(p, dtype, name, extra)


def _build(p: dict, dtype=F64, name: Optional[str] = None, extra=None, tensor=None):
    """The real Cheetah element for a parameter record, freshly constructed.  `tensor`: how the parameter tensors handed
    to the constructor are made (default: in the working dtype); the constructor is always asked for `dtype`."""
    extra = dict(extra or {})
    c = p["cls"]
    kw = dict(dtype=dtype)
    if name is not None:
        kw["name"] = name
    tt = tensor if tensor is not None else (lambda x: torch.tensor(x, dtype=dtype))  # noqa: E731
    if c in ("Drift", "Quadrupole", "Dipole", "RBend") and p.get("method", "cheetah") != "cheetah":
        extra = dict(extra, tracking_method=p["method"])
    if c == "Drift":
        return cheetah.Drift(length=tt(p["L"]), **kw, **extra)
    if c == "Quadrupole":
        return cheetah.Quadrupole(length=tt(p["L"]), k1=tt(p["k1"]), misalignment=tt([p["mx"], p["my"]]),
                                  tilt=tt(p["tilt"]), num_steps=p.get("num_steps", 1), **kw, **extra)
    if c == "Dipole":
        return cheetah.Dipole(length=tt(p["L"]), angle=tt(p["angle"]), k1=tt(p["k1"]), dipole_e1=tt(p["e1"]),
                              dipole_e2=tt(p["e2"]), tilt=tt(p["tilt"]), gap=tt(p["gap"]),
                              fringe_integral=tt(p["fint"]), fringe_integral_exit=tt(p["fintx"]), **kw, **extra)
    if c == "RBend":
        return cheetah.RBend(length=tt(p["L"]), angle=tt(p["angle"]), k1=tt(p["k1"]), rbend_e1=tt(p["e1"]),
                             rbend_e2=tt(p["e2"]), tilt=tt(p["tilt"]), gap=tt(p["gap"]),
                             fringe_integral=tt(p["fint"]), fringe_integral_exit=tt(p["fintx"]), **kw, **extra)
    if c == "Solenoid":
        return cheetah.Solenoid(length=tt(p["L"]), k=tt(p["k"]), misalignment=tt([p["mx"], p["my"]]), **kw, **extra)
    if c == "HorizontalCorrector":
        return cheetah.HorizontalCorrector(length=tt(p["L"]), angle=tt(p["angle"]), **kw, **extra)
    if c == "VerticalCorrector":
        return cheetah.VerticalCorrector(length=tt(p["L"]), angle=tt(p["angle"]), **kw, **extra)
    if c == "Undulator":
        return cheetah.Undulator(length=tt(p["L"]), **kw, **extra)
    if c == "Cavity":
        return cheetah.Cavity(length=tt(p["L"]), voltage=tt(p["V"]), phase=tt(p["phase"]), frequency=tt(p["freq"]),
                              **kw, **extra)
    if c == "Marker":
        return cheetah.Marker(**({"name": name} if name else {}))
    if c == "Segment":
        return cheetah.Segment([build(q, dtype=dtype, name=q.get("name")) for q in p["elements"]],
                               **({"name": name} if name else {}))
    if c == "BPM":
        return cheetah.BPM(is_active=p.get("active", False), **({"name": name} if name else {}), **extra)
    if c == "Screen":
        return cheetah.Screen(resolution=(40, 30), pixel_size=tt([1e-4, 1e-4]), is_active=p.get("active", False),
                              is_blocking=p.get("blocking", False), misalignment=tt([p.get("mx", 0.0), p.get("my", 0.0)]),
                              **kw, **extra)
    if c == "Aperture":
        return cheetah.Aperture(x_max=tt(p.get("xmax", float("inf"))), y_max=tt(p.get("ymax", float("inf"))),
                                shape=p.get("shape", "rectangular"), is_active=p.get("active", True), **kw, **extra)
    if c == "SpaceChargeKick":
        g = p.get("grid", 8)
        return cheetah.SpaceChargeKick(effect_length=tt(p["L"]), num_grid_points_x=g, num_grid_points_y=g,
                                       num_grid_points_tau=g, **kw, **extra)
    if c == "CustomTransferMap":
        tm = build(p["inner"], dtype=dtype).transfer_map(torch.tensor(p["E0"], dtype=dtype))
        return cheetah.CustomTransferMap(tm, length=tt(p["L"]), **kw, **extra)
    if c == "TransverseDeflectingCavity":
        return cheetah.TransverseDeflectingCavity(length=tt(p["L"]), voltage=tt(p["V"]), phase=tt(p["phase"]),
                                                  frequency=tt(p["freq"]), misalignment=tt([p["mx"], p["my"]]),
                                                  tilt=tt(p["tilt"]), num_steps=p.get("num_steps", 1), **kw, **extra)
    raise ValueError(c)


def lean_map_request(drv, p: dict, E: float) -> int:
    """Queue the model's transfer map for the record; returns the request index."""
    c = p["cls"]
    if c == "Drift":
        return drv.call("drift", p["L"], E, MC2)
    if c == "Quadrupole":
        return drv.call("quad", p["L"], p["k1"], p["mx"], p["my"], p["tilt"], E, MC2)
    if c in ("Dipole", "RBend"):
        return drv.call("dipole" if c == "Dipole" else "rbend", p["L"], p["angle"], p["k1"], p["e1"], p["e2"],
                        p["tilt"], p["gap"], p["fint"], p["fintx"], E, MC2)
    if c == "Solenoid":
        return drv.call("solenoid", p["L"], p["k"], p["mx"], p["my"], E, MC2)
    if c == "HorizontalCorrector":
        return drv.call("hcor", p["L"], p["angle"], E, MC2)
    if c == "VerticalCorrector":
        return drv.call("vcor", p["L"], p["angle"], E, MC2)
    if c == "Undulator":
        return drv.call("undulator", p["L"], E, MC2)
    if c == "Cavity":
        return drv.call("cavity", p["L"], p["V"], p["phase"], p["freq"], E, MC2, CLIGHT, PI)
    if c in ("Marker", "BPM", "Screen", "Aperture"):
        return drv.call("ident")
    raise ValueError(c)


def real_map(el, E: float) -> list[float]:
    tm = el.transfer_map(t(E))
    assert tm.shape == (7, 7), tm.shape
    return [float(v) for v in tm.reshape(-1).tolist()]


def config_key(p: dict) -> tuple:
    """Coarse configuration class of a record (which guards/branches it exercises)."""
    def s(v):
        return "0" if v == 0 else ("+" if v > 0 else "-")
    return tuple([p["cls"]] + [f"{k}{s(v)}" for k, v in sorted(p.items())
                               if isinstance(v, float) and k not in ("freq",)])
