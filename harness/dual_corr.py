"""B1(ii) for C05: `torch.autograd` gradients of every entry of `Quadrupole.transfer_map` / `Solenoid.transfer_map`
w.r.t. each float parameter vs the tangents of the Lean model evaluated on dual numbers (`Dual Float`), incl. the
exact-zero guard points (where forward tangents reproduce what autograd returns for the traced program)."""
from __future__ import annotations

import numpy as np
import torch

import cheetah
import elements as E
from common import LeanDriver, vec_close

F64 = torch.float64
QVARS = ["L", "k1", "mx", "my", "tilt", "energy"]


def autograd_quad(p, En, wrt):
    vals = {"L": p["L"], "k1": p["k1"], "mx": p["mx"], "my": p["my"], "tilt": p["tilt"], "energy": En}
    leaf = torch.tensor(vals[wrt], dtype=F64, requires_grad=True)
    t = {k: (leaf if k == wrt else torch.tensor(v, dtype=F64)) for k, v in vals.items()}
    mis = torch.stack([t["mx"], t["my"]])
    q = cheetah.Quadrupole(length=t["L"], k1=t["k1"], misalignment=mis, tilt=t["tilt"], dtype=F64)
    tm = q.transfer_map(t["energy"])
    out = []
    for i in range(7):
        for j in range(7):
            if tm[i, j].requires_grad:
                (gr,) = torch.autograd.grad(tm[i, j], leaf, retain_graph=True, allow_unused=True)
                out.append(0.0 if gr is None else float(gr))
            else:
                out.append(0.0)
    return out


def run_dual_correspondence(ctx, prop: str, n: int) -> None:
    rep, rng = ctx.report, ctx.rng
    drv = LeanDriver()
    pend = []
    for _ in range(n):
        p = E.gen_params(rng, "Quadrupole")
        if p["L"] == 0.0:
            p["L"] = 0.4
        En = E.energy(rng)
        wrt = QVARS[int(rng.integers(len(QVARS)))]
        # misalignment all-zero takes the shortcut branch (no dependence): keep both variants
        try:
            real = autograd_quad(p, En, wrt)
        except Exception as ex:
            rep.count(f"dual-rejected:{type(ex).__name__}")
            continue
        idx = drv.call("dquad", float(QVARS.index(wrt)), p["L"], p["k1"], p["mx"], p["my"], p["tilt"], En, E.MC2)
        pend.append((p, En, wrt, real, idx))
    replies = drv.run()
    for p, En, wrt, real, idx in pend:
        rep.corr_cases += 1
        key = ("dual", wrt, "k1=0" if p["k1"] == 0 else "k1!=0", "tilt=0" if p["tilt"] == 0 else "tilt!=0",
               "mis=0" if (p["mx"] == 0 and p["my"] == 0) else "mis!=0")
        rep.count(":".join(key))
        rep.case(key, {"params": p, "energy": En, "wrt": wrt} if rep.corr_cases % 25 == 1 else None)
        model = replies[idx]
        if isinstance(model, str):
            rep.fail("correspondence", f"{prop}|driver|dquad", f"Lean driver error {model}", {"params": p}, found_input=False)
            continue
        scale = max(1.0, max(abs(x) for x in real if np.isfinite(x)) if any(np.isfinite(x) for x in real) else 1.0)
        ok, w, i = vec_close(real, model, ulps=1e6, scale=scale)
        rep.ulp(w)
        if not ok:
            ctx.escalate = True
            a, b = divmod(max(i, 0), 7)
            rep.fail("correspondence", f"{prop}|model-mismatch|Quadrupole.transfer_map grad|d/d{wrt}",
                     f"autograd d R[{a},{b}]/d {wrt} = {real[i]!r} differs from the dual-number model {model[i]!r}",
                     {"kind": "dual", "params": p, "energy": En, "wrt": wrt, "entry": [a, b],
                      "broken": "correspondence autograd <-> CheetahModel.Dual (quadMapDual)"}, found_input=False)
