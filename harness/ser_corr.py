"""B1 correspondence for C14: `latticejson.convert_segment` / `parse_segment` of the real code vs `NLat.conv` /
`NLat.parse` (Lean, CheetahModel/Serialise.lean) on random named segment trees — names drawn from a small pool, so
that duplicate names (leaf/leaf, leaf/segment, segment/segment, a segment named like its ancestor) occur, and from a
unique pool (the hypothesis of theorem C14.roundtrip, for which the read-back tree must equal the input).
Compared: every entry of the two dictionaries and the tree read back (canonical token string)."""
from __future__ import annotations

import torch

import cheetah
from cheetah import latticejson as LJ
from common import LeanDriver


def gen_tree(rng, names, depth: int, unique: bool):
    """('S', name, [children]) | ('L', name, cls, length)"""
    def name():
        if unique:
            return names.pop()
        return names[int(rng.integers(len(names)))]

    def node(d):
        if d > 0 and rng.random() < 0.35:
            k = int(rng.integers(0, 4))
            nm = name()
            return ("S", nm, [node(d - 1) for _ in range(k)])
        cls = ["Drift", "Marker", "Quadrupole"][int(rng.integers(3))]
        return ("L", name(), cls, float(int(rng.integers(1, 9))) / 4)
    k = int(rng.integers(1, 5))
    nm = name()
    return ("S", nm, [node(depth) for _ in range(k)])


def tokens(t) -> str:
    if t[0] == "L":
        return f"L {t[1]} {t[2]} 0" if t[2] == "Marker" else f"L {t[1]} {t[2]} 1 length {t[3]!r}"
    return f"S {t[1]} {len(t[2])}" + "".join(" " + tokens(c) for c in t[2])


def build(t):
    if t[0] == "L":
        if t[2] == "Marker":
            return cheetah.Marker(name=t[1])
        return getattr(cheetah, t[2])(length=torch.tensor(t[3], dtype=torch.float64), name=t[1], dtype=torch.float64)
    return cheetah.Segment([build(c) for c in t[2]], name=t[1])


def real_tokens(el) -> str:
    if isinstance(el, cheetah.Segment):
        return f"S {el.name} {len(el.elements)}" + "".join(" " + real_tokens(c) for c in el.elements)
    c = type(el).__name__
    return f"L {el.name} {c} 0" if c == "Marker" else f"L {el.name} {c} 1 length {float(el.length)!r}"


def all_names(t, acc):
    acc.append(t[1])
    if t[0] == "S":
        for c in t[2]:
            all_names(c, acc)
    return acc


def real_reply(t, qs) -> str:
    seg = build(t)
    elements, lattices = LJ.convert_segment(seg)

    def e(q):
        if q not in elements:
            return f"{q}:-"
        cls, params = elements[q]
        return f"{q}:{cls}" + (f",length={float(params['length'])!r}" if cls != "Marker" else "")
    es = " ".join(e(q) for q in qs)
    ls = " ".join(f"{q}:[{','.join(lattices[q])}]" if q in lattices else f"{q}:-" for q in qs)
    try:
        back = real_tokens(LJ.parse_segment(seg.name, {"elements": elements, "lattices": lattices}))
    except (RecursionError, KeyError):
        back = "none"
    return f"T E {es} | L {ls} | P {back}"


def run_ser_correspondence(ctx, prop: str, n: int) -> None:
    rep, rng = ctx.report, ctx.rng
    drv = LeanDriver()
    cases = []
    for i in range(n):
        unique = i % 2 == 0
        pool = [f"n{j}" for j in range(40)] if unique else [f"n{j}" for j in range(int(rng.integers(3, 7)))]
        if unique:
            rng.shuffle(pool)
        t = gen_tree(rng, pool, int(rng.integers(1, 4)), unique)
        qs = sorted(set(all_names(t, []))) + ["absent"]
        try:
            real = real_reply(t, qs)
        except Exception as ex:  # noqa: BLE001  the real code rejected the tree (e.g. duplicate names in one Segment)
            rep.count(f"ser:rejected:{type(ex).__name__}")
            continue
        cases.append((t, unique, real, drv.raw("ser " + tokens(t) + " Q " + " ".join(qs))))
    replies = drv.run()
    for t, unique, real, idx in cases:
        model = replies[idx]
        rep.corr_cases += 1
        rep.count("ser:unique" if unique else "ser:duplicates")
        rep.case(("ser", unique, len(all_names(t, []))), {"tree": tokens(t)} if rep.corr_cases < 4 else None)
        if model != real:
            ctx.escalate = True
            parts = [p for p, (a, b) in zip(("elements", "lattices", "parse"), zip(str(model).split(" | "), real.split(" | "))) if a != b]
            rep.fail("correspondence", f"{prop}|model-mismatch|convert_segment/parse_segment|{'+'.join(parts) or 'reply'}",
                     f"LatticeJSON dictionaries / read-back of tree `{tokens(t)}` differ from the Lean model NLat.conv / NLat.parse: "
                     f"code `{real[:300]}` model `{str(model)[:300]}`",
                     {"kind": "ser", "tree": tokens(t), "code": real, "model": model,
                      "broken": "correspondence latticejson.convert_segment/parse_segment <-> CheetahModel.Serialise; theorem "
                                "C14.roundtrip no longer speaks about this code"}, found_input=False)
        elif unique and not real.endswith("| P " + tokens(t)):
            # the theorem's statement observed on the real code
            rep.fail("falsifier", f"{prop}|convert/parse|unique names|read-back differs",
                     f"parse_segment(convert_segment(t)) != t for the uniquely named tree `{tokens(t)}`: `{real.split(' | P ')[1][:300]}`",
                     {"kind": "ser", "tree": tokens(t), "code": real})
