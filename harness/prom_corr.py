"""B1 for C12 (type promotion): random arithmetic expressions over the operand kinds Cheetah mixes — dimensioned tensors,
zero-dimensional tensors, Python numbers; bool / int64 / float32 / float64 — are evaluated by torch under both default
dtypes and compared with the Lean model `CheetahModel/Promote.lean` (driver op `prom`): kind and dtype of the result."""
from __future__ import annotations

import torch

from common import LeanDriver

DTS = {"bool": torch.bool, "i64": torch.int64, "f32": torch.float32, "f64": torch.float64}
NAME = {v: k for k, v in DTS.items()}


def gen_tree(rng, depth):
    if depth == 0 or rng.random() < 0.3:
        k = str(rng.choice(["d", "d", "z", "z", "p"]))
        d = str(rng.choice(["f64", "f32", "f64", "f32", "i64", "bool"] if k != "p" else ["f64", "f64", "i64", "bool"]))
        return (k, d)
    return ("N", gen_tree(rng, depth - 1), gen_tree(rng, depth - 1))


def tokens(t):
    if t[0] == "N":
        return ["N"] + tokens(t[1]) + tokens(t[2])
    return [f"{t[0]}:{t[1]}"]


def build(t, op):
    if t[0] == "N":
        return op(build(t[1], op), build(t[2], op))
    k, d = t
    if k == "p":
        return {"f64": 1.5, "i64": 2, "bool": True}[d]
    if k == "z":
        return torch.ones((), dtype=DTS[d])
    return torch.ones((2, 3), dtype=DTS[d])


def describe(x) -> str:
    if isinstance(x, torch.Tensor):
        return f"{'d' if x.dim() > 0 else 'z'}:{NAME.get(x.dtype, str(x.dtype))}"
    return "p:" + ("bool" if isinstance(x, bool) else "i64" if isinstance(x, int) else "f64")


def run_prom_correspondence(ctx, prop: str, n: int) -> None:
    rep, rng = ctx.report, ctx.rng
    drv = LeanDriver()
    pend = []
    saved = torch.get_default_dtype()
    try:
        for c in range(n):
            t = gen_tree(rng, int(rng.integers(1, 5)))
            default = "f32" if c % 2 == 0 else "f64"
            torch.set_default_dtype(DTS[default])
            op = (lambda a, b: a + b) if rng.random() < 0.5 else (lambda a, b: a * b)
            try:
                real = describe(build(t, op))
            except Exception as ex:
                rep.count(f"prom-rejected:{type(ex).__name__}")
                continue
            pend.append((t, default, real, drv.raw("prom " + default + " " + " ".join(tokens(t)))))
    finally:
        torch.set_default_dtype(saved)
    replies = drv.run()
    for t, default, real, idx in pend:
        rep.corr_cases += 1
        rep.count(f"prom:{default}:{real}")
        m = replies[idx]
        if m != "T " + real:
            ctx.escalate = True
            rep.fail("correspondence", f"{prop}|model-mismatch|type promotion",
                     f"torch gives {real} for `{' '.join(tokens(t))}` under default dtype {default}, the promotion model {m!r}",
                     {"kind": "prom", "tree": tokens(t), "default": default,
                      "broken": "correspondence torch type promotion <-> CheetahModel.Promote"}, found_input=False)
