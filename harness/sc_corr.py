"""B1 for C19: the Cloud-In-Cell deposit of the real `SpaceChargeKick._deposit_charge_on_grid` vs the Lean model
`cicDeposit` (driver op cic) on small grids."""
from __future__ import annotations

import numpy as np
import torch

import cheetah
import lattices as LT
from common import LeanDriver, vec_close

F64 = torch.float64


def run_sc_correspondence(ctx, prop: str, n: int) -> None:
    rep, rng = ctx.report, ctx.rng
    drv = LeanDriver()
    pend = []
    for _ in range(n):
        g = (int(rng.integers(3, 6)), int(rng.integers(3, 6)), int(rng.integers(3, 6)))
        npart = int(rng.integers(2, 9))
        sck = cheetah.SpaceChargeKick(effect_length=torch.tensor(1.0, dtype=F64), num_grid_points_x=g[0],
                                      num_grid_points_y=g[1], num_grid_points_tau=g[2], dtype=F64)
        cell = torch.tensor(rng.uniform(1e-4, 1e-3, 3), dtype=F64).unsqueeze(0)
        dims = cell * (torch.tensor(g, dtype=F64) - 1) / 2            # grid spans [-dims, dims]
        pos = (rng.uniform(-1.0, 1.0, (npart, 3)) * dims.numpy()[0]) * rng.choice([0.9, 1.3])   # some outside
        xp = torch.zeros(1, npart, 7, dtype=F64)
        xp[0, :, 0], xp[0, :, 2], xp[0, :, 4] = torch.tensor(pos[:, 0]), torch.tensor(pos[:, 1]), torch.tensor(pos[:, 2])
        q = rng.uniform(0.1, 1.0, npart) * 1e-12
        sv = np.where(rng.random(npart) < 0.8, 1.0, 0.0)
        beam = cheetah.ParticleBeam(torch.zeros(1, npart, 7, dtype=F64) + xp * 0 + 1.0, torch.tensor([1e8], dtype=F64),
                                    particle_charges=torch.tensor(q, dtype=F64).unsqueeze(0),
                                    survival_probabilities=torch.tensor(sv, dtype=F64).unsqueeze(0), dtype=F64)
        try:
            rho = sck._deposit_charge_on_grid(beam, xp, cell, dims)
        except Exception as ex:
            rep.count(f"sc-rejected:{type(ex).__name__}")
            continue
        inv = 1.0 / cell.numpy()[0]
        u = (pos + dims.numpy()[0]) * inv
        inside = np.all((u >= 0), axis=1)
        if not inside.all():
            # the model's floor is defined for non-negative normalised positions (the real code masks the rest)
            keep = inside
            if keep.sum() == 0:
                continue
            u, q2, sv2 = u[keep], q[keep], sv[keep]
            xp2 = xp[:, keep]
            beam2 = cheetah.ParticleBeam(torch.ones(1, int(keep.sum()), 7, dtype=F64), torch.tensor([1e8], dtype=F64),
                                         particle_charges=torch.tensor(q2, dtype=F64).unsqueeze(0),
                                         survival_probabilities=torch.tensor(sv2, dtype=F64).unsqueeze(0), dtype=F64)
            if keep.sum() == 0:
                continue
            rho = sck._deposit_charge_on_grid(beam2, xp2, cell, dims)
        else:
            q2, sv2 = q, sv
        args = [float(g[0]), float(g[1]), float(g[2]), float(np.prod(inv)), float(len(u))]
        for k in range(len(u)):
            args += [float(u[k, 0]), float(u[k, 1]), float(u[k, 2]), float(q2[k] * sv2[k])]
        pend.append((drv.call("cic", *args), rho.reshape(-1).tolist(), {"grid": g, "n": int(len(u))}))
    replies = drv.run()
    for idx, real, desc in pend:
        rep.corr_cases += 1
        rep.count("cic")
        rep.case(("cic", desc["grid"], desc["n"]), {"op": "cic", **desc} if rep.corr_cases % 20 == 1 else None)
        model = replies[idx]
        if isinstance(model, str):
            rep.fail("correspondence", f"{prop}|driver|cic", f"Lean driver error {model}", desc, found_input=False)
            continue
        ok, w, i = vec_close(real, model, ulps=4096.0)
        rep.ulp(w)
        if not ok:
            ctx.escalate = True
            rep.fail("correspondence", f"{prop}|model-mismatch|SpaceChargeKick._deposit_charge_on_grid",
                     f"CIC deposit differs from the Lean model at flat cell {i}: code {real[i] if i >= 0 else None!r} "
                     f"model {model[i] if i >= 0 else None!r}",
                     {"kind": "cic", **desc, "broken": "correspondence _deposit_charge_on_grid <-> cicDeposit"},
                     found_input=False)
