"""B1 correspondence of the Bmad-X tracking (`tracking_method="bmadx"` of Drift, Quadrupole, Dipole, and the
TransverseDeflectingCavity) and of the coordinate conversions in `cheetah/utils/bmadx.py` with the Lean model
`CheetahModel.Bmadx` at Float — single particles through the real code vs the driver. Used by C03, C07, C09, C18."""
from __future__ import annotations

import numpy as np
import torch

import cheetah
from cheetah.utils import bmadx
import elements as E
import lattices as LT
from common import LeanDriver, vec_close

F64 = torch.float64


def one_particle(rng, big: bool = False):
    s = LT.REF_SIG[:6] * (3.0 if big else 1.0)
    v = rng.normal(size=6) * s
    if big:
        v[5] = rng.uniform(-0.03, 0.03)
    return np.concatenate([v, [1.0]])


def real_track(el, v, En):
    b = cheetah.ParticleBeam(torch.tensor(v, dtype=F64).reshape(1, 7), torch.tensor(En, dtype=F64), dtype=F64)
    o = el.track(b)
    return o.particles.reshape(-1).tolist() + [float(o.energy)]


def gen_bend(rng):
    p = E.gen_params(rng, "Dipole", force={"method": "bmadx"})
    if p["L"] == 0.0:
        p["L"] = 0.7
    if p["angle"] == 0.0:
        p["angle"] = float(rng.choice([-1, 1]) * rng.uniform(0.01, 0.5))   # angle == 0: NaN, a C07/C09 finding
    p["k1"] = 0.0
    p["gapx"] = p["gap"] if rng.random() < 0.6 else float(E.pick(rng, 0.01, 0.03))
    p["fringe_at"] = str(E.pick(rng, "both", "neither", "entrance", "exit"))
    return p


def build_bend(p):
    tt = lambda x: torch.tensor(x, dtype=F64)  # noqa: E731
    return cheetah.Dipole(length=tt(p["L"]), angle=tt(p["angle"]), dipole_e1=tt(p["e1"]), dipole_e2=tt(p["e2"]),
                          tilt=tt(p["tilt"]), gap=tt(p["gap"]), gap_exit=tt(p["gapx"]), fringe_integral=tt(p["fint"]),
                          fringe_integral_exit=tt(p["fintx"]), fringe_at=p["fringe_at"], tracking_method="bmadx",
                          dtype=F64)


def run_bmadx_correspondence(ctx, prop: str, n: int, ulps: float = 16384.0, weak: bool = False) -> list:
    """weak=True: strengths (k1, bend angle, TDC voltage) scaled down by 10^-U(1,6): small-argument shortcuts and
    cancellation-prone formulas live there"""
    rep, rng = ctx.report, ctx.rng

    def wk(p, *keys):
        if weak:
            for k in keys:
                p[k] = float(p[k]) * 10.0 ** float(-rng.uniform(1.0, 6.0))
        return p
    drv = LeanDriver()
    pend = []
    for _ in range(n):
        En = E.energy(rng)
        big = rng.random() < 0.5
        # drift
        p = E.gen_params(rng, "Drift", force={"method": "bmadx"})
        v = one_particle(rng, big)
        pend.append(("Drift(bmadx)", p, En, v, drv.call("bdrift", p["L"], En, E.MC2, *v), real_track(E.build(p), v, En)))
        # quadrupole (L > 0: L == 0 gives NaN, a C09 finding)
        p = E.gen_params(rng, "Quadrupole", force={"method": "bmadx"})
        p["num_steps"] = int(E.pick(rng, 1, 2, 5))
        if p["L"] == 0.0:
            p["L"] = 0.3
        wk(p, "k1")
        v = one_particle(rng, big)
        pend.append(("Quadrupole(bmadx)", p, En, v,
                     drv.call("bquad", p["L"], p["k1"], p["mx"], p["my"], p["tilt"], float(p["num_steps"]), En, E.MC2, *v),
                     real_track(E.build(p), v, En)))
        # dipole
        p = wk(gen_bend(rng), "angle")
        v = one_particle(rng, big)
        fa = p["fringe_at"]
        pend.append(("Dipole(bmadx)", p, En, v,
                     drv.call("bdipole", p["L"], p["angle"], p["e1"], p["e2"], p["tilt"], p["gap"], p["gapx"], p["fint"],
                              p["fintx"], 1.0 if fa in ("both", "entrance") else 0.0,
                              1.0 if fa in ("both", "exit") else 0.0, E.PI, En, E.MC2, *v),
                     real_track(build_bend(p), v, En)))
        # TDC
        p = wk(E.gen_params(rng, "TransverseDeflectingCavity"), "V")
        v = one_particle(rng, big)
        pend.append(("TransverseDeflectingCavity", p, En, v,
                     drv.call("btdc", p["L"], p["V"], p["phase"], p["freq"], p["mx"], p["my"], p["tilt"], E.MC2,
                              E.CLIGHT, E.PI, En, *v),
                     real_track(E.build(p), v, En)))
        # conversions: the rest energy is an argument of the functions — electron (what the elements pass), and for a
        # third of the cases a muon or a proton with a reference energy of 1.5 / 3 / 50 rest energies
        mc2, Ec = E.MC2, En
        if rng.random() < 0.34:
            mc2 = float(E.pick(rng, 105.6583755e6, 938.27208816e6))
            Ec = mc2 * float(E.pick(rng, 1.5, 3.0, 50.0))
        tau, delta = float(rng.normal() * 1e-4), float(rng.uniform(-0.03, 0.03))
        z, pz, p0c = bmadx.cheetah_to_bmad_z_pz(torch.tensor([tau], dtype=F64), torch.tensor([delta], dtype=F64),
                                                torch.tensor(Ec, dtype=F64), mc2)
        pend.append(("cheetah_to_bmad_z_pz", {"tau": tau, "delta": delta, "mc2": mc2}, Ec, None,
                     drv.call("tobmad", tau, delta, Ec, mc2), [float(z), float(pz), float(p0c)]))
        t2, d2, e2 = bmadx.bmad_to_cheetah_z_pz(z, pz, p0c, mc2)
        pend.append(("bmad_to_cheetah_z_pz", {"z": float(z), "pz": float(pz), "mc2": mc2}, Ec, None,
                     drv.call("tocheetah", float(z), float(pz), float(p0c), mc2), [float(t2), float(d2), float(e2)]))
    replies = drv.run()
    bad = []
    for name, p, En, v, idx, real in pend:
        rep.corr_cases += 1
        rep.count("bmadx:" + name)
        rep.case(("bmadx", name, E.config_key(p) if "cls" in p else name),
                 {"op": name, "params": p, "energy": En} if rep.corr_cases % 40 == 1 else None)
        model = replies[idx]
        if isinstance(model, str):
            rep.fail("correspondence", f"{prop}|driver|{name}", f"Lean driver error {model}", {"params": p},
                     found_input=False)
            continue
        if len(real) == 8:
            # positions / tau are differences of O(L) quantities: their round-off is relative to L
            Lp = abs(float(p.get("L", 0.0)))
            scales = list(LT.REF_SIG) + [En]
            scales[0] = max(scales[0], 1e-2 * Lp)
            scales[2] = max(scales[2], 1e-2 * Lp)
            scales[4] = max(scales[4], Lp)
            # bend body: px = px_norm * sin(angle + phi1 - theta_p) is a difference of O(angle) quantities
            ang = abs(float(p.get("angle", 0.0)))
            scales[1] = max(scales[1], 1e-2 * ang)
            scales[3] = max(scales[3], 1e-2 * ang)
            ok, what = True, ""
            for j in range(8):
                okj, w, _ = vec_close([real[j]], [model[j]], ulps=ulps, scale=float(scales[j]))
                rep.ulp(w)
                if not okj:
                    ok, what = False, f"component {j}: code {real[j]!r} model {model[j]!r}"
                    break
        else:
            ok, what = True, ""
            for j in range(3):
                okj, w, _ = vec_close([real[j]], [model[j]], ulps=ulps, scale=[1e-4, 1e-3, En][j])
                rep.ulp(w)
                if not okj:
                    ok, what = False, f"output {j}: code {real[j]!r} model {model[j]!r}"
                    break
        if not ok:
            ctx.escalate = True
            bad.append((name, p, En, v, what))
            rep.notes.append(f"bmadx correspondence mismatch {name}: {what}")
    return bad


def report_mismatches(rep, prop: str, bad: list) -> None:
    for name, p, En, v, what in bad:
        rep.fail("correspondence", f"{prop}|model-mismatch|{name}",
                 f"{name} tracking no longer matches the Lean model CheetahModel.Bmadx: {what}",
                 {"kind": "bmadx", "op": name, "params": p, "energy": En, "particle": None if v is None else list(v),
                  "broken": f"correspondence {name} <-> CheetahModel.Bmadx"}, found_input=False)


def run_c03(ctx) -> None:
    bad = run_bmadx_correspondence(ctx, "C03", ctx.n(25, 500))
    report_mismatches(ctx.report, "C03", bad)
    run_drift_jacobian_correspondence(ctx, "C03", ctx.n(60, 3000))


def run_drift_jacobian_correspondence(ctx, prop: str, n: int) -> None:
    """autograd Jacobian of the real `bmadx.track_a_drift` (outputs x, y, z; momenta pass through) at random transportable
    particles — paraxial and strongly off-axis, |pz| up to 0.5 — vs the closed-form Jacobian `driftJacList` of the Lean
    model (driver op `bdjac`), the matrix `C03.bmadx_drift_jacobian` proves to be the Jacobian and
    `C03.bmadx_drift_symplectic` proves symplectic."""
    import torch
    from cheetah.utils import bmadx
    from common import LeanDriver, vec_close
    rep, rng = ctx.report, ctx.rng
    drv = LeanDriver()
    pend = []
    for c in range(n):
        big = c % 3 == 0
        L = float(rng.choice([0.0, float(rng.uniform(0.01, 5.0)), -0.3]))
        En = E.energy(rng)
        mc2 = float(rng.choice([E.MC2, E.MC2, 105.6583755e6, 938.27208816e6]))
        if En <= mc2 * 1.01:
            En = mc2 * float(rng.uniform(1.05, 50.0))
        p0c = float(np.sqrt(En * En - mc2 * mc2))
        sc = 0.3 if big else 3e-3
        px, py = (float(x) for x in rng.normal(0, sc, 2))
        pz = float(rng.choice([0.0, float(rng.normal(0, 0.1 if big else 1e-3))]))
        if c % 7 == 0:
            px = py = 0.0
        if not (1 + pz > 0.05 and px * px + py * py < 0.8 * (1 + pz) ** 2):
            rep.count("bdjac-skipped:not-transportable")
            continue
        x0 = [float(v) for v in rng.normal(0, 1e-3, 3)]
        v = torch.tensor([x0[0], px, x0[1], py, x0[2], pz], dtype=torch.float64)

        def f(w):
            xo, yo, zo = bmadx.track_a_drift(torch.tensor(L, dtype=torch.float64), w[0:1], w[1:2], w[2:3], w[3:4], w[4:5], w[5:6],
                                            torch.tensor(p0c, dtype=torch.float64), torch.tensor(mc2, dtype=torch.float64))
            return torch.cat([xo.reshape(1), w[1:2], yo.reshape(1), w[3:4], zo.reshape(1), w[5:6]])
        try:
            J = torch.autograd.functional.jacobian(f, v).reshape(36).tolist()
        except Exception as ex:
            rep.count(f"bdjac-rejected:{type(ex).__name__}")
            continue
        idx = drv.call("bdjac", L, p0c, mc2, px, py, pz)
        pend.append((dict(L=L, p0c=p0c, mc2=mc2, px=px, py=py, pz=pz), J, idx, "big" if big else "paraxial"))
    replies = drv.run()
    for prm, J, idx, cls in pend:
        rep.corr_cases += 1
        rep.count(f"bdjac:{cls}")
        rep.case(("bdjac", cls, "L=0" if prm["L"] == 0 else "L!=0"), prm if rep.corr_cases % 20 == 1 else None)
        model = replies[idx]
        if isinstance(model, str):
            rep.fail("correspondence", f"{prop}|driver|bdjac", f"Lean driver error {model}", prm, found_input=False)
            continue
        ok, w, i = vec_close(J, model, ulps=1e5, scale=max(1.0, abs(prm["L"])))
        rep.ulp(w)
        if not ok:
            ctx.escalate = True
            a, b = divmod(max(i, 0), 6)
            rep.fail("correspondence", f"{prop}|model-mismatch|track_a_drift jacobian",
                     f"autograd Jacobian entry [{a},{b}] of bmadx.track_a_drift = {J[i]!r} differs from the closed-form Jacobian of the Lean model {model[i]!r}",
                     {"kind": "bdjac", "params": prm, "entry": [a, b],
                      "broken": "correspondence autograd(track_a_drift) <-> CheetahModel.BmadxJac.driftJacList (C03.bmadx_drift_jacobian)"},
                     found_input=False)
