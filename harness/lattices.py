"""Random lattices of real Cheetah elements (lists of parameter records), beams, beam comparison, shrinking."""
from __future__ import annotations

import math
from typing import Callable, Optional

import numpy as np
import torch

import cheetah
import elements as E

F64 = torch.float64

KINDS_LINEAR = ["Drift", "Quadrupole", "Dipole", "RBend", "Solenoid", "HorizontalCorrector", "VerticalCorrector",
                "Undulator", "Marker"]


def gen_record(rng, kind: str) -> dict:
    """kind: a class name, or one of the configured variants below"""
    if kind == "BmadxDrift":
        return E.gen_params(rng, "Drift", force={"method": "bmadx"})
    if kind == "BmadxQuadrupole":
        p = E.gen_params(rng, "Quadrupole", force={"method": "bmadx"})
        p["num_steps"] = int(E.pick(rng, 1, 2, 5))
        return p
    if kind == "ActiveCavity":
        p = E.gen_params(rng, "Cavity")
        p["V"] = float(E.pick(rng, 1e5, 2e6, 1e7))
        p["phase"] = float(E.pick(rng, 0.0, 10.0, -20.0, 30.0))
        p["freq"] = 1.3e9
        return p
    if kind == "OffCavity":
        return E.gen_params(rng, "Cavity", force={"V": 0.0})
    if kind == "ActiveAperture":
        return E.gen_params(rng, "Aperture", force={"active": True})
    if kind == "ClosedAperture":      # stops the whole bunch
        return E.gen_params(rng, "Aperture", force={"active": True, "xmax": 1e-9, "ymax": 1e-9})
    if kind == "BlockingScreen":
        return E.gen_params(rng, "Screen", force={"active": True, "blocking": True})
    if kind == "ActiveBPM":
        return E.gen_params(rng, "BPM", force={"active": True})
    if kind == "ActiveScreen":
        return E.gen_params(rng, "Screen", force={"active": True})
    return E.gen_params(rng, kind)


DEFAULT_MIX = (["Drift"] * 4 + ["Quadrupole"] * 4 + ["Dipole", "RBend", "Solenoid", "HorizontalCorrector",
               "VerticalCorrector", "Undulator", "Marker", "Marker", "BmadxDrift", "BmadxQuadrupole", "ActiveCavity",
               "ActiveCavity", "OffCavity", "ActiveAperture", "ActiveBPM", "ActiveScreen", "BPM", "Screen", "Aperture",
               "CustomTransferMap", "ClosedAperture", "BlockingScreen"])


def gen_lattice(rng, n_max: int = 8, mix=None, n_min: int = 1, dup_names: float = 0.0) -> list[dict]:
    """dup_names: probability that an element gets the name of an earlier one (Segment supports several elements of one
    name; anything keyed on names must still tell them apart)"""
    mix = mix or DEFAULT_MIX
    n = int(rng.integers(n_min, n_max + 1))
    recs = []
    for i in range(n):
        r = gen_record(rng, mix[int(rng.integers(len(mix)))])
        tame(r)
        r["name"] = f"el{i}"
        if dup_names and recs and rng.random() < dup_names:
            same = [q for q in recs if q["cls"] == r["cls"]] or recs
            r["name"] = same[int(rng.integers(len(same)))]["name"]
        recs.append(r)
    return recs


def tame(r: dict) -> dict:
    """keep lattices in the regime the maps are meant for: a focusing phase advance sqrt(|k1|)*L of at most 1.5 per
    element (a k1 = 15 /m^2 quadrupole of 2.5 m blows a beam up by cosh(9.7) ~ 1e4 into metres and non-finite Bmad-X
    coordinates, where comparisons are meaningless); CustomTransferMaps wrap a quadrupole record"""
    for q in (r, r.get("inner") or {}):
        if "k1" in q and isinstance(q.get("L"), float) and q["L"] > 0 and abs(q["k1"]) * q["L"] ** 2 > 2.25:
            q["k1"] = math.copysign(2.25 / q["L"] ** 2, q["k1"])
    return r


def nest(rng, recs: list[dict], p: float = 0.3, depth: int = 0) -> list[dict]:
    """wrap random consecutive runs into Segment records"""
    out, i, k = [], 0, 0
    while i < len(recs):
        if depth < 2 and rng.random() < p and len(recs) - i >= 1:
            ln = int(rng.integers(1, min(4, len(recs) - i) + 1))
            out.append({"cls": "Segment", "name": f"sub{depth}_{i}", "elements": nest(rng, recs[i:i + ln], p, depth + 1)})
            i += ln
        else:
            out.append(recs[i])
            i += 1
    return out


def build_elements(recs: list[dict], dtype=F64) -> list:
    return [E.build(r, dtype=dtype, name=r.get("name")) for r in recs]


def build_segment(recs: list[dict], dtype=F64, name: str = "root"):
    return cheetah.Segment(build_elements(recs, dtype), name=name)


def leaves(recs: list[dict]) -> list[dict]:
    out = []
    for r in recs:
        if r["cls"] == "Segment":
            out += leaves(r["elements"])
        else:
            out.append(r)
    return out


def class_seq(recs: list[dict]) -> str:
    def nm(r):
        c = r["cls"]
        if c == "Segment":
            return "[" + ",".join(nm(x) for x in r["elements"]) + "]"
        if c == "Cavity":
            return "Cavity(V=0)" if r["V"] == 0 else "Cavity(on)"
        if r.get("method", "cheetah") == "bmadx":
            return c + "(bmadx)"
        if c in ("Aperture", "BPM", "Screen"):
            return c + ("(active)" if r.get("active") else "(inactive)")
        return c
    return ",".join(nm(r) for r in recs)


# ------------------------------------------------------------------------------------------------
# beams
# ------------------------------------------------------------------------------------------------
def gen_particles(rng, n: int = 24, energy: Optional[float] = None, offaxis: bool = True):
    """correlated, off-axis, chirped particle set (float64), as numpy array (n,7)"""
    sig = np.array([2e-4, 2e-5, 2e-4, 2e-5, 1e-4, 1e-3])
    mix = np.eye(6) + 0.3 * rng.normal(size=(6, 6))
    z = rng.normal(size=(n, 6))
    P = (z @ mix.T) * sig          # correlations are introduced in normalised space, then scaled
    if offaxis:
        P += rng.normal(size=6) * 0.5 * sig
    out = np.ones((n, 7))
    out[:, :6] = P
    return out


def particle_beam(P: np.ndarray, energy: float, charges=None, survival=None, dtype=F64):
    n = P.shape[0]
    q = torch.tensor(charges if charges is not None else np.full(n, 1e-12 / n), dtype=dtype)
    kw = {}
    if survival is not None:
        kw["survival_probabilities"] = torch.tensor(survival, dtype=dtype)
    return cheetah.ParticleBeam(torch.tensor(P, dtype=dtype), torch.tensor(energy, dtype=dtype), particle_charges=q,
                                dtype=dtype, **kw)


def parameter_beam_from(P: np.ndarray, energy: float, dtype=F64):
    mu = P.mean(axis=0)
    cov = np.cov(P[:, :6].T)
    C = np.zeros((7, 7))
    C[:6, :6] = cov
    return cheetah.ParameterBeam(torch.tensor(mu, dtype=dtype), torch.tensor(C, dtype=dtype),
                                 torch.tensor(energy, dtype=dtype), total_charge=torch.tensor(1e-12, dtype=dtype),
                                 dtype=dtype)


def beam_vec(b) -> dict:
    if isinstance(b, cheetah.ParticleBeam):
        return {"particles": b.particles.detach().reshape(-1).tolist(), "energy": [float(b.energy)],
                "charges": b.particle_charges.detach().reshape(-1).tolist(),
                "survival": b.survival_probabilities.detach().reshape(-1).tolist()}
    return {"mu": b._mu.detach().reshape(-1).tolist(), "cov": b._cov.detach().reshape(-1).tolist(),
            "energy": [float(b.energy)], "charge": [float(b.total_charge)]}


REF_SIG = np.array([2e-4, 2e-5, 2e-4, 2e-5, 1e-4, 1e-3, 1.0])


def beams_differ(a, b, rtol: float = 1e-9, sig: Optional[np.ndarray] = None) -> Optional[str]:
    """None if equal within rtol*scale per field; otherwise a description of the first difference.
    `sig`: reference size of each of the 7 coordinates (default: the generator's beam sizes); the scale of a
    coordinate is max(reference size, largest observed value)."""
    sig = REF_SIG if sig is None else np.asarray(sig, dtype=float)
    if type(a) is not type(b):
        return f"type {type(a).__name__} vs {type(b).__name__}"
    va, vb = beam_vec(a), beam_vec(b)
    for key in va:
        x, y = np.array(va[key], dtype=float), np.array(vb[key], dtype=float)
        if x.shape != y.shape:
            return f"{key}: shape {x.shape} vs {y.shape}"
        nf = ~np.isfinite(x) | ~np.isfinite(y)
        if nf.any():
            if not np.array_equal(np.isnan(x), np.isnan(y)) or not np.array_equal(x[np.isinf(x)], y[np.isinf(x)]):
                return f"{key}: non-finite mismatch"
        fin = ~nf
        if fin.any():
            if key in ("particles", "mu"):
                # per-coordinate scale (for the mean: at least the rms size of that coordinate)
                xs, ys = x.reshape(-1, 7), y.reshape(-1, 7)
                scale = np.maximum(np.max(np.abs(xs), axis=0, initial=0.0), sig)
                d = np.abs(xs - ys) / scale
                d[~np.isfinite(d)] = 0
                if d.max() > rtol:
                    i = np.unravel_index(np.argmax(d), d.shape)
                    return f"{key}[{i[0]},{i[1]}]: {xs[i]!r} vs {ys[i]!r}"
            elif key == "cov":
                X, Y = x.reshape(7, 7), y.reshape(7, 7)
                sg = np.sqrt(np.maximum(np.abs(np.diag(X)), np.abs(np.diag(Y))))
                sg = np.maximum(sg, sig)
                d = np.abs(X - Y) / np.outer(sg, sg)
                d[~np.isfinite(d)] = 0
                if d.max() > rtol:
                    i = np.unravel_index(np.argmax(d), d.shape)
                    return f"cov[{i[0]},{i[1]}]: {X[i]!r} vs {Y[i]!r}"
            else:
                scale = max(float(np.max(np.abs(x[fin]))), float(np.max(np.abs(y[fin]))), 1e-300)
                d = np.abs(x - y)
                d[~fin] = 0
                if d.max() > rtol * scale:
                    i = int(np.argmax(d))
                    return f"{key}[{i}]: {x[i]!r} vs {y[i]!r}"
    return None


def shrink(items: list, fails: Callable[[list], bool], max_rounds: int = 4) -> list:
    """greedy: drop items while the failure persists"""
    cur = list(items)
    for _ in range(max_rounds):
        changed = False
        i = 0
        while i < len(cur) and len(cur) > 1:
            cand = cur[:i] + cur[i + 1:]
            try:
                bad = fails(cand)
            except Exception:
                bad = False
            if bad:
                cur = cand
                changed = True
            else:
                i += 1
        if not changed:
            break
    return cur


def tree_edits(recs: list):
    """candidate simplifications of a nested lattice: drop an item, unnest a sub-segment, edit inside a sub-segment"""
    for i, r in enumerate(recs):
        if len(recs) > 1:
            yield recs[:i] + recs[i + 1:]
        if r["cls"] == "Segment":
            yield recs[:i] + list(r["elements"]) + recs[i + 1:]
            for sub in tree_edits(r["elements"]):
                if sub:
                    yield recs[:i] + [dict(r, elements=sub)] + recs[i + 1:]


def shrink_tree(recs: list, fails: Callable[[list], bool], max_steps: int = 200) -> list:
    cur = list(recs)
    steps = 0
    progress = True
    while progress and steps < max_steps:
        progress = False
        for cand in tree_edits(cur):
            steps += 1
            try:
                bad = bool(cand) and fails(cand)
            except Exception:
                bad = False
            if bad:
                cur = cand
                progress = True
                break
            if steps >= max_steps:
                break
    return cur
