"""B1 for C05 (reverse mode): random first-order programs over the scalar operations of Cheetah's tracking code — incl. the
guard idioms `torch.where(k == 0, L, sin(sqrt(k) L) / sqrt(k))` evaluated *at* the guard — are built as torch graphs,
differentiated by `torch.autograd.grad` (PyTorch's reverse-mode engine) and compared with the Lean model of a backward
pass (`Ex.back` at Float, driver op `rev`).  Non-finite gradients must agree in kind: the NaN that autograd produces from
`0 * inf` in the unselected arm of a `where` is reproduced by the model.  `Ex.back_eq` / `Ex.grad_hasDerivAt` are the
theorems about that model."""
from __future__ import annotations

import math

import numpy as np
import torch

from common import LeanDriver, f2b, vec_close

F64 = torch.float64
UN = ["neg", "sin", "cos", "sinh", "cosh", "sqrt", "exp", "log", "atan"]
BIN = ["add", "sub", "mul", "div"]
TORCH_UN = {"neg": torch.neg, "sin": torch.sin, "cos": torch.cos, "sinh": torch.sinh, "cosh": torch.cosh,
            "sqrt": torch.sqrt, "exp": torch.exp, "log": torch.log, "atan": torch.atan}


def gen_tree(rng, depth: int, nvars: int):
    """nested tuples: ('v', i) | ('c', x) | (op, a) | (op, a, b) | ('wlt'|'weq', p, q, x, y)"""
    r = rng.random()
    if depth == 0 or r < 0.18:
        if rng.random() < 0.7:
            return ("v", int(rng.integers(nvars)))
        return ("c", float(rng.choice([0.0, 1.0, 2.0, 0.5, -1.0, float(np.round(rng.normal(), 3))])))
    if r < 0.50:
        return (str(rng.choice(UN)), gen_tree(rng, depth - 1, nvars))
    if r < 0.88:
        return (str(rng.choice(BIN)), gen_tree(rng, depth - 1, nvars), gen_tree(rng, depth - 1, nvars))
    return (str(rng.choice(["wlt", "weq"])), gen_tree(rng, depth - 1, nvars), gen_tree(rng, depth - 1, nvars),
            gen_tree(rng, depth - 1, nvars), gen_tree(rng, depth - 1, nvars))


def guard_idioms(rng):
    """(tree, values) of the guard patterns of the tracking code, at and next to the guard"""
    k = float(rng.choice([0.0, 0.0, 1e-12, -0.7, 2.3, float(abs(rng.normal()))]))
    L = float(rng.uniform(0.1, 2.0))
    v0, v1 = ("v", 0), ("v", 1)
    sq = ("sqrt", v0)
    sinc = ("div", ("sin", ("mul", sq, v1)), sq)
    zero = ("c", 0.0)
    pick = int(rng.integers(6))
    if pick == 0:      # solenoid / drift limit: where(k == 0, L, sin(sqrt(k) L)/sqrt(k))
        t = ("weq", v0, zero, v1, sinc)
    elif pick == 1:    # focusing / defocusing: where(0 < k, cos(sqrt(k) L), cosh(sqrt(-k) L))
        t = ("wlt", zero, v0, ("cos", ("mul", sq, v1)), ("cosh", ("mul", ("sqrt", ("neg", v0)), v1)))
    elif pick == 2:    # regularised strength: where(k == 0, 1e-12, k) used downstream
        kk = ("weq", v0, zero, ("c", 1e-12), v0)
        t = ("div", ("sin", ("mul", ("sqrt", kk), v1)), ("sqrt", kk))
    elif pick == 3:    # curvature: where(L == 0, 0, angle / L)
        t = ("weq", v1, zero, zero, ("div", v0, v1))
        L = float(rng.choice([0.0, L]))
    elif pick == 4:    # T566-like: where(dE == 0, c, f(log(1 + dE/E)) / dE)
        t = ("weq", v0, zero, v1, ("div", ("log", ("add", ("c", 1.0), ("div", v0, v1))), v0))
    else:              # safe-denominator idiom: x / where(x == 0, 1, x)
        t = ("div", ("sin", v0), ("weq", v0, zero, ("c", 1.0), v0))
    return t, [k, L]


def tokens(t) -> list[str]:
    if t[0] == "v":
        return [f"v{t[1]}"]
    if t[0] == "c":
        return [f"c{f2b(t[1])}"]
    out = [t[0]]
    for s in t[1:]:
        out += tokens(s)
    return out


def build(t, leaves, flags):
    """torch graph of the tree; flags['cancel'] is set when an addition / subtraction cancels almost completely"""
    if t[0] == "v":
        return leaves[t[1]]
    if t[0] == "c":
        return torch.tensor(t[1], dtype=F64)
    if t[0] in TORCH_UN:
        return TORCH_UN[t[0]](build(t[1], leaves, flags))
    if t[0] in ("wlt", "weq"):
        p, q, x, y = (build(s, leaves, flags) for s in t[1:])
        d = abs(float(p) - float(q))
        if 0 < d <= 1e-9 * max(abs(float(p)), abs(float(q))):
            flags["cancel"] = True      # condition decided by rounding
        return torch.where(p < q if t[0] == "wlt" else p == q, x, y)
    a, b = build(t[1], leaves, flags), build(t[2], leaves, flags)
    if t[0] in ("add", "sub"):
        r = a + b if t[0] == "add" else a - b
        fa, fb, fr = abs(float(a)), abs(float(b)), abs(float(r))
        if math.isfinite(fa) and math.isfinite(fb) and fr != 0.0 and fr < 1e-3 * max(fa, fb):
            flags["cancel"] = True
        return r
    if t[0] == "mul":
        return a * b
    return a / b


def run_rev_correspondence(ctx, prop: str, n: int) -> None:
    rep, rng = ctx.report, ctx.rng
    drv = LeanDriver()
    pend = []
    for c in range(n):
        if c % 3 == 0:
            tree, vals = guard_idioms(rng)
            cls = "idiom"
        else:
            nv = int(rng.integers(1, 4))
            tree = gen_tree(rng, int(rng.integers(2, 5)), nv)
            vals = [float(rng.choice([0.0, 1.0, float(np.round(rng.uniform(-2, 2), 3)), float(rng.uniform(0.05, 1.5))]))
                    for _ in range(nv)]
            cls = "random"
        leaves = [torch.tensor(v, dtype=F64, requires_grad=True) for v in vals]
        flags = {}
        out = build(tree, leaves, flags)
        if flags.get("cancel"):
            rep.count("rev-skipped:ill-conditioned")
            continue
        if out.requires_grad:
            gs = torch.autograd.grad(out, leaves, allow_unused=True)
            real = [float(out)] + [0.0 if g is None else float(g) for g in gs]
        else:
            real = [float(out)] + [0.0] * len(vals)
        idx = drv.raw("rev " + str(len(vals)) + " " + " ".join(str(f2b(v)) for v in vals) + " " + " ".join(tokens(tree)))
        pend.append((cls, tree, vals, real, idx))
    replies = drv.run()
    for cls, tree, vals, real, idx in pend:
        rep.corr_cases += 1
        nonfin = "nonfinite" if any(not math.isfinite(x) for x in real[1:]) else "finite"
        rep.count(f"rev:{cls}:{nonfin}")
        rep.case(("rev", cls, nonfin), {"program": " ".join(tokens(tree)), "values": vals} if rep.corr_cases % 40 == 1 else None)
        model = replies[idx]
        if isinstance(model, str):
            rep.fail("correspondence", f"{prop}|driver|rev", f"Lean driver error {model}", {"program": tokens(tree)}, found_input=False)
            continue
        fin = [abs(x) for x in real if math.isfinite(x)]
        ok, w, i = vec_close(real, model, ulps=1e6, scale=max([1.0] + fin))
        rep.ulp(w)
        if not ok:
            ctx.escalate = True
            what = "value" if i == 0 else f"d/dv{i - 1}"
            rep.fail("correspondence", f"{prop}|model-mismatch|reverse-mode|{cls}",
                     f"torch.autograd {what} = {real[i]!r} differs from the reverse-mode model {model[i]!r} for `{' '.join(tokens(tree))}` at {vals}",
                     {"kind": "rev", "program": tokens(tree), "values": vals,
                      "broken": "correspondence torch.autograd <-> CheetahModel.Reverse (Ex.back)"}, found_input=False)
