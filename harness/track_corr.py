"""B1 correspondence of `Element.track` (both beam types, default tracking method) with the Lean model
`Elem.trackP` / `Elem.trackM` at Float (driver ops etrackP / etrackM). Used by C06, C10, C01."""
from __future__ import annotations

import numpy as np
import torch

import cheetah
import elements as E
import lattices as LT
from common import LeanDriver, vec_close

KIND = {"Drift": 0, "Quadrupole": 1, "Dipole": 2, "Solenoid": 3, "HorizontalCorrector": 4, "VerticalCorrector": 5,
        "Undulator": 6, "Cavity": 7, "Marker": 8, "Aperture": 9, "BPM": 10, "Screen": 11, "RBend": 12}


def encode(p: dict) -> list[float]:
    c = p["cls"]
    k = KIND[c]
    if c == "Drift" or c == "Undulator":
        ps = [p["L"]]
    elif c == "Quadrupole":
        ps = [p["L"], p["k1"], p["mx"], p["my"], p["tilt"]]
    elif c in ("Dipole", "RBend"):
        ps = [p["L"], p["angle"], p["k1"], p["e1"], p["e2"], p["tilt"], p["gap"], p["fint"], p["fintx"]]
    elif c == "Solenoid":
        ps = [p["L"], p["k"], p["mx"], p["my"]]
    elif c in ("HorizontalCorrector", "VerticalCorrector"):
        ps = [p["L"], p["angle"]]
    elif c == "Cavity":
        ps = [p["L"], p["V"], p["phase"], p["freq"]]
    elif c == "Marker":
        ps = []
    elif c == "Aperture":
        ps = [p["xmax"], p["ymax"], 1.0 if p["shape"] == "elliptical" else 0.0, 1.0 if p["active"] else 0.0]
    elif c == "BPM":
        ps = [1.0 if p.get("active") else 0.0]
    elif c == "Screen":
        ps = [1.0 if p.get("active") else 0.0, 1.0 if p.get("blocking") else 0.0]
    else:
        raise ValueError(c)
    ps = ps + [0.0] * (9 - len(ps))
    return [float(k)] + [float(x) for x in ps] + [E.MC2, E.CLIGHT, E.PI]


TRACK_KINDS = ["Drift", "Quadrupole", "Dipole", "RBend", "Solenoid", "HorizontalCorrector", "VerticalCorrector",
               "Undulator", "Cavity", "Cavity", "Marker", "Aperture", "Aperture", "BPM", "Screen"]


def gen_track_record(rng, cls):
    p = E.gen_params(rng, cls)
    p.pop("method", None)
    if cls == "Cavity":
        # accelerating, decelerating, off; stay away from cos(phase) ~ 0 (alpha ~ 1/cos is ill-conditioned there)
        p["phase"] = float(E.pick(rng, 0.0, 10.0, -25.0, 45.0, 170.0, -60.0, float(rng.uniform(-70, 70))))
    if cls == "Screen":
        p["blocking"] = bool(rng.random() < 0.5)
    return p


def run_track_correspondence(ctx, prop: str, n_per_kind: int, kinds=None, ulps: float = 4096.0) -> list:
    """returns mismatches [(record, energy, beamtype, what)]"""
    rep, rng = ctx.report, ctx.rng
    drv = LeanDriver()
    pend = []
    for cls in (kinds or TRACK_KINDS):
        for _ in range(n_per_kind):
            p = gen_track_record(rng, cls)
            En = E.energy(rng)
            if cls == "Cavity":
                En = max(En, 2e7) if p["V"] < 0 else En     # keep E + dE well above rest energy
                if En + p["V"] * np.cos(np.radians(p["phase"])) < 5e6:
                    continue
            P = LT.gen_particles(rng, 6)
            sv = np.where(rng.random(6) < 0.8, 1.0, 0.0) if rng.random() < 0.5 else np.ones(6)
            try:
                el = E.build(p)
                pb = LT.particle_beam(P, En, survival=sv)
                mb = LT.parameter_beam_from(P, En)
                op = el.track(pb)
                om = el.track(mb)
            except Exception as ex:
                rep.count(f"track-rejected:{cls}:{type(ex).__name__}")
                continue
            enc = encode(p)
            iP = drv.call("etrackP", *enc, En, float(6), *P.reshape(-1).tolist(), *sv.tolist())
            iM = drv.call("etrackM", *enc, En, *mb._mu.tolist(), *mb._cov.reshape(-1).tolist(), float(mb.total_charge))
            realP = [float(op.energy)] + op.particles.reshape(-1).tolist() + op.survival_probabilities.tolist()
            realM = [float(om.energy), float(om.total_charge)] + om._mu.tolist() + om._cov.reshape(-1).tolist()
            pend.append((p, En, iP, realP, iM, realM, P, sv))
    replies = drv.run()
    bad = []
    for p, En, iP, realP, iM, realM, P, sv in pend:
        for bt, idx, real in (("ParticleBeam", iP, realP), ("ParameterBeam", iM, realM)):
            rep.corr_cases += 1
            rep.count(f"track:{p['cls']}:{bt}")
            rep.case(("track", E.config_key(p), bt))
            model = replies[idx]
            if isinstance(model, str):
                rep.fail("correspondence", f"{prop}|driver|track|{p['cls']}", f"Lean driver error {model}",
                         {"params": p}, found_input=False)
                continue
            ok, what = compare_track(real, model, bt, ulps)
            if not ok:
                ctx.escalate = True
                bad.append((p, En, bt, what, P, sv))
                rep.notes.append(f"track correspondence mismatch {p['cls']} {bt}: {what}")
                obs = what.split(":")[0].split(" ")[0]
                rep.fail("correspondence", f"{prop}|model-mismatch|{p['cls']}.track|{bt}|{obs}",
                         f"{p['cls']}.track({bt}) no longer matches the Lean model Elem.track{'P' if bt == 'ParticleBeam' else 'M'}: {what}",
                         {"kind": "track", "params": p, "energy": En, "beam": bt, "particles": P.tolist(),
                          "survival": sv.tolist(), "broken": f"correspondence {p['cls']}.track <-> CheetahModel.Elements"},
                         found_input=False)
    return bad


def compare_track(real, model, bt, ulps):
    if len(real) != len(model):
        return False, f"length {len(real)} vs {len(model)}"
    if bt == "ParticleBeam":
        n = (len(real) - 1) // 8
        ok, w, i = vec_close(real[:1], model[:1], ulps=ulps)
        if not ok:
            return False, f"energy {real[0]!r} vs {model[0]!r}"
        R = np.array(real[1:1 + 7 * n]).reshape(n, 7)
        M = np.array(model[1:1 + 7 * n]).reshape(n, 7)
        for j in range(7):
            ok, w, i = vec_close(R[:, j].tolist(), M[:, j].tolist(), ulps=ulps, scale=float(LT.REF_SIG[j]))
            if not ok:
                return False, f"coordinate {j}: code {R[i, j]!r} model {M[i, j]!r}"
        if real[1 + 7 * n:] != model[1 + 7 * n:]:
            return False, f"survival {real[1 + 7 * n:]} vs {model[1 + 7 * n:]}"
        return True, ""
    ok, w, i = vec_close(real[:2], model[:2], ulps=ulps)
    if not ok:
        return False, f"energy/charge {real[:2]} vs {model[:2]}"
    mu_r, mu_m = real[2:9], model[2:9]
    for j in range(7):
        ok, w, i = vec_close([mu_r[j]], [mu_m[j]], ulps=ulps, scale=float(LT.REF_SIG[j]))
        if not ok:
            return False, f"mu[{j}]: code {mu_r[j]!r} model {mu_m[j]!r}"
    C_r = np.array(real[9:]).reshape(7, 7)
    C_m = np.array(model[9:]).reshape(7, 7)
    for a in range(7):
        for b in range(7):
            ok, w, i = vec_close([C_r[a, b]], [C_m[a, b]], ulps=ulps, scale=float(LT.REF_SIG[a] * LT.REF_SIG[b]))
            if not ok:
                return False, f"cov[{a},{b}]: code {C_r[a, b]!r} model {C_m[a, b]!r}"
    return True, ""
