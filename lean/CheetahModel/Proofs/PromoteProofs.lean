import CheetahModel.Promote
/-! # Theorems about the type-promotion model (C12) — core Lean, finite case analysis -/
namespace Prom

theorem resultType_comm (d : DT) (a b : Opd) : resultType d a b = resultType d b a := by
  rcases a with ⟨ka, da⟩; rcases b with ⟨kb, db⟩
  cases d <;> cases ka <;> cases da <;> cases kb <;> cases db <;> rfl

/-- operands that are `float64` tensors or Python numbers, at least one of them a tensor: the result is `float64`, whatever
the default dtype -/
theorem resultType_f64 (d : DT) (a b : Opd) (ha : a.kind = .py ∨ a.dt = .f64) (hb : b.kind = .py ∨ b.dt = .f64)
    (hn : ¬ (a.kind = .py ∧ b.kind = .py)) : resultType d a b = .f64 := by
  rcases a with ⟨ka, da⟩; rcases b with ⟨kb, db⟩
  cases d <;> cases ka <;> cases da <;> cases kb <;> cases db <;> simp_all <;> rfl

/-- the result of an operation on such operands is again such an operand -/
theorem binop_f64 (d : DT) (a b : Opd) (ha : a.kind = .py ∨ a.dt = .f64) (hb : b.kind = .py ∨ b.dt = .f64) :
    (binop d a b).kind = .py ∨ (binop d a b).dt = .f64 := by
  unfold binop
  by_cases h : a.kind = .py ∧ b.kind = .py
  · simp [h]
  · simp only [h, if_false]; exact Or.inr (resultType_f64 d a b ha hb h)

/-- … and does not depend on the default dtype -/
theorem binop_default_free (d1 d2 : DT) (a b : Opd) (ha : a.kind = .py ∨ a.dt = .f64) (hb : b.kind = .py ∨ b.dt = .f64) :
    binop d1 a b = binop d2 a b := by
  unfold binop
  by_cases h : a.kind = .py ∧ b.kind = .py
  · simp [h]
  · simp only [h, if_false]; rw [resultType_f64 d1 a b ha hb h, resultType_f64 d2 a b ha hb h]

/-- **a consistently `float64` computation stays `float64`**: in any arithmetic expression whose tensor leaves —
dimensioned or zero-dimensional — are all `float64` (Python literals unrestricted), every tensor-valued result is
`float64` … -/
theorem f64_closed (d : DT) : ∀ t : Tree, t.AllF64 → (t.eval d).kind = .py ∨ (t.eval d).dt = .f64
  | .leaf _, h => h
  | .node l r, h => binop_f64 d _ _ (f64_closed d l h.1) (f64_closed d r h.2)

/-- … and the whole evaluation is independent of `torch.get_default_dtype()` -/
theorem f64_default_free (d1 d2 : DT) : ∀ t : Tree, t.AllF64 → t.eval d1 = t.eval d2
  | .leaf _, _ => rfl
  | .node l r, h => by
    simp only [Tree.eval]
    rw [f64_default_free d1 d2 l h.1, f64_default_free d1 d2 r h.2]
    exact binop_default_free d1 d2 _ _ (f64_closed d2 l h.1) (f64_closed d2 r h.2)

/-- the trap behind float32 leaks: a zero-dimensional `float64` setting does not widen `float32` particles … -/
theorem zero_dim_does_not_widen (d : DT) : resultType d ⟨.dim, .f32⟩ ⟨.zero, .f64⟩ = .f32 := by cases d <;> rfl
/-- … a zero-dimensional `float32` setting is silently widened by `float64` particles (its value was rounded before) … -/
theorem zero_dim_is_widened (d : DT) : resultType d ⟨.dim, .f64⟩ ⟨.zero, .f32⟩ = .f64 := by cases d <;> rfl
/-- … and a Python float turns an integer tensor into the *default* dtype -/
theorem python_float_uses_default (d : DT) (hd : d.isFloat = true) : resultType d ⟨.dim, .i64⟩ ⟨.py, .f64⟩ = d := by
  cases d <;> simp_all [DT.isFloat] <;> rfl

end Prom
