import CheetahModel.Proofs.RealInst
import CheetahModel.Linalg
import Mathlib.LinearAlgebra.Matrix.Notation
import Mathlib.Data.Matrix.Mul
import Mathlib.Tactic.FinCases
import Mathlib.Tactic.Ring
import Mathlib.Tactic.NormNum
/-!
# Bridge from the model's `Mat7 ℝ` / `Vec7 ℝ` to Mathlib matrices and vectors
-/
open Matrix

/-- the model matrix as a Mathlib matrix -/
def Mat7.toM (m : Mat7 ℝ) : Matrix (Fin 7) (Fin 7) ℝ := Matrix.of fun i j => m.get i j

/-- the model vector as a Mathlib vector -/
def Vec7.toV (v : Vec7 ℝ) : Fin 7 → ℝ := fun j => v.get j

@[simp] theorem Mat7.toM_apply (m : Mat7 ℝ) (i j : Fin 7) : m.toM i j = m.get i j := rfl
@[simp] theorem Vec7.toV_apply (v : Vec7 ℝ) (j : Fin 7) : v.toV j = v.get j := rfl

theorem Vec7.ext_get {v w : Vec7 ℝ} (h : ∀ j, v.get j = w.get j) : v = w := by
  obtain ⟨a0, a1, a2, a3, a4, a5, a6⟩ := v
  obtain ⟨b0, b1, b2, b3, b4, b5, b6⟩ := w
  have h0 := h 0; have h1 := h 1; have h2 := h 2; have h3 := h 3
  have h4 := h 4; have h5 := h 5; have h6 := h 6
  simp only [Vec7.get] at h0 h1 h2 h3 h4 h5 h6
  subst h0 h1 h2 h3 h4 h5 h6; rfl

theorem Mat7.ext_get {A B : Mat7 ℝ} (h : ∀ i j, A.get i j = B.get i j) : A = B := by
  obtain ⟨a0, a1, a2, a3, a4, a5, a6⟩ := A
  obtain ⟨b0, b1, b2, b3, b4, b5, b6⟩ := B
  have e0 : a0 = b0 := Vec7.ext_get (h 0)
  have e1 : a1 = b1 := Vec7.ext_get (h 1)
  have e2 : a2 = b2 := Vec7.ext_get (h 2)
  have e3 : a3 = b3 := Vec7.ext_get (h 3)
  have e4 : a4 = b4 := Vec7.ext_get (h 4)
  have e5 : a5 = b5 := Vec7.ext_get (h 5)
  have e6 : a6 = b6 := Vec7.ext_get (h 6)
  subst e0 e1 e2 e3 e4 e5 e6; rfl

theorem Mat7.toM_injective : Function.Injective Mat7.toM := by
  intro A B h
  apply Mat7.ext_get
  intro i j
  have := congrFun (congrFun h i) j
  simpa using this

theorem Mat7.dot_eq (a b : Vec7 ℝ) : Mat7.dot a b = ∑ k : Fin 7, a.get k * b.get k := by
  simp [Mat7.dot, Fin.sum_univ_succ, Vec7.get]
  ring

theorem Mat7.get_mul (A B : Mat7 ℝ) (i j : Fin 7) :
    (Mat7.mul A B).get i j = ∑ k : Fin 7, A.get i k * B.get k j := by
  have hc : ∀ k, (B.col j).get k = B.get k j := fun k => by simp [Mat7.col]
  rw [show (∑ k : Fin 7, A.get i k * B.get k j) = Mat7.dot (A.row i) (B.col j) by
    rw [Mat7.dot_eq]; simp [hc, Mat7.get]]
  fin_cases i <;> fin_cases j <;> rfl

theorem Mat7.toM_mul (A B : Mat7 ℝ) : (Mat7.mul A B).toM = A.toM * B.toM := by
  ext i j
  simp [Mat7.get_mul, Matrix.mul_apply]

theorem Mat7.toM_mul3 (A B C : Mat7 ℝ) : (Mat7.mul3 A B C).toM = A.toM * B.toM * C.toM := by
  simp [Mat7.mul3, Mat7.toM_mul]

theorem Mat7.toM_one : (Mat7.one : Mat7 ℝ).toM = 1 := by
  ext i j
  fin_cases i <;> fin_cases j <;> simp [Mat7.one, Mat7.get, Mat7.row, Vec7.get] <;> norm_num

theorem Mat7.toM_transpose (A : Mat7 ℝ) : (Mat7.transpose A).toM = A.toMᵀ := by
  ext i j
  simp [Mat7.transpose]

theorem Mat7.toV_mulVec (A : Mat7 ℝ) (v : Vec7 ℝ) : (Mat7.mulVec A v).toV = A.toM *ᵥ v.toV := by
  funext i
  simp only [Vec7.toV_apply, Matrix.mulVec, dotProduct, Mat7.toM_apply]
  rw [show (∑ k : Fin 7, A.get i k * v.get k) = Mat7.dot (A.row i) v by rw [Mat7.dot_eq]; simp [Mat7.get]]
  fin_cases i <;> rfl

/-- the 6×6 phase-space block of an augmented map -/
def block6 (M : Mat7 ℝ) : Matrix (Fin 6) (Fin 6) ℝ :=
  Matrix.of fun i j => M.get (Fin.castSucc i) (Fin.castSucc j)

/-- last row is e₆ = (0,0,0,0,0,0,1): the map is affine on phase space -/
def Mat7.Affine (M : Mat7 ℝ) : Prop := M.r6 = row7 0 0 0 0 0 0 1

theorem Mat7.affine_get (M : Mat7 ℝ) (h : M.Affine) (j : Fin 7) :
    M.get 6 j = if j = 6 then 1 else 0 := by
  unfold Mat7.Affine at h
  fin_cases j <;> simp [Mat7.get, Mat7.row, h, Vec7.get]

theorem block6_mul (A B : Mat7 ℝ) (hB : B.Affine) :
    block6 (Mat7.mul A B) = block6 A * block6 B := by
  ext i j
  simp only [block6, Matrix.of_apply, Mat7.get_mul, Matrix.mul_apply]
  rw [Fin.sum_univ_castSucc]
  have : B.get (Fin.last 6) (Fin.castSucc j) = 0 := by
    have := Mat7.affine_get B hB (Fin.castSucc j)
    rw [show (Fin.last 6 : Fin 7) = 6 from rfl, this]
    have hne : (Fin.castSucc j : Fin 7) ≠ 6 := by
      intro h; have := congrArg Fin.val h; simp at this; omega
    simp [hne]
  rw [this]; simp

theorem Mat7.affine_mul (A B : Mat7 ℝ) (hA : A.Affine) (hB : B.Affine) : (Mat7.mul A B).Affine := by
  unfold Mat7.Affine
  apply Vec7.ext_get
  intro j
  have h1 : (Mat7.mul A B).r6.get j = (Mat7.mul A B).get 6 j := rfl
  rw [h1, Mat7.get_mul]
  simp only [Mat7.affine_get A hA]
  simp only [ite_mul, one_mul, zero_mul, Finset.sum_ite_eq', Finset.mem_univ, if_true]
  rw [Mat7.affine_get B hB]
  fin_cases j <;> simp [Vec7.get]

theorem Mat7.affine_one : (Mat7.one : Mat7 ℝ).Affine := by
  unfold Mat7.Affine Mat7.one; norm_num
