import CheetahModel.Proofs.Flow
/-!
# Tilt and misalignment as conjugations; the guards `tilt == 0`, `misalignment == 0` skip identities
(used by C02, C04, C09, C16)
-/
open Matrix Scalar

theorem toM_rotation (a : ℝ) : (rotationMatrix a).toM =
    !![Real.cos a, 0, Real.sin a, 0, 0, 0, 0;
       0, Real.cos a, 0, Real.sin a, 0, 0, 0;
       -Real.sin a, 0, Real.cos a, 0, 0, 0, 0;
       0, -Real.sin a, 0, Real.cos a, 0, 0, 0;
       0, 0, 0, 0, 1, 0, 0;
       0, 0, 0, 0, 0, 1, 0;
       0, 0, 0, 0, 0, 0, 1] := by
  ext i j
  fin_cases i <;> fin_cases j <;>
    simp [rotationMatrix, Mat7.get, Mat7.row, Vec7.get] <;> norm_num

theorem rotation_mul_neg (a : ℝ) : (rotationMatrix a).toM * (rotationMatrix (-a)).toM = 1 := by
  simp only [toM_rotation, Real.cos_neg, Real.sin_neg]
  have h := Real.cos_sq_add_sin_sq a
  ext i j
  fin_cases i <;> fin_cases j <;>
    simp [Matrix.mul_apply, Fin.sum_univ_succ] <;> (try ring_nf) <;> (try nlinarith [h])

theorem rotation_neg_mul (a : ℝ) : (rotationMatrix (-a)).toM * (rotationMatrix a).toM = 1 := by
  have := rotation_mul_neg (-a)
  rwa [neg_neg] at this

theorem toM_misEntry (a b : ℝ) : (misEntry a b).toM =
    !![1, 0, 0, 0, 0, 0, -a; 0, 1, 0, 0, 0, 0, 0; 0, 0, 1, 0, 0, 0, -b; 0, 0, 0, 1, 0, 0, 0;
       0, 0, 0, 0, 1, 0, 0; 0, 0, 0, 0, 0, 1, 0; 0, 0, 0, 0, 0, 0, 1] := by
  ext i j
  fin_cases i <;> fin_cases j <;> simp [misEntry, Mat7.get, Mat7.row, Vec7.get] <;> norm_num

theorem toM_misExit (a b : ℝ) : (misExit a b).toM =
    !![1, 0, 0, 0, 0, 0, a; 0, 1, 0, 0, 0, 0, 0; 0, 0, 1, 0, 0, 0, b; 0, 0, 0, 1, 0, 0, 0;
       0, 0, 0, 0, 1, 0, 0; 0, 0, 0, 0, 0, 1, 0; 0, 0, 0, 0, 0, 0, 1] := by
  ext i j
  fin_cases i <;> fin_cases j <;> simp [misExit, Mat7.get, Mat7.row, Vec7.get] <;> norm_num

theorem misEntry_mul_misExit (a b : ℝ) : (misEntry a b).toM * (misExit a b).toM = 1 := by
  simp only [toM_misEntry, toM_misExit]
  ext i j
  fin_cases i <;> fin_cases j <;> simp [Matrix.mul_apply, Fin.sum_univ_succ]

theorem misEntry_zero : (misEntry (0:ℝ) 0).toM = 1 := by
  rw [toM_misEntry]; ext i j; fin_cases i <;> fin_cases j <;> simp
theorem misExit_zero : (misExit (0:ℝ) 0).toM = 1 := by
  rw [toM_misExit]; ext i j; fin_cases i <;> fin_cases j <;> simp

/-- the tilt shortcut is sound: with or without the branch, `base_rmatrix` is the conjugated body map -/
theorem baseR_toM (L k1 hx t E m : ℝ) :
    (baseR L k1 hx t E m).toM =
      (rotationMatrix (-t)).toM * (baseR0 L k1 hx E m).toM * (rotationMatrix t).toM := by
  unfold baseR
  simp only
  by_cases ht : t = 0
  · have : Scalar.eqb t (0.0:ℝ) = true := by rw [Scalar.real_eqb]; norm_num; exact ht
    simp only [this, if_true]
    subst ht
    rw [neg_zero, rotation_zero]; simp
  · have : Scalar.eqb t (0.0:ℝ) = false := by rw [Scalar.real_eqb_false]; norm_num; exact ht
    simp [this, tiltConj, Mat7.toM_mul3]

/-- the misalignment shortcut is sound -/
theorem quadMap_toM (L k1 mx my t E m : ℝ) :
    (quadMap L k1 mx my t E m).toM =
      (misExit mx my).toM * (baseR L k1 0 t E m).toM * (misEntry mx my).toM := by
  have h00 : (0.0:ℝ) = 0 := by norm_num
  unfold quadMap
  simp only [h00]
  by_cases h : mx = 0 ∧ my = 0
  · obtain ⟨h1, h2⟩ := h
    have e1 : Scalar.eqb mx (0:ℝ) = true := by rw [Scalar.real_eqb]; exact h1
    have e2 : Scalar.eqb my (0:ℝ) = true := by rw [Scalar.real_eqb]; exact h2
    simp only [e1, e2, Bool.and_self, if_true]
    subst h1 h2
    rw [misEntry_zero, misExit_zero]; simp
  · have : (Scalar.eqb mx (0:ℝ) && Scalar.eqb my (0:ℝ)) = false := by
      rw [Bool.and_eq_false_iff]
      by_cases h1 : mx = 0
      · right; rw [Scalar.real_eqb_false]; intro h2; exact h ⟨h1, h2⟩
      · left; rw [Scalar.real_eqb_false]; exact h1
    simp [this, misConj, Mat7.toM_mul3]

theorem conjMul {n : ℕ} (X Y A B : Matrix (Fin n) (Fin n) ℝ) (h : Y * X = 1) :
    X * A * Y * (X * B * Y) = X * (A * B) * Y := by
  calc X * A * Y * (X * B * Y) = X * A * (Y * X) * B * Y := by simp only [Matrix.mul_assoc]
    _ = X * (A * B) * Y := by rw [h]; simp [Matrix.mul_assoc]

/-- group law for the tilted, misaligned quadrupole (C16: splitting preserves the action) -/
theorem quadMap_add (a b k1 mx my t E m : ℝ) (hm : 0 < m) (hE : m < E) :
    (quadMap (a + b) k1 mx my t E m).toM = (quadMap a k1 mx my t E m).toM * (quadMap b k1 mx my t E m).toM := by
  have hk : guardK1 k1 + (0:ℝ) * 0 ≠ 0 := by simp; exact guardK1_ne_zero k1
  simp only [quadMap_toM, baseR_toM]
  rw [baseR0_add a b k1 0 E m hm hE hk]
  rw [conjMul _ _ _ _ (misEntry_mul_misExit mx my), conjMul _ _ _ _ (rotation_mul_neg t)]

theorem quadMap_zero_length (k1 mx my t E m : ℝ) : (quadMap 0 k1 mx my t E m).toM = 1 := by
  have hk : guardK1 k1 + (0:ℝ) * 0 ≠ 0 := by simp; exact guardK1_ne_zero k1
  have s : (misExit mx my).toM * (misEntry mx my).toM = 1 := by
    simp only [toM_misEntry, toM_misExit]
    ext i j
    fin_cases i <;> fin_cases j <;> simp [Matrix.mul_apply, Fin.sum_univ_succ]
  rw [quadMap_toM, baseR_toM, baseR0_zero k1 0 E m hk]
  simp [rotation_neg_mul, s]

/-- misalignment acts as `v ↦ R (v − d) + d` on the transverse positions -/
theorem misalign_affine (R : Matrix (Fin 7) (Fin 7) ℝ) (mx my : ℝ) (v : Fin 7 → ℝ) (hv : v 6 = 1)
    (hR : ∀ j, R 6 j = if j = 6 then 1 else 0) :
    ((misExit mx my).toM * R * (misEntry mx my).toM) *ᵥ v =
      fun i => (R *ᵥ (fun j => v j - (if j = 0 then mx else if j = 2 then my else 0))) i
        + (if i = 0 then mx else if i = 2 then my else 0) := by
  have h1 : (misEntry mx my).toM *ᵥ v = fun j => v j - (if j = 0 then mx else if j = 2 then my else 0) := by
    rw [toM_misEntry]
    funext j
    fin_cases j <;> simp [Matrix.mulVec, dotProduct, Fin.sum_univ_succ, hv] <;> ring
  rw [← Matrix.mulVec_mulVec, ← Matrix.mulVec_mulVec, h1]
  set w := R *ᵥ (fun j => v j - (if j = 0 then mx else if j = 2 then my else 0)) with hw
  have hw6 : w 6 = 1 := by
    rw [hw]
    simp only [Matrix.mulVec, dotProduct, hR]
    simp [Fin.sum_univ_succ, hv]
  rw [toM_misExit]
  funext i
  fin_cases i <;> simp [Matrix.mulVec, dotProduct, Fin.sum_univ_succ, hw6]

/-- conjugating a differentiable matrix family by constant matrices -/
theorem conj_hasDeriv {n : ℕ} (R : ℝ → Matrix (Fin n) (Fin n) ℝ) (A X Y : Matrix (Fin n) (Fin n) ℝ) (x : ℝ)
    (h : ∀ i j, HasDerivAt (fun l => R l i j) (A i j) x) (i j : Fin n) :
    HasDerivAt (fun l => (X * R l * Y) i j) ((X * A * Y) i j) x := by
  simp only [Matrix.mul_apply, Finset.sum_mul]
  apply HasDerivAt.fun_sum
  intro a _
  apply HasDerivAt.fun_sum
  intro b _
  exact ((h b a).const_mul (X i b)).mul_const (Y a j)

/-- generator of the tilted, misaligned quadrupole: the conjugated generator -/
noncomputable def genQuad (k1 mx my t E m : ℝ) : Matrix (Fin 7) (Fin 7) ℝ :=
  (misExit mx my).toM * ((rotationMatrix (-t)).toM *
    genBase (guardK1 k1 + 0 * 0) (-guardK1 k1) 0 (relFactors E m).beta (relFactors E m).igamma2 *
    (rotationMatrix t).toM) * (misEntry mx my).toM

theorem quadMap_deriv0 (k1 mx my t E m : ℝ) (hm : 0 < m) (hE : m < E) (i j : Fin 7) :
    HasDerivAt (fun l => (quadMap l k1 mx my t E m).toM i j) (genQuad k1 mx my t E m i j) 0 := by
  have hk : guardK1 k1 + (0:ℝ) * 0 ≠ 0 := by simp; exact guardK1_ne_zero k1
  simp only [quadMap_toM, baseR_toM]
  unfold genQuad
  apply conj_hasDeriv (fun l => (rotationMatrix (-t)).toM * (baseR0 l k1 0 E m).toM * (rotationMatrix t).toM)
  intro i j
  apply conj_hasDeriv (fun l => (baseR0 l k1 0 E m).toM)
  intro i j
  exact baseR0_deriv0 k1 0 E m hm hE hk i j

/-- **C02** quadrupole of either sign with tilt and misalignment: `dR/dL = A·R` with the conjugated generator -/
theorem quadMap_flow (k1 mx my t E m : ℝ) (hm : 0 < m) (hE : m < E) (L : ℝ) (i j : Fin 7) :
    HasDerivAt (fun l => (quadMap l k1 mx my t E m).toM i j)
      ((genQuad k1 mx my t E m * (quadMap L k1 mx my t E m).toM) i j) L :=
  flow_of_group (fun l => (quadMap l k1 mx my t E m).toM) _
    (fun a b => quadMap_add a b k1 mx my t E m hm hE)
    (fun i j => quadMap_deriv0 k1 mx my t E m hm hE i j) L i j

/-! ## drift -/

theorem toM_driftLike (L r : ℝ) : (driftLike L r).toM =
    !![1, L, 0, 0, 0, 0, 0; 0, 1, 0, 0, 0, 0, 0; 0, 0, 1, L, 0, 0, 0; 0, 0, 0, 1, 0, 0, 0;
       0, 0, 0, 0, 1, r, 0; 0, 0, 0, 0, 0, 1, 0; 0, 0, 0, 0, 0, 0, 1] := by
  ext i j
  fin_cases i <;> fin_cases j <;> simp [driftLike, Mat7.get, Mat7.row, Vec7.get] <;> norm_num

theorem driftLike_add (a b r s : ℝ) :
    (driftLike (a + b) (r + s)).toM = (driftLike a r).toM * (driftLike b s).toM := by
  simp only [toM_driftLike]
  ext i j
  fin_cases i <;> fin_cases j <;> simp [Matrix.mul_apply, Fin.sum_univ_succ] <;> ring

theorem driftR56_eq (L E m : ℝ) :
    driftR56 L E m = -L / ((relFactors E m).beta * (relFactors E m).beta) * (relFactors E m).igamma2 := by
  unfold driftR56; rfl

theorem driftMap_add (a b E m : ℝ) :
    (driftMap (a + b) E m).toM = (driftMap a E m).toM * (driftMap b E m).toM := by
  unfold driftMap
  rw [← driftLike_add]
  congr 2
  simp only [driftR56_eq]; ring

/-- the drift's path-length term is `−L/(β²γ²)` -/
theorem driftR56_physical (L E m : ℝ) (hm : 0 < m) (hE : m < E) :
    driftR56 L E m = -L / ((relFactors E m).beta ^ 2 * (relFactors E m).gamma ^ 2) := by
  have hg := gamma_gt_one E m hm hE
  have hβ := (relFactors_beta_pos E m hm hE).ne'
  rw [driftR56_eq]
  have : (relFactors E m).igamma2 = 1 / (relFactors E m).gamma ^ 2 := by
    rw [relFactors_eq E m hm hE]; simp only; rw [sq]
  rw [this]
  have hγ : (relFactors E m).gamma ≠ 0 := by
    rw [relFactors_eq E m hm hE]; simp only; linarith
  field_simp
