import CheetahModel.Proofs.MatBridge
import CheetahModel.Maps
import Mathlib.LinearAlgebra.SymplecticGroup
import Mathlib.LinearAlgebra.Matrix.Reindex
import Mathlib.Tactic.LinearCombination
import Mathlib.Tactic.FieldSimp
/-!
# Symplecticity with respect to Cheetah's canonical pairs (x,px), (y,py), (τ,δ)

`S6 = blockdiag(J, J, −J)`: the third pair carries the minus sign because τ = c·Δt is time-like.
-/
open Matrix

def S6 : Matrix (Fin 6) (Fin 6) ℝ :=
  !![0, 1, 0, 0, 0, 0;
    -1, 0, 0, 0, 0, 0;
     0, 0, 0, 1, 0, 0;
     0, 0,-1, 0, 0, 0;
     0, 0, 0, 0, 0,-1;
     0, 0, 0, 0, 1, 0]

/-- `M` preserves the symplectic form `S6` -/
def Symp6 (M : Matrix (Fin 6) (Fin 6) ℝ) : Prop := Mᵀ * S6 * M = S6

theorem Symp6.one : Symp6 1 := by simp [Symp6]

theorem Symp6.mul {A B : Matrix (Fin 6) (Fin 6) ℝ} (hA : Symp6 A) (hB : Symp6 B) : Symp6 (A * B) := by
  unfold Symp6 at *
  rw [Matrix.transpose_mul]
  calc Bᵀ * Aᵀ * S6 * (A * B) = Bᵀ * (Aᵀ * S6 * A) * B := by simp only [Matrix.mul_assoc]
    _ = S6 := by rw [hA, hB]

/-- (px, py, τ | x, y, δ) ordering under which S6 is Mathlib's J. -/
def e6 : Fin 3 ⊕ Fin 3 ≃ Fin 6 where
  toFun := fun s => match s with
    | .inl 0 => 1 | .inl 1 => 3 | .inl 2 => 4
    | .inr 0 => 0 | .inr 1 => 2 | .inr 2 => 5
  invFun := fun i => match i with
    | 0 => .inr 0 | 1 => .inl 0 | 2 => .inr 1 | 3 => .inl 1 | 4 => .inl 2 | 5 => .inr 2
  left_inv := by intro s; rcases s with i | i <;> fin_cases i <;> rfl
  right_inv := by intro i; fin_cases i <;> rfl

theorem S6_reindex : S6.submatrix e6 e6 = J (Fin 3) ℝ := by
  ext a b
  rcases a with i | i <;> rcases b with j | j <;> fin_cases i <;> fin_cases j <;>
    simp [S6, e6, J, Matrix.fromBlocks, Matrix.one_apply]

/-- every `S6`-symplectic real 6×6 matrix has determinant one -/
theorem det_eq_one_of_S6 (M : Matrix (Fin 6) (Fin 6) ℝ) (h : Symp6 M) : M.det = 1 := by
  unfold Symp6 at h
  have hA : (M.submatrix e6 e6)ᵀ ∈ symplecticGroup (Fin 3) ℝ := by
    rw [SymplecticGroup.mem_iff]
    rw [Matrix.transpose_transpose, ← S6_reindex]
    rw [Matrix.transpose_submatrix]
    rw [Matrix.submatrix_mul_equiv, Matrix.submatrix_mul_equiv, h]
  have hA' := SymplecticGroup.transpose_mem hA
  rw [Matrix.transpose_transpose] at hA'
  have := SymplecticGroup.det_eq_one hA'
  rwa [Matrix.det_submatrix_equiv_self] at this

/-- phase-space volume: `det (M Σ Mᵀ) = det Σ` for every symplectic `M` -/
theorem volume_invariant (M Sg : Matrix (Fin 6) (Fin 6) ℝ) (h : Symp6 M) :
    (M * Sg * Mᵀ).det = Sg.det := by
  rw [Matrix.det_mul, Matrix.det_mul, Matrix.det_transpose, det_eq_one_of_S6 M h]; ring

/-- bridge: the body map as a Mathlib literal -/
theorem block6_baseRof (e : BaseE ℝ) : block6 (baseRof e) =
    !![e.cx, e.sx, 0, 0, 0, e.dx / e.beta;
       -e.kx2 * e.sx, e.cx, 0, 0, 0, e.sx * e.hx / e.beta;
       0, 0, e.cy, e.sy, 0, 0;
       0, 0, -e.ky2 * e.sy, e.cy, 0, 0;
       e.sx * e.hx / e.beta, e.dx / e.beta, 0, 0, 1, e.r56;
       0, 0, 0, 0, 0, 1] := by
  ext i j
  fin_cases i <;> fin_cases j <;>
    simp [block6, baseRof, Mat7.get, Mat7.row, Vec7.get] <;> norm_num

theorem baseRof_symplectic (e : BaseE ℝ) (hb : e.beta ≠ 0) (hk : e.kx2 ≠ 0)
    (hx1 : e.cx ^ 2 + e.kx2 * e.sx ^ 2 = 1) (hy1 : e.cy ^ 2 + e.ky2 * e.sy ^ 2 = 1)
    (hdx : e.dx = e.hx / e.kx2 * (1 - e.cx)) :
    Symp6 (block6 (baseRof e)) := by
  unfold Symp6
  rw [block6_baseRof]
  obtain ⟨cx, sx, cy, sy, kx2, ky2, hx, beta, dx, r56⟩ := e
  simp only at hb hk hx1 hy1 hdx ⊢
  subst hdx
  ext i j
  fin_cases i <;> fin_cases j <;>
    simp [S6, Matrix.mul_apply, Fin.sum_univ_succ, Matrix.transpose_apply] <;>
    (try field_simp) <;>
    (try (linear_combination (1:ℝ) * hx1)) <;>
    (try (linear_combination (-1:ℝ) * hx1)) <;>
    (try (linear_combination (1:ℝ) * hy1)) <;>
    (try (linear_combination (-1:ℝ) * hy1)) <;>
    (try (linear_combination hx * hx1)) <;>
    (try (linear_combination (-hx) * hx1)) <;>
    (try ring)

theorem baseRof_affine (e : BaseE ℝ) : (baseRof e).Affine := by
  unfold Mat7.Affine baseRof; norm_num
