import CheetahModel.Proofs.Conj
import CheetahModel.Proofs.SemLawful
/-!
# Splitting (C16)
-/
open Matrix Scalar

/-- `num_splits = ceil(length / resolution)` -/
noncomputable def numSplits (L res : ℝ) : ℕ := ⌈L / res⌉₊

theorem split_sum (L : ℝ) (n : ℕ) (h : n ≠ 0) : (n : ℝ) * (L / n) = L := by
  have : (n : ℝ) ≠ 0 := by exact_mod_cast h
  field_simp

theorem split_le_res (L res : ℝ) (hres : 0 < res) (h : numSplits L res ≠ 0) :
    L / numSplits L res ≤ res := by
  have hn : (0:ℝ) < numSplits L res := by exact_mod_cast Nat.pos_of_ne_zero h
  have hc : L / res ≤ numSplits L res := Nat.le_ceil _
  rw [div_le_iff₀ hn]
  have := (div_le_iff₀ hres).mp hc
  linarith

theorem numSplits_pos (L res : ℝ) (hL : 0 < L) (hres : 0 < res) : numSplits L res ≠ 0 := by
  unfold numSplits
  have : 0 < L / res := by positivity
  exact (Nat.ceil_pos.mpr this).ne'

/-- `torch.max(self.length)` of a vectorised element (entries in a list) -/
noncomputable def vecMax : List ℝ → ℝ
  | [] => 0
  | l :: ls => ls.foldl max l

theorem le_foldl_max (ls : List ℝ) : ∀ (a x : ℝ), (x = a ∨ x ∈ ls) → x ≤ ls.foldl max a := by
  induction ls with
  | nil => intro a x h; rcases h with rfl | h; exact le_refl _; simp at h
  | cons b t ih =>
    intro a x h
    simp only [List.foldl_cons]
    rcases h with rfl | h
    · exact le_trans (le_max_left _ _) (ih (max x b) (max x b) (Or.inl rfl))
    · rcases List.mem_cons.mp h with rfl | h
      · exact le_trans (le_max_right _ _) (ih (max a x) (max a x) (Or.inl rfl))
      · exact ih _ x (Or.inr h)

theorem le_vecMax (ls : List ℝ) (x : ℝ) (h : x ∈ ls) : x ≤ vecMax ls := by
  cases ls with
  | nil => simp at h
  | cons a t =>
    unfold vecMax
    rcases List.mem_cons.mp h with rfl | h
    · exact le_foldl_max t x x (Or.inl rfl)
    · exact le_foldl_max t a x (Or.inr h)

/-- **vectorised lengths**: the number of pieces is taken from the longest entry; then for *every* entry the pieces add
up to the entry's length and none is longer than the resolution -/
theorem split_vector (ls : List ℝ) (res : ℝ) (hres : 0 < res) (h : numSplits (vecMax ls) res ≠ 0) :
    ∀ l ∈ ls, ((numSplits (vecMax ls) res : ℕ) : ℝ) * (l / numSplits (vecMax ls) res) = l ∧
      l / numSplits (vecMax ls) res ≤ res := by
  intro l hl
  refine ⟨split_sum l _ h, ?_⟩
  have hn : (0:ℝ) < numSplits (vecMax ls) res := by exact_mod_cast Nat.pos_of_ne_zero h
  have h1 : l / numSplits (vecMax ls) res ≤ vecMax ls / numSplits (vecMax ls) res :=
    div_le_div_of_nonneg_right (le_vecMax ls l hl) hn.le
  exact le_trans h1 (split_le_res _ res hres h)

/-- n equal pieces of a one-parameter group compose to the whole -/
theorem pieces_compose {G : Type*} [Monoid G] (f : ℝ → G) (h0 : f 0 = 1)
    (hadd : ∀ a b, f (a + b) = f a * f b) (a : ℝ) : ∀ n : ℕ, f a ^ n = f (n * a)
  | 0 => by simp [h0]
  | n + 1 => by
      rw [pow_succ, pieces_compose f h0 hadd a n, ← hadd]
      congr 1; push_cast; ring

theorem split_group {G : Type*} [Monoid G] (f : ℝ → G) (h0 : f 0 = 1)
    (hadd : ∀ a b, f (a + b) = f a * f b) (L : ℝ) (n : ℕ) (h : n ≠ 0) :
    f (L / n) ^ n = f L := by
  rw [pieces_compose f h0 hadd, split_sum L n h]

/-- quadrupole (either sign, tilt, misalignment): the product of the n piece maps is the whole map -/
theorem quad_split_matrix (L k1 mx my t E m : ℝ) (hm : 0 < m) (hE : m < E) (n : ℕ) (h : n ≠ 0) :
    (quadMap (L / n) k1 mx my t E m).toM ^ n = (quadMap L k1 mx my t E m).toM :=
  split_group (fun l => (quadMap l k1 mx my t E m).toM) (quadMap_zero_length k1 mx my t E m)
    (fun a b => quadMap_add a b k1 mx my t E m hm hE) L n h

theorem driftMap_zero (E m : ℝ) : (driftMap 0 E m).toM = 1 := by
  unfold driftMap
  rw [toM_driftLike, driftR56_eq]
  ext i j; fin_cases i <;> fin_cases j <;> simp

theorem drift_split_matrix (L E m : ℝ) (n : ℕ) (h : n ≠ 0) :
    (driftMap (L / n) E m).toM ^ n = (driftMap L E m).toM :=
  split_group (fun l => (driftMap l E m).toM) (driftMap_zero E m) (fun a b => driftMap_add a b E m) L n h

/-- n-fold product in the model's own matrix type -/
noncomputable def Mat7.pow (M : Mat7 ℝ) : ℕ → Mat7 ℝ
  | 0 => Mat7.one
  | n + 1 => Mat7.mul M (Mat7.pow M n)

theorem Mat7.toM_pow (M : Mat7 ℝ) (n : ℕ) : (Mat7.pow M n).toM = M.toM ^ n := by
  induction n with
  | zero => simp [Mat7.pow, Mat7.toM_one]
  | succ n ih => rw [Mat7.pow, Mat7.toM_mul, ih, pow_succ']

/-- tracking a ParticleBeam through n copies of a linear element = acting with the n-th power of its map -/
theorem seq_replicate_P (k : Consts ℝ) (e : Elem ℝ) (he : e.skippable = true) (n : ℕ) (b : PBeam ℝ) :
    Lat.seq (semP k) (List.replicate n (.elem e)) b = PBeam.act (Mat7.pow (e.map k b.energy) n) b := by
  induction n generalizing b with
  | zero => simp [Lat.seq, Mat7.pow, PBeam.act_one]
  | succ n ih =>
      simp only [List.replicate_succ, Lat.seq, Lat.track]
      have hc := (semP_lawful k).contract e b he
      simp only [semP] at hc
      have : (semP k).track e b = Elem.trackP k e b := rfl
      rw [this, hc, ih]
      have hen : (PBeam.act (e.map k b.energy) b).energy = b.energy := rfl
      rw [hen, ← PBeam.act_mul]
      congr 1
      apply Mat7.toM_injective
      rw [Mat7.toM_mul, Mat7.toM_pow, Mat7.toM_pow, pow_succ]

/-- **C16**: tracking through the pieces of a split quadrupole equals tracking through the whole -/
theorem quad_split_track (k : Consts ℝ) (L k1 mx my t : ℝ) (n : ℕ) (h : n ≠ 0) (b : PBeam ℝ)
    (hm : 0 < k.mc2) (hE : k.mc2 < b.energy) :
    Lat.seq (semP k) (List.replicate n (.elem (.quad (L / n) k1 mx my t))) b = Elem.trackP k (.quad L k1 mx my t) b := by
  rw [seq_replicate_P k _ rfl]
  simp only [Elem.trackP, Elem.map]
  congr 1
  apply Mat7.toM_injective
  rw [Mat7.toM_pow]
  exact quad_split_matrix L k1 mx my t b.energy k.mc2 hm hE n h

theorem drift_split_track (k : Consts ℝ) (L : ℝ) (n : ℕ) (h : n ≠ 0) (b : PBeam ℝ) :
    Lat.seq (semP k) (List.replicate n (.elem (.drift (L / n)))) b = Elem.trackP k (.drift L) b := by
  rw [seq_replicate_P k _ rfl]
  simp only [Elem.trackP, Elem.map]
  congr 1
  apply Mat7.toM_injective
  rw [Mat7.toM_pow]
  exact drift_split_matrix L b.energy k.mc2 n h
