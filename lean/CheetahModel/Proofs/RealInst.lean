import CheetahModel.Scalar
import Mathlib.Analysis.SpecialFunctions.Trigonometric.Basic
import Mathlib.Analysis.SpecialFunctions.Trigonometric.Arctan
import Mathlib.Analysis.SpecialFunctions.Trigonometric.Inverse
import Mathlib.Analysis.SpecialFunctions.Trigonometric.DerivHyp
import Mathlib.Analysis.SpecialFunctions.Complex.Arg
import Mathlib.Analysis.SpecialFunctions.Log.Basic
import Mathlib.Analysis.SpecialFunctions.Sqrt
import Mathlib.Algebra.Order.Floor.Semiring
import Mathlib.Algebra.Order.Archimedean.Real.Basic
/-!
# The real-number reading of the model's scalar operations

This instance *is* the statement of what the theorems are about: `Scalar.sin` is `Real.sin`, …,
comparisons are the (classically decided) order of ℝ, decimal literals are the exact rationals.
It is part of the trusted base (read by eye).
-/

noncomputable section
open Classical in
instance instScalarReal : Scalar ℝ where
  sin := Real.sin
  cos := Real.cos
  tan := Real.tan
  sinh := Real.sinh
  cosh := Real.cosh
  sqrt := Real.sqrt
  exp := Real.exp
  log := Real.log
  atan := Real.arctan
  asin := Real.arcsin
  abs := fun x => |x|
  atan2 := fun y x => Complex.arg ⟨x, y⟩
  ltb a b := decide (a < b)
  leb a b := decide (a ≤ b)
  eqb a b := decide (a = b)
  ofNat n := (n : ℝ)
  ceilNat x := ⌈x⌉₊
end

namespace Scalar
@[simp] theorem real_sin (x : ℝ) : Scalar.sin x = Real.sin x := rfl
@[simp] theorem real_cos (x : ℝ) : Scalar.cos x = Real.cos x := rfl
@[simp] theorem real_tan (x : ℝ) : Scalar.tan x = Real.tan x := rfl
@[simp] theorem real_sinh (x : ℝ) : Scalar.sinh x = Real.sinh x := rfl
@[simp] theorem real_cosh (x : ℝ) : Scalar.cosh x = Real.cosh x := rfl
@[simp] theorem real_sqrt (x : ℝ) : Scalar.sqrt x = Real.sqrt x := rfl
@[simp] theorem real_exp (x : ℝ) : Scalar.exp x = Real.exp x := rfl
@[simp] theorem real_log (x : ℝ) : Scalar.log x = Real.log x := rfl
@[simp] theorem real_abs (x : ℝ) : Scalar.abs x = |x| := rfl
@[simp] theorem real_ceilNat (x : ℝ) : Scalar.ceilNat x = ⌈x⌉₊ := rfl
@[simp] theorem real_ofNat (n : ℕ) : (Scalar.ofNat n : ℝ) = (n : ℝ) := rfl
@[simp] theorem real_ltb (a b : ℝ) : (Scalar.ltb a b = true) ↔ a < b := by
  simp [Scalar.ltb]
@[simp] theorem real_leb (a b : ℝ) : (Scalar.leb a b = true) ↔ a ≤ b := by
  simp [Scalar.leb]
@[simp] theorem real_eqb (a b : ℝ) : (Scalar.eqb a b = true) ↔ a = b := by
  simp [Scalar.eqb]
theorem real_eqb_false (a b : ℝ) : (Scalar.eqb a b = false) ↔ a ≠ b := by
  simp [Scalar.eqb]
theorem real_ltb_false (a b : ℝ) : (Scalar.ltb a b = false) ↔ ¬ a < b := by
  simp [Scalar.ltb]
end Scalar
