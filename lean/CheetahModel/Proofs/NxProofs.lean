import CheetahModel.Nx
import CheetahModel.Proofs.RealInst
import Mathlib.Tactic.Ring
import Mathlib.Tactic.Linarith
import Mathlib.Tactic.NormNum
/-!
# NX tables: after drift filling every element's centre is at its tabulated position (C13)
-/
open Scalar

namespace Nx

theorem fillGo_centres : ∀ (rest : List (ℝ × ℝ)) (prev : ℝ × ℝ) (out : List (Bool × ℝ)),
    fillGo prev rest = some out →
      centres (prev.1 + prev.2 / 2) out = rest.map (·.1) ∧
      total out = (match rest.getLast? with | none => 0 | some l => l.1 + l.2 / 2 - (prev.1 + prev.2 / 2)) := by
  intro rest
  induction rest with
  | nil => intro prev out h; simp [fillGo] at h; subst h; simp [centres, total]; norm_num
  | cons cur rest ih =>
    intro prev out h
    have h20 : (2.0:ℝ) = 2 := by norm_num
    have h00 : (0.0:ℝ) = 0 := by norm_num
    simp only [fillGo, h20, h00] at h
    split at h
    · simp at h
    · rename_i hneg
      rw [Scalar.real_ltb] at hneg
      simp only [Option.map_eq_some_iff] at h
      obtain ⟨t, ht, rfl⟩ := h
      obtain ⟨ihc, iht⟩ := ih cur t ht
      have hlast : (cur :: rest).getLast? = some (match rest.getLast? with | none => cur | some l => l) := by
        cases rest with
        | nil => simp
        | cons a r => simp [List.getLast?_cons_cons]; cases h : (a :: r).getLast? with
          | none => simp at h
          | some l => simp
      by_cases hpos : 0 < cur.1 - prev.1 - prev.2 / 2 - cur.2 / 2
      · have e : Scalar.ltb (0:ℝ) (cur.1 - prev.1 - prev.2 / 2 - cur.2 / 2) = true := by rw [Scalar.real_ltb]; exact hpos
        simp only [e, if_true, List.cons_append, List.nil_append, centres, total, h20, List.map_cons]
        have p1 : prev.1 + prev.2 / 2 + (cur.1 - prev.1 - prev.2 / 2 - cur.2 / 2) + cur.2 = cur.1 + cur.2 / 2 := by ring
        have p2 : prev.1 + prev.2 / 2 + (cur.1 - prev.1 - prev.2 / 2 - cur.2 / 2) + cur.2 / 2 = cur.1 := by ring
        rw [p1, p2, ihc, iht, hlast]
        refine ⟨rfl, ?_⟩
        cases rest.getLast? with
        | none => simp; ring
        | some l => simp; ring
      · have e : Scalar.ltb (0:ℝ) (cur.1 - prev.1 - prev.2 / 2 - cur.2 / 2) = false := by
          rw [Scalar.real_ltb_false]; exact hpos
        have hz : cur.1 - prev.1 - prev.2 / 2 - cur.2 / 2 = 0 := le_antisymm (not_lt.mp hpos) (not_lt.mp hneg)
        simp only [e, Bool.false_eq_true, if_false, List.nil_append, centres, total, h20, List.map_cons]
        have p1 : prev.1 + prev.2 / 2 + cur.2 = cur.1 + cur.2 / 2 := by linarith
        have p2 : prev.1 + prev.2 / 2 + cur.2 / 2 = cur.1 := by linarith
        rw [p1, p2, ihc, iht, hlast]
        refine ⟨rfl, ?_⟩
        cases rest.getLast? with
        | none => simp; linarith
        | some l => simp; linarith

/-- **every element's centre sits at its tabulated position** (line starting at the entrance of the first element),
for every table the importer accepts; and the total length runs from the entrance of the first to the exit of the
last element -/
theorem fill_centres (r : ℝ × ℝ) (rest : List (ℝ × ℝ)) (out : List (Bool × ℝ)) (h : fill (r :: rest) = some out) :
    centres (r.1 - r.2 / 2) out = (r :: rest).map (·.1) ∧
    total out = (match (r :: rest).getLast? with | none => 0 | some l => l.1 + l.2 / 2) - (r.1 - r.2 / 2) := by
  simp only [fill, Option.map_eq_some_iff] at h
  obtain ⟨t, ht, rfl⟩ := h
  obtain ⟨hc, htot⟩ := fillGo_centres rest r t ht
  have h20 : (2.0:ℝ) = 2 := by norm_num
  simp only [centres, total, h20, List.map_cons]
  have p1 : r.1 - r.2 / 2 + r.2 = r.1 + r.2 / 2 := by ring
  have p2 : r.1 - r.2 / 2 + r.2 / 2 = r.1 := by ring
  rw [p1, p2, hc, htot]
  refine ⟨rfl, ?_⟩
  cases rest with
  | nil => simp
  | cons a q =>
    rw [List.getLast?_cons_cons]
    cases hl : (a :: q).getLast? with
    | none => simp at hl
    | some l => simp; ring

/-- the importer accepts exactly the tables without overlap: every gap `Δs − len/2 − len'/2` is non-negative -/
theorem fillGo_isSome (rest : List (ℝ × ℝ)) : ∀ prev : ℝ × ℝ,
    (fillGo prev rest).isSome = true ↔
      List.IsChain (fun a b : ℝ × ℝ => 0 ≤ b.1 - a.1 - a.2 / 2 - b.2 / 2) (prev :: rest) := by
  induction rest with
  | nil => intro prev; simp [fillGo]
  | cons cur rest ih =>
    intro prev
    have h20 : (2.0:ℝ) = 2 := by norm_num
    have h00 : (0.0:ℝ) = 0 := by norm_num
    simp only [fillGo, h20, h00, List.isChain_cons_cons]
    by_cases hneg : cur.1 - prev.1 - prev.2 / 2 - cur.2 / 2 < 0
    · have e : Scalar.ltb (cur.1 - prev.1 - prev.2 / 2 - cur.2 / 2) (0:ℝ) = true := by rw [Scalar.real_ltb]; exact hneg
      simp [e, not_le.mpr hneg]
    · have e : Scalar.ltb (cur.1 - prev.1 - prev.2 / 2 - cur.2 / 2) (0:ℝ) = false := by
        rw [Scalar.real_ltb_false]; exact hneg
      simp only [e, Bool.false_eq_true, if_false, Option.isSome_map, ih cur]
      simp [not_lt.mp hneg]

end Nx
