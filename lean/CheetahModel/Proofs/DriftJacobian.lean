import CheetahModel.Proofs.DualSound
import CheetahModel.Proofs.BmadxProofs
/-!
# Jacobian of the Bmad-X drift at the design orbit = the linear drift map (C07), by verified forward-mode differentiation

Each partial derivative is obtained by *running the model on dual numbers*: `tracks_all` derives, operation by operation
(soundness lemmas of `DualSound.lean`), that the dual evaluation of `Drift._track_bmadx` (coordinate conversions
included) carries the value and the true derivative of the real evaluation; the side conditions (non-zero denominators
and radicands at the design orbit) follow from `mc² < E₀`; the tangent is then simplified to the closed form.
`∂x/∂px = ∂y/∂py = L`, `∂τ/∂δ = −L·m²/(E₀²−m²) = −L/(β²γ²)` (the linear map's R56), the diagonal is 1, and the
chromatic cross terms vanish on the design orbit.
-/
open Scalar

/-- one derivation step of `Tracks` -/
macro "tracks_step" : tactic =>
  `(tactic| first
    | exact Tracks.var _
    | exact Tracks.const _ _
    | exact Tracks.lit _ _ _ _
    | apply Tracks.add
    | apply Tracks.sub
    | apply Tracks.mul
    | apply Tracks.neg
    | apply Tracks.div
    | apply Tracks.sqrt
    | apply Tracks.sin
    | apply Tracks.cos)

/-- derive `Tracks dual_expression ?f x` completely; what remains are the side conditions -/
macro "tracks_all" : tactic => `(tactic| repeat (any_goals tracks_step))

namespace DriftJacobian
variable (L E0 m : ℝ)

/-- `∂x/∂px = L` (R12 of the drift) -/
theorem dx_dpx (hm : 0 < m) (hE : m < E0) :
    HasDerivAt (fun t => (bmadxDrift L ⟨0, t, 0, 0, 0, 0, 1⟩ E0 m).1.a0) (L) 0 := by
  have hp : 0 < E0 * E0 - m * m := by nlinarith
  have hs : 0 < √(E0 * E0 - m * m) := Real.sqrt_pos.mpr hp
  have hpn : E0 * E0 - m * m ≠ 0 := hp.ne'
  have hsn : √(E0 * E0 - m * m) ≠ 0 := hs.ne'
  have hE0 : E0 ≠ 0 := by linarith
  obtain ⟨f, hf, hfe⟩ : ∃ f : ℝ → ℝ, Tracks ((bmadxDrift (Dual.const L) ⟨Dual.const 0, Dual.var 0, Dual.const 0, Dual.const 0, Dual.const 0, Dual.const 0, Dual.const 1⟩
        (Dual.const E0) (Dual.const m)).1.a0) f 0 ∧ f = (fun t => (bmadxDrift L ⟨0, t, 0, 0, 0, 0, 1⟩ E0 m).1.a0) := by
    exact ⟨_, by
      dsimp only [bmadxDrift, vecToBP, bpToVec, toBmad, toCheetah, trackADrift, sqrtOne]
      tracks_all
      all_goals first
        | assumption
        | (((try simp only [zero_mul, mul_zero, add_zero, zero_add, sub_self, zero_div, neg_zero, sub_zero]); norm_num) <;>
           first | assumption | positivity | (constructor <;> first | assumption | positivity)), by
      funext t
      rfl⟩
  subst hfe
  refine hf.2.congr_deriv ?_
  have hpp : √(E0 * E0 - m * m) * √(E0 * E0 - m * m) = E0 * E0 - m * m := Real.mul_self_sqrt hp.le
  have h10 : (1.0:ℝ) = 1 := by norm_num
  have h20 : (2.0:ℝ) = 2 := by norm_num
  have h00 : (0.0:ℝ) = 0 := by norm_num
  have h2 : √(√(E0 * E0 - m * m) * √(E0 * E0 - m * m) + m * m) = E0 := by
    rw [hpp, show E0 * E0 - m * m + m * m = E0 * E0 by ring, Real.sqrt_mul_self (by linarith)]
  have hsn' : √(E0 ^ 2 - m ^ 2) ≠ 0 := by rw [show E0 ^ 2 - m ^ 2 = E0 * E0 - m * m by ring]; exact hsn
  simp [bmadxDrift, vecToBP, bpToVec, toBmad, toCheetah, trackADrift, sqrtOne, Dual.lit_v, Dual.lit_d]
  all_goals try simp only [h10, h20, h00, Real.sqrt_one, one_mul, mul_one, zero_mul, mul_zero, add_zero, zero_add, sub_zero,
    zero_div, sub_self, neg_zero, div_one]
  all_goals (try rw [h2])
  all_goals (first | (norm_num; done) | (field_simp; done) | (field_simp; ring))

/-- `∂y/∂py = L` (R34) -/
theorem dy_dpy (hm : 0 < m) (hE : m < E0) :
    HasDerivAt (fun t => (bmadxDrift L ⟨0, 0, 0, t, 0, 0, 1⟩ E0 m).1.a2) (L) 0 := by
  have hp : 0 < E0 * E0 - m * m := by nlinarith
  have hs : 0 < √(E0 * E0 - m * m) := Real.sqrt_pos.mpr hp
  have hpn : E0 * E0 - m * m ≠ 0 := hp.ne'
  have hsn : √(E0 * E0 - m * m) ≠ 0 := hs.ne'
  have hE0 : E0 ≠ 0 := by linarith
  obtain ⟨f, hf, hfe⟩ : ∃ f : ℝ → ℝ, Tracks ((bmadxDrift (Dual.const L) ⟨Dual.const 0, Dual.const 0, Dual.const 0, Dual.var 0, Dual.const 0, Dual.const 0, Dual.const 1⟩
        (Dual.const E0) (Dual.const m)).1.a2) f 0 ∧ f = (fun t => (bmadxDrift L ⟨0, 0, 0, t, 0, 0, 1⟩ E0 m).1.a2) := by
    exact ⟨_, by
      dsimp only [bmadxDrift, vecToBP, bpToVec, toBmad, toCheetah, trackADrift, sqrtOne]
      tracks_all
      all_goals first
        | assumption
        | (((try simp only [zero_mul, mul_zero, add_zero, zero_add, sub_self, zero_div, neg_zero, sub_zero]); norm_num) <;>
           first | assumption | positivity | (constructor <;> first | assumption | positivity)), by
      funext t
      rfl⟩
  subst hfe
  refine hf.2.congr_deriv ?_
  have hpp : √(E0 * E0 - m * m) * √(E0 * E0 - m * m) = E0 * E0 - m * m := Real.mul_self_sqrt hp.le
  have h10 : (1.0:ℝ) = 1 := by norm_num
  have h20 : (2.0:ℝ) = 2 := by norm_num
  have h00 : (0.0:ℝ) = 0 := by norm_num
  have h2 : √(√(E0 * E0 - m * m) * √(E0 * E0 - m * m) + m * m) = E0 := by
    rw [hpp, show E0 * E0 - m * m + m * m = E0 * E0 by ring, Real.sqrt_mul_self (by linarith)]
  have hsn' : √(E0 ^ 2 - m ^ 2) ≠ 0 := by rw [show E0 ^ 2 - m ^ 2 = E0 * E0 - m * m by ring]; exact hsn
  simp [bmadxDrift, vecToBP, bpToVec, toBmad, toCheetah, trackADrift, sqrtOne, Dual.lit_v, Dual.lit_d]
  all_goals try simp only [h10, h20, h00, Real.sqrt_one, one_mul, mul_one, zero_mul, mul_zero, add_zero, zero_add, sub_zero,
    zero_div, sub_self, neg_zero, div_one]
  all_goals (try rw [h2])
  all_goals (first | (norm_num; done) | (field_simp; done) | (field_simp; ring))

/-- `∂τ/∂δ = −L·m²/(E₀²−m²)`, i.e. `−L/(β²γ²)` (R56) -/
theorem dtau_ddelta (hm : 0 < m) (hE : m < E0) :
    HasDerivAt (fun t => (bmadxDrift L ⟨0, 0, 0, 0, 0, t, 1⟩ E0 m).1.a4) (-(L * (m * m)) / (E0 * E0 - m * m)) 0 := by
  have hp : 0 < E0 * E0 - m * m := by nlinarith
  have hs : 0 < √(E0 * E0 - m * m) := Real.sqrt_pos.mpr hp
  have hpn : E0 * E0 - m * m ≠ 0 := hp.ne'
  have hsn : √(E0 * E0 - m * m) ≠ 0 := hs.ne'
  have hE0 : E0 ≠ 0 := by linarith
  obtain ⟨f, hf, hfe⟩ : ∃ f : ℝ → ℝ, Tracks ((bmadxDrift (Dual.const L) ⟨Dual.const 0, Dual.const 0, Dual.const 0, Dual.const 0, Dual.const 0, Dual.var 0, Dual.const 1⟩
        (Dual.const E0) (Dual.const m)).1.a4) f 0 ∧ f = (fun t => (bmadxDrift L ⟨0, 0, 0, 0, 0, t, 1⟩ E0 m).1.a4) := by
    exact ⟨_, by
      dsimp only [bmadxDrift, vecToBP, bpToVec, toBmad, toCheetah, trackADrift, sqrtOne]
      tracks_all
      all_goals first
        | assumption
        | (((try simp only [zero_mul, mul_zero, add_zero, zero_add, sub_self, zero_div, neg_zero, sub_zero]); norm_num) <;>
           first | assumption | positivity | (constructor <;> first | assumption | positivity)), by
      funext t
      rfl⟩
  subst hfe
  refine hf.2.congr_deriv ?_
  have hpp : √(E0 * E0 - m * m) * √(E0 * E0 - m * m) = E0 * E0 - m * m := Real.mul_self_sqrt hp.le
  have h10 : (1.0:ℝ) = 1 := by norm_num
  have h20 : (2.0:ℝ) = 2 := by norm_num
  have h00 : (0.0:ℝ) = 0 := by norm_num
  have h2 : √(√(E0 * E0 - m * m) * √(E0 * E0 - m * m) + m * m) = E0 := by
    rw [hpp, show E0 * E0 - m * m + m * m = E0 * E0 by ring, Real.sqrt_mul_self (by linarith)]
  have hsn' : √(E0 ^ 2 - m ^ 2) ≠ 0 := by rw [show E0 ^ 2 - m ^ 2 = E0 * E0 - m * m by ring]; exact hsn
  simp [bmadxDrift, vecToBP, bpToVec, toBmad, toCheetah, trackADrift, sqrtOne, Dual.lit_v, Dual.lit_d]
  all_goals try simp only [h10, h20, h00, Real.sqrt_one, one_mul, mul_one, zero_mul, mul_zero, add_zero, zero_add, sub_zero,
    zero_div, sub_self, neg_zero, div_one]
  rw [h2, hpp]
  rw [← hpp]
  set p := √(E0 * E0 - m * m) with hpdef
  have hpp' : E0 * E0 = p * p + m * m := by rw [hpp]; ring
  field_simp
  linear_combination (-L) * hpp'

/-- `∂τ/∂τ = 1` -/
theorem dtau_dtau (hm : 0 < m) (hE : m < E0) :
    HasDerivAt (fun t => (bmadxDrift L ⟨0, 0, 0, 0, t, 0, 1⟩ E0 m).1.a4) (1) 0 := by
  have hp : 0 < E0 * E0 - m * m := by nlinarith
  have hs : 0 < √(E0 * E0 - m * m) := Real.sqrt_pos.mpr hp
  have hpn : E0 * E0 - m * m ≠ 0 := hp.ne'
  have hsn : √(E0 * E0 - m * m) ≠ 0 := hs.ne'
  have hE0 : E0 ≠ 0 := by linarith
  obtain ⟨f, hf, hfe⟩ : ∃ f : ℝ → ℝ, Tracks ((bmadxDrift (Dual.const L) ⟨Dual.const 0, Dual.const 0, Dual.const 0, Dual.const 0, Dual.var 0, Dual.const 0, Dual.const 1⟩
        (Dual.const E0) (Dual.const m)).1.a4) f 0 ∧ f = (fun t => (bmadxDrift L ⟨0, 0, 0, 0, t, 0, 1⟩ E0 m).1.a4) := by
    exact ⟨_, by
      dsimp only [bmadxDrift, vecToBP, bpToVec, toBmad, toCheetah, trackADrift, sqrtOne]
      tracks_all
      all_goals first
        | assumption
        | (((try simp only [zero_mul, mul_zero, add_zero, zero_add, sub_self, zero_div, neg_zero, sub_zero]); norm_num) <;>
           first | assumption | positivity | (constructor <;> first | assumption | positivity)), by
      funext t
      rfl⟩
  subst hfe
  refine hf.2.congr_deriv ?_
  have hpp : √(E0 * E0 - m * m) * √(E0 * E0 - m * m) = E0 * E0 - m * m := Real.mul_self_sqrt hp.le
  have h10 : (1.0:ℝ) = 1 := by norm_num
  have h20 : (2.0:ℝ) = 2 := by norm_num
  have h00 : (0.0:ℝ) = 0 := by norm_num
  have h2 : √(√(E0 * E0 - m * m) * √(E0 * E0 - m * m) + m * m) = E0 := by
    rw [hpp, show E0 * E0 - m * m + m * m = E0 * E0 by ring, Real.sqrt_mul_self (by linarith)]
  have hsn' : √(E0 ^ 2 - m ^ 2) ≠ 0 := by rw [show E0 ^ 2 - m ^ 2 = E0 * E0 - m * m by ring]; exact hsn
  simp [bmadxDrift, vecToBP, bpToVec, toBmad, toCheetah, trackADrift, sqrtOne, Dual.lit_v, Dual.lit_d]
  all_goals try simp only [h10, h20, h00, Real.sqrt_one, one_mul, mul_one, zero_mul, mul_zero, add_zero, zero_add, sub_zero,
    zero_div, sub_self, neg_zero, div_one]
  all_goals (try rw [h2])
  all_goals (first | (norm_num; done) | (field_simp; done) | (field_simp; ring))

/-- `∂δ/∂δ = 1` -/
theorem ddelta_ddelta (hm : 0 < m) (hE : m < E0) :
    HasDerivAt (fun t => (bmadxDrift L ⟨0, 0, 0, 0, 0, t, 1⟩ E0 m).1.a5) (1) 0 := by
  have hp : 0 < E0 * E0 - m * m := by nlinarith
  have hs : 0 < √(E0 * E0 - m * m) := Real.sqrt_pos.mpr hp
  have hpn : E0 * E0 - m * m ≠ 0 := hp.ne'
  have hsn : √(E0 * E0 - m * m) ≠ 0 := hs.ne'
  have hE0 : E0 ≠ 0 := by linarith
  obtain ⟨f, hf, hfe⟩ : ∃ f : ℝ → ℝ, Tracks ((bmadxDrift (Dual.const L) ⟨Dual.const 0, Dual.const 0, Dual.const 0, Dual.const 0, Dual.const 0, Dual.var 0, Dual.const 1⟩
        (Dual.const E0) (Dual.const m)).1.a5) f 0 ∧ f = (fun t => (bmadxDrift L ⟨0, 0, 0, 0, 0, t, 1⟩ E0 m).1.a5) := by
    exact ⟨_, by
      dsimp only [bmadxDrift, vecToBP, bpToVec, toBmad, toCheetah, trackADrift, sqrtOne]
      tracks_all
      all_goals first
        | assumption
        | (((try simp only [zero_mul, mul_zero, add_zero, zero_add, sub_self, zero_div, neg_zero, sub_zero]); norm_num) <;>
           first | assumption | positivity | (constructor <;> first | assumption | positivity)), by
      funext t
      rfl⟩
  subst hfe
  refine hf.2.congr_deriv ?_
  have hpp : √(E0 * E0 - m * m) * √(E0 * E0 - m * m) = E0 * E0 - m * m := Real.mul_self_sqrt hp.le
  have h10 : (1.0:ℝ) = 1 := by norm_num
  have h20 : (2.0:ℝ) = 2 := by norm_num
  have h00 : (0.0:ℝ) = 0 := by norm_num
  have h2 : √(√(E0 * E0 - m * m) * √(E0 * E0 - m * m) + m * m) = E0 := by
    rw [hpp, show E0 * E0 - m * m + m * m = E0 * E0 by ring, Real.sqrt_mul_self (by linarith)]
  have hsn' : √(E0 ^ 2 - m ^ 2) ≠ 0 := by rw [show E0 ^ 2 - m ^ 2 = E0 * E0 - m * m by ring]; exact hsn
  simp [bmadxDrift, vecToBP, bpToVec, toBmad, toCheetah, trackADrift, sqrtOne, Dual.lit_v, Dual.lit_d]
  all_goals try simp only [h10, h20, h00, Real.sqrt_one, one_mul, mul_one, zero_mul, mul_zero, add_zero, zero_add, sub_zero,
    zero_div, sub_self, neg_zero, div_one]
  all_goals (try rw [h2])
  all_goals (first | (norm_num; done) | (field_simp; done) | (field_simp; ring))

/-- `∂x/∂x = 1` -/
theorem dx_dx (hm : 0 < m) (hE : m < E0) :
    HasDerivAt (fun t => (bmadxDrift L ⟨t, 0, 0, 0, 0, 0, 1⟩ E0 m).1.a0) (1) 0 := by
  have hp : 0 < E0 * E0 - m * m := by nlinarith
  have hs : 0 < √(E0 * E0 - m * m) := Real.sqrt_pos.mpr hp
  have hpn : E0 * E0 - m * m ≠ 0 := hp.ne'
  have hsn : √(E0 * E0 - m * m) ≠ 0 := hs.ne'
  have hE0 : E0 ≠ 0 := by linarith
  obtain ⟨f, hf, hfe⟩ : ∃ f : ℝ → ℝ, Tracks ((bmadxDrift (Dual.const L) ⟨Dual.var 0, Dual.const 0, Dual.const 0, Dual.const 0, Dual.const 0, Dual.const 0, Dual.const 1⟩
        (Dual.const E0) (Dual.const m)).1.a0) f 0 ∧ f = (fun t => (bmadxDrift L ⟨t, 0, 0, 0, 0, 0, 1⟩ E0 m).1.a0) := by
    exact ⟨_, by
      dsimp only [bmadxDrift, vecToBP, bpToVec, toBmad, toCheetah, trackADrift, sqrtOne]
      tracks_all
      all_goals first
        | assumption
        | (((try simp only [zero_mul, mul_zero, add_zero, zero_add, sub_self, zero_div, neg_zero, sub_zero]); norm_num) <;>
           first | assumption | positivity | (constructor <;> first | assumption | positivity)), by
      funext t
      rfl⟩
  subst hfe
  refine hf.2.congr_deriv ?_
  have hpp : √(E0 * E0 - m * m) * √(E0 * E0 - m * m) = E0 * E0 - m * m := Real.mul_self_sqrt hp.le
  have h10 : (1.0:ℝ) = 1 := by norm_num
  have h20 : (2.0:ℝ) = 2 := by norm_num
  have h00 : (0.0:ℝ) = 0 := by norm_num
  have h2 : √(√(E0 * E0 - m * m) * √(E0 * E0 - m * m) + m * m) = E0 := by
    rw [hpp, show E0 * E0 - m * m + m * m = E0 * E0 by ring, Real.sqrt_mul_self (by linarith)]
  have hsn' : √(E0 ^ 2 - m ^ 2) ≠ 0 := by rw [show E0 ^ 2 - m ^ 2 = E0 * E0 - m * m by ring]; exact hsn
  simp [bmadxDrift, vecToBP, bpToVec, toBmad, toCheetah, trackADrift, sqrtOne, Dual.lit_v, Dual.lit_d]
  all_goals try simp only [h10, h20, h00, Real.sqrt_one, one_mul, mul_one, zero_mul, mul_zero, add_zero, zero_add, sub_zero,
    zero_div, sub_self, neg_zero, div_one]
  all_goals (try rw [h2])
  all_goals (first | (norm_num; done) | (field_simp; done) | (field_simp; ring))

/-- `∂x/∂δ = 0` on the design orbit (no dispersion in a drift) -/
theorem dx_ddelta (hm : 0 < m) (hE : m < E0) :
    HasDerivAt (fun t => (bmadxDrift L ⟨0, 0, 0, 0, 0, t, 1⟩ E0 m).1.a0) (0) 0 := by
  have hp : 0 < E0 * E0 - m * m := by nlinarith
  have hs : 0 < √(E0 * E0 - m * m) := Real.sqrt_pos.mpr hp
  have hpn : E0 * E0 - m * m ≠ 0 := hp.ne'
  have hsn : √(E0 * E0 - m * m) ≠ 0 := hs.ne'
  have hE0 : E0 ≠ 0 := by linarith
  obtain ⟨f, hf, hfe⟩ : ∃ f : ℝ → ℝ, Tracks ((bmadxDrift (Dual.const L) ⟨Dual.const 0, Dual.const 0, Dual.const 0, Dual.const 0, Dual.const 0, Dual.var 0, Dual.const 1⟩
        (Dual.const E0) (Dual.const m)).1.a0) f 0 ∧ f = (fun t => (bmadxDrift L ⟨0, 0, 0, 0, 0, t, 1⟩ E0 m).1.a0) := by
    exact ⟨_, by
      dsimp only [bmadxDrift, vecToBP, bpToVec, toBmad, toCheetah, trackADrift, sqrtOne]
      tracks_all
      all_goals first
        | assumption
        | (((try simp only [zero_mul, mul_zero, add_zero, zero_add, sub_self, zero_div, neg_zero, sub_zero]); norm_num) <;>
           first | assumption | positivity | (constructor <;> first | assumption | positivity)), by
      funext t
      rfl⟩
  subst hfe
  refine hf.2.congr_deriv ?_
  have hpp : √(E0 * E0 - m * m) * √(E0 * E0 - m * m) = E0 * E0 - m * m := Real.mul_self_sqrt hp.le
  have h10 : (1.0:ℝ) = 1 := by norm_num
  have h20 : (2.0:ℝ) = 2 := by norm_num
  have h00 : (0.0:ℝ) = 0 := by norm_num
  have h2 : √(√(E0 * E0 - m * m) * √(E0 * E0 - m * m) + m * m) = E0 := by
    rw [hpp, show E0 * E0 - m * m + m * m = E0 * E0 by ring, Real.sqrt_mul_self (by linarith)]
  have hsn' : √(E0 ^ 2 - m ^ 2) ≠ 0 := by rw [show E0 ^ 2 - m ^ 2 = E0 * E0 - m * m by ring]; exact hsn
  simp [bmadxDrift, vecToBP, bpToVec, toBmad, toCheetah, trackADrift, sqrtOne, Dual.lit_v, Dual.lit_d]
  all_goals try simp only [h10, h20, h00, Real.sqrt_one, one_mul, mul_one, zero_mul, mul_zero, add_zero, zero_add, sub_zero,
    zero_div, sub_self, neg_zero, div_one]
  all_goals (try rw [h2])
  all_goals (first | (norm_num; done) | (field_simp; done) | (field_simp; ring))

/-- `∂τ/∂px = 0` on the design orbit -/
theorem dtau_dpx (hm : 0 < m) (hE : m < E0) :
    HasDerivAt (fun t => (bmadxDrift L ⟨0, t, 0, 0, 0, 0, 1⟩ E0 m).1.a4) (0) 0 := by
  have hp : 0 < E0 * E0 - m * m := by nlinarith
  have hs : 0 < √(E0 * E0 - m * m) := Real.sqrt_pos.mpr hp
  have hpn : E0 * E0 - m * m ≠ 0 := hp.ne'
  have hsn : √(E0 * E0 - m * m) ≠ 0 := hs.ne'
  have hE0 : E0 ≠ 0 := by linarith
  obtain ⟨f, hf, hfe⟩ : ∃ f : ℝ → ℝ, Tracks ((bmadxDrift (Dual.const L) ⟨Dual.const 0, Dual.var 0, Dual.const 0, Dual.const 0, Dual.const 0, Dual.const 0, Dual.const 1⟩
        (Dual.const E0) (Dual.const m)).1.a4) f 0 ∧ f = (fun t => (bmadxDrift L ⟨0, t, 0, 0, 0, 0, 1⟩ E0 m).1.a4) := by
    exact ⟨_, by
      dsimp only [bmadxDrift, vecToBP, bpToVec, toBmad, toCheetah, trackADrift, sqrtOne]
      tracks_all
      all_goals first
        | assumption
        | (((try simp only [zero_mul, mul_zero, add_zero, zero_add, sub_self, zero_div, neg_zero, sub_zero]); norm_num) <;>
           first | assumption | positivity | (constructor <;> first | assumption | positivity)), by
      funext t
      rfl⟩
  subst hfe
  refine hf.2.congr_deriv ?_
  have hpp : √(E0 * E0 - m * m) * √(E0 * E0 - m * m) = E0 * E0 - m * m := Real.mul_self_sqrt hp.le
  have h10 : (1.0:ℝ) = 1 := by norm_num
  have h20 : (2.0:ℝ) = 2 := by norm_num
  have h00 : (0.0:ℝ) = 0 := by norm_num
  have h2 : √(√(E0 * E0 - m * m) * √(E0 * E0 - m * m) + m * m) = E0 := by
    rw [hpp, show E0 * E0 - m * m + m * m = E0 * E0 by ring, Real.sqrt_mul_self (by linarith)]
  have hsn' : √(E0 ^ 2 - m ^ 2) ≠ 0 := by rw [show E0 ^ 2 - m ^ 2 = E0 * E0 - m * m by ring]; exact hsn
  simp [bmadxDrift, vecToBP, bpToVec, toBmad, toCheetah, trackADrift, sqrtOne, Dual.lit_v, Dual.lit_d]
  all_goals try simp only [h10, h20, h00, Real.sqrt_one, one_mul, mul_one, zero_mul, mul_zero, add_zero, zero_add, sub_zero,
    zero_div, sub_self, neg_zero, div_one]
  all_goals (try rw [h2])
  all_goals (first | (norm_num; done) | (field_simp; done) | (field_simp; ring))

end DriftJacobian
