import CheetahModel.Proofs.DriftSymplectic
import Mathlib.LinearAlgebra.Matrix.NonsingularInverse
/-!
# (τ, δ) ↔ (z, pz) is anti-canonical: why Cheetah's symplectic form carries −J in the third pair (C03, C18)

`cheetah_to_bmad_z_pz` maps `(τ, δ)` to `(z, pz) = (−β(δ)·τ, (p(δ) − p₀)/p₀)`.  Its 2×2 Jacobian is
`[[−β, −β'(δ)·τ], [0, 1/β]]` — every entry by `HasDerivAt` — with determinant `−1`, so `kᵀ J k = −J`: the canonical form
`S₃ = blockdiag(J, J, J)` of Bmad's coordinates pulls back to `S₆ = blockdiag(J, J, −J)` in Cheetah's.  Consequently any
map that is `S₃`-symplectic in Bmad coordinates (the Bmad-X drift kernel, `DriftSympl.jacobian_symplectic`) is
`S₆`-symplectic when written in Cheetah coordinates (`conj_symplectic`, for the matrices the chain rule composes).
-/
open Scalar Matrix

namespace CoordSympl

/-- particle momentum·c, energy and velocity as functions of δ -/
noncomputable def pc (E0 m d : ℝ) : ℝ := √((E0 + d * √(E0 * E0 - m * m)) * (E0 + d * √(E0 * E0 - m * m)) - m * m)
noncomputable def en (E0 m d : ℝ) : ℝ := E0 + d * √(E0 * E0 - m * m)
noncomputable def beta (E0 m d : ℝ) : ℝ := pc E0 m d / en E0 m d

theorem toBmad_z (tau d E0 m : ℝ) : (toBmad tau d E0 m).z = -(beta E0 m d) * tau := by
  rw [toBmad_eq]; rfl
theorem toBmad_pz (tau d E0 m : ℝ) : (toBmad tau d E0 m).pz = (pc E0 m d - √(E0 * E0 - m * m)) / √(E0 * E0 - m * m) := by
  rw [toBmad_eq]; rfl

theorem en_deriv (E0 m d : ℝ) : HasDerivAt (en E0 m) (√(E0 * E0 - m * m)) d := by
  unfold en
  simpa using ((hasDerivAt_id d).mul_const (√(E0 * E0 - m * m))).const_add E0

/-- `d(pc)/dδ = E·p₀c / pc` -/
theorem pc_deriv (E0 m d : ℝ) (hp : 0 < en E0 m d * en E0 m d - m * m) :
    HasDerivAt (pc E0 m) (en E0 m d * √(E0 * E0 - m * m) / pc E0 m d) d := by
  have he := en_deriv E0 m d
  have h2 : HasDerivAt (fun t => en E0 m t * en E0 m t - m * m)
      (√(E0 * E0 - m * m) * en E0 m d + en E0 m d * √(E0 * E0 - m * m)) d := (he.mul he).sub_const _
  have := h2.sqrt hp.ne'
  refine this.congr_deriv ?_
  have hq : 0 < √(en E0 m d * en E0 m d - m * m) := Real.sqrt_pos.mpr hp
  unfold pc; unfold en at hq ⊢
  field_simp; ring

section
variable (E0 m d tau : ℝ) (hE : 0 < en E0 m d) (hp : 0 < en E0 m d * en E0 m d - m * m) (hp0 : 0 < E0 * E0 - m * m)
include hE hp

/-- `dβ/dδ = p₀c·m² / (pc·E²)` -/
theorem beta_deriv : HasDerivAt (beta E0 m)
    (√(E0 * E0 - m * m) * (m * m) / (pc E0 m d * (en E0 m d * en E0 m d))) d := by
  have hpc := pc_deriv E0 m d hp
  have he := en_deriv E0 m d
  have hq : 0 < pc E0 m d := Real.sqrt_pos.mpr hp
  have hqq : pc E0 m d * pc E0 m d = en E0 m d * en E0 m d - m * m := Real.mul_self_sqrt hp.le
  refine (hpc.div he hE.ne').congr_deriv ?_
  have hEne := hE.ne'
  have hqne := hq.ne'
  generalize √(E0 * E0 - m * m) = s0
  field_simp
  linear_combination (-s0) * hqq

/-- ∂z/∂τ = −β -/
theorem dz_dtau : HasDerivAt (fun t => (toBmad t d E0 m).z) (-(beta E0 m d)) tau := by
  simp only [toBmad_z]
  simpa using (hasDerivAt_id tau).const_mul (-(beta E0 m d))

/-- ∂z/∂δ = −β'(δ)·τ -/
theorem dz_ddelta : HasDerivAt (fun t => (toBmad tau t E0 m).z)
    (-(√(E0 * E0 - m * m) * (m * m) / (pc E0 m d * (en E0 m d * en E0 m d))) * tau) d := by
  simp only [toBmad_z]
  exact ((beta_deriv E0 m d hE hp).neg).mul_const tau

omit hE hp in
/-- ∂pz/∂τ = 0 -/
theorem dpz_dtau : HasDerivAt (fun t => (toBmad t d E0 m).pz) 0 tau := by
  simp only [toBmad_pz]; exact hasDerivAt_const _ _

include hp0
/-- ∂pz/∂δ = E/pc = 1/β -/
theorem dpz_ddelta : HasDerivAt (fun t => (toBmad tau t E0 m).pz) (1 / beta E0 m d) d := by
  simp only [toBmad_pz]
  have hs : 0 < √(E0 * E0 - m * m) := Real.sqrt_pos.mpr hp0
  have hq : 0 < pc E0 m d := Real.sqrt_pos.mpr hp
  refine (((pc_deriv E0 m d hp).sub_const _).div_const _).congr_deriv ?_
  unfold beta
  have := hq.ne'; have := hE.ne'
  revert hs
  generalize √(E0 * E0 - m * m) = s0
  intro hs
  have := hs.ne'
  field_simp

/-- **the Jacobian of (τ, δ) ↦ (z, pz) has determinant −1** -/
theorem jacobian_det :
    (!![-(beta E0 m d), -(√(E0 * E0 - m * m) * (m * m) / (pc E0 m d * (en E0 m d * en E0 m d))) * tau;
        0, 1 / beta E0 m d] : Matrix (Fin 2) (Fin 2) ℝ).det = -1 := by
  have hq : 0 < pc E0 m d := Real.sqrt_pos.mpr hp
  have hb : beta E0 m d ≠ 0 := div_ne_zero hq.ne' hE.ne'
  rw [Matrix.det_fin_two_of]; field_simp; ring

end

/-- for 2×2 matrices `kᵀ J k = det(k)·J` -/
theorem two_by_two (k : Matrix (Fin 2) (Fin 2) ℝ) :
    kᵀ * !![0, 1; -1, 0] * k = k.det • (!![0, 1; -1, 0] : Matrix (Fin 2) (Fin 2) ℝ) := by
  ext i j
  fin_cases i <;> fin_cases j <;> simp [Matrix.mul_apply, Fin.sum_univ_two, Matrix.det_fin_two] <;> ring

/-- the change of coordinates as a 6×6 matrix: identity on the transverse pairs, `k` on the longitudinal pair -/
def lift (k : Matrix (Fin 2) (Fin 2) ℝ) : Matrix (Fin 6) (Fin 6) ℝ :=
  !![1, 0, 0, 0, 0, 0; 0, 1, 0, 0, 0, 0; 0, 0, 1, 0, 0, 0; 0, 0, 0, 1, 0, 0;
     0, 0, 0, 0, k 0 0, k 0 1; 0, 0, 0, 0, k 1 0, k 1 1]

/-- Cheetah's form: the third pair sign-flipped -/
def S6c : Matrix (Fin 6) (Fin 6) ℝ :=
  !![0, 1, 0, 0, 0, 0; -1, 0, 0, 0, 0, 0; 0, 0, 0, 1, 0, 0; 0, 0, -1, 0, 0, 0; 0, 0, 0, 0, 0, -1; 0, 0, 0, 0, 1, 0]

/-- a longitudinal change of coordinates of determinant −1 pulls the canonical form back to Cheetah's -/
theorem lift_pullback (k : Matrix (Fin 2) (Fin 2) ℝ) (hk : k.det = -1) :
    (lift k)ᵀ * DriftSympl.S3 * lift k = S6c := by
  have h := two_by_two k
  rw [hk] at h
  have e01 := congrFun (congrFun h 0) 1
  have e10 := congrFun (congrFun h 1) 0
  have e00 := congrFun (congrFun h 0) 0
  have e11 := congrFun (congrFun h 1) 1
  simp [Matrix.mul_apply, Fin.sum_univ_two] at e01 e10 e00 e11
  ext i j
  fin_cases i <;> fin_cases j <;>
    simp [lift, S6c, DriftSympl.S3, Matrix.mul_apply, Fin.sum_univ_succ] <;> linarith

theorem S6c_sq : S6c * S6c = -1 := by
  ext i j
  fin_cases i <;> fin_cases j <;> simp [S6c, Matrix.mul_apply, Fin.sum_univ_succ]

/-- such a change of coordinates is invertible -/
theorem lift_isUnit (k : Matrix (Fin 2) (Fin 2) ℝ) (hk : k.det = -1) : IsUnit (lift k).det := by
  have h := congrArg Matrix.det (lift_pullback k hk)
  rw [Matrix.det_mul, Matrix.det_mul, Matrix.det_transpose] at h
  have h6 : S6c.det * S6c.det = 1 := by
    rw [← Matrix.det_mul, S6c_sq, Matrix.det_neg, Matrix.det_one]; norm_num
  have hne : S6c.det ≠ 0 := fun e => by rw [e] at h6; norm_num at h6
  refine isUnit_iff_ne_zero.mpr (fun e => hne ?_)
  rw [← h, e]; ring

/-- **a map that is canonical in Bmad coordinates is `S₆`-symplectic in Cheetah coordinates**: for coordinate-change
Jacobians `K₁` (at the entrance) and `K₂` (at the exit) that pull `S₃` back to `S₆`, and an `S₃`-symplectic `J`, the
chain-rule product `K₂⁻¹ J K₁` preserves `S₆` -/
theorem conj_symplectic (K1 K2 J : Matrix (Fin 6) (Fin 6) ℝ) (h1 : K1ᵀ * DriftSympl.S3 * K1 = S6c)
    (h2 : K2ᵀ * DriftSympl.S3 * K2 = S6c) (hJ : Jᵀ * DriftSympl.S3 * J = DriftSympl.S3) (hdet : IsUnit K2.det) :
    (K2⁻¹ * J * K1)ᵀ * S6c * (K2⁻¹ * J * K1) = S6c := by
  have hinv : K2 * K2⁻¹ = 1 := Matrix.mul_nonsing_inv K2 hdet
  have hinvT : (K2⁻¹)ᵀ * K2ᵀ = 1 := by rw [← Matrix.transpose_mul, hinv, Matrix.transpose_one]
  have key : (K2⁻¹)ᵀ * S6c * K2⁻¹ = DriftSympl.S3 := by
    rw [← h2]
    calc (K2⁻¹)ᵀ * (K2ᵀ * DriftSympl.S3 * K2) * K2⁻¹
        = ((K2⁻¹)ᵀ * K2ᵀ) * DriftSympl.S3 * (K2 * K2⁻¹) := by simp only [Matrix.mul_assoc]
      _ = DriftSympl.S3 := by rw [hinvT, hinv, Matrix.one_mul, Matrix.mul_one]
  calc (K2⁻¹ * J * K1)ᵀ * S6c * (K2⁻¹ * J * K1)
      = K1ᵀ * (Jᵀ * ((K2⁻¹)ᵀ * S6c * K2⁻¹) * J) * K1 := by
        simp only [Matrix.transpose_mul, Matrix.mul_assoc]
    _ = K1ᵀ * (Jᵀ * DriftSympl.S3 * J) * K1 := by rw [key]
    _ = S6c := by rw [hJ, h1]

end CoordSympl
