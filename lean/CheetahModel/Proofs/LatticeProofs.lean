import CheetahModel.Lattice
/-!
# Theorems about the segment algorithms (core Lean; axioms: `propext` at most)
-/
namespace Lat
variable {E S M En : Type} (σ : Sem E S M En)

theorem seq_append (a b : List (Lat E)) (s : S) : seq σ (a ++ b) s = seq σ b (seq σ a s) := by
  induction a generalizing s with
  | nil => simp [seq]
  | cons l a ih => simp [seq, ih]

theorem skipL_append (a b : List (Lat E)) : skipL σ (a ++ b) = (skipL σ a && skipL σ b) := by
  induction a with
  | nil => simp [skipL]
  | cons l a ih => simp [skipL, ih, Bool.and_assoc]

mutual
/-- A skippable lattice acts as its transfer map at the entrance energy. -/
theorem track_skip (h : σ.Lawful) : ∀ (l : Lat E), skip σ l = true →
    ∀ s, track σ l s = σ.act (tmap σ (σ.energy s) l) s
  | .elem e, hl, s => by
      simp only [track, tmap]; exact h.contract e s (by simpa [skip] using hl)
  | .seg ls, hl, s => by
      have hl' : skipL σ ls = true := by simpa [skip] using hl
      simp only [track, tmap, hl', if_true]
/-- Folding maps of an all-skippable list equals tracking it element by element. -/
theorem tmapL_seq (h : σ.Lawful) : ∀ (ls : List (Lat E)), skipL σ ls = true →
    ∀ (tm : M) (s0 : S), σ.act (tmapL σ (σ.energy s0) ls tm) s0 = seq σ ls (σ.act tm s0)
  | [], _, tm, s0 => by simp [tmapL, seq]
  | l :: ls, hl, tm, s0 => by
      have hl1 : skip σ l = true := by
        simp only [skipL, Bool.and_eq_true] at hl; exact hl.1
      have hl2 : skipL σ ls = true := by
        simp only [skipL, Bool.and_eq_true] at hl; exact hl.2
      simp only [tmapL, seq]
      rw [tmapL_seq h ls hl2, h.act_mul, track_skip h l hl1, h.act_energy]
end

theorem flush_eq_seq (h : σ.Lawful) (run : List (Lat E)) (hr : skipL σ run = true) (s : S) :
    flush σ run s = seq σ run s := by
  cases run with
  | nil => simp [flush, seq]
  | cons l run =>
      simp only [flush]
      rw [tmapL_seq σ h (l :: run) hr, h.act_one]

theorem trackTodo_eq_seq (h : σ.Lawful) : ∀ (ls run : List (Lat E)), skipL σ run = true →
    ∀ s, trackTodo σ ls run s = seq σ ls (seq σ run s)
  | [], run, hr, s => by simp [trackTodo, seq, flush_eq_seq σ h run hr]
  | l :: ls, run, hr, s => by
      simp only [trackTodo]
      by_cases hl : skip σ l = true
      · simp only [hl, if_true]
        have hr' : skipL σ (run ++ [l]) = true := by
          simp [skipL_append, hr, skipL, hl]
        rw [trackTodo_eq_seq h ls (run ++ [l]) hr', seq_append]
        simp [seq]
      · simp only [hl, Bool.false_eq_true, if_false]
        rw [trackTodo_eq_seq h ls [] (by simp [skipL]), flush_eq_seq σ h run hr]
        simp [seq]

/-- **C01 core**: tracking a segment is tracking its elements one after another, in lattice order. -/
theorem track_seg_eq_seq (h : σ.Lawful) (ls : List (Lat E)) (s : S) :
    track σ (.seg ls) s = seq σ ls s := by
  simp only [track]
  by_cases hs : skipL σ ls = true
  · simp only [hs, if_true]
    rw [tmapL_seq σ h ls hs, h.act_one]
  · simp only [hs, Bool.false_eq_true, if_false]
    rw [trackTodo_eq_seq σ h ls [] (by simp [skipL])]
    simp [seq]

/-- nesting any consecutive sub-list into a sub-segment does not change the result -/
theorem track_nest (h : σ.Lawful) (a b c : List (Lat E)) (s : S) :
    track σ (.seg (a ++ [.seg b] ++ c)) s = track σ (.seg (a ++ b ++ c)) s := by
  rw [track_seg_eq_seq σ h, track_seg_eq_seq σ h]
  simp only [seq_append, seq, track_seg_eq_seq σ h]

mutual
theorem seq_flat (h : σ.Lawful) : ∀ (l : Lat E) (s : S), seq σ (flat l) s = track σ l s
  | .elem e, s => by simp [flat, seq]
  | .seg ls, s => by
      rw [track_seg_eq_seq σ h]
      simp only [flat]
      exact seq_flatL h ls s
theorem seq_flatL (h : σ.Lawful) : ∀ (ls : List (Lat E)) (s : S), seq σ (flatL ls) s = seq σ ls s
  | [], s => by simp [flatL]
  | l :: ls, s => by
      simp only [flatL, seq_append, seq]
      rw [seq_flat h l s, seq_flatL h ls]
end

/-- flattening nested segments does not change the result -/
theorem track_flatten (h : σ.Lawful) (ls : List (Lat E)) (s : S) :
    track σ (.seg (flatL ls)) s = track σ (.seg ls) s := by
  rw [track_seg_eq_seq σ h, track_seg_eq_seq σ h, seq_flatL σ h]

/-- cutting the lattice into consecutive sub-cells and tracking them in turn -/
theorem track_cut (h : σ.Lawful) (a b : List (Lat E)) (s : S) :
    track σ (.seg (a ++ b)) s = track σ (.seg b) (track σ (.seg a) s) := by
  simp only [track_seg_eq_seq σ h, seq_append]

section Length
variable {L : Type} (zero : L) (add : L → L → L) (len : E → L)

theorem lengthL_append (hz : ∀ x, add zero x = x) (hassoc : ∀ x y z, add (add x y) z = add x (add y z))
    (a b : List (Lat E)) :
    lengthL zero add len (a ++ b) = add (lengthL zero add len a) (lengthL zero add len b) := by
  induction a with
  | nil => simp [lengthL, hz]
  | cons l a ih => simp [lengthL, ih, hassoc]

mutual
theorem lengthL_flat (hz : ∀ x, add zero x = x) (hz' : ∀ x, add x zero = x)
    (hassoc : ∀ x y z, add (add x y) z = add x (add y z)) :
    ∀ l : Lat E, lengthL zero add len (flat l) = length zero add len l
  | .elem e => by simp [flat, lengthL, length, hz']
  | .seg ls => by simp only [flat, length]; exact lengthL_flatL hz hz' hassoc ls
theorem lengthL_flatL (hz : ∀ x, add zero x = x) (hz' : ∀ x, add x zero = x)
    (hassoc : ∀ x y z, add (add x y) z = add x (add y z)) :
    ∀ ls : List (Lat E), lengthL zero add len (flatL ls) = lengthL zero add len ls
  | [] => by simp [flatL]
  | l :: ls => by
      simp only [flatL, lengthL]
      rw [lengthL_append zero add len hz hassoc, lengthL_flat hz hz' hassoc l, lengthL_flatL hz hz' hassoc ls]
end
end Length

/-! ## subcell -/

theorem subcellAux_sublist {N : Type} [DecidableEq N] (name : Lat E → N) (start stop : N) :
    ∀ (ls : List (Lat E)) (inside : Bool), (subcellAux name start stop ls inside).Sublist ls
  | [], _ => by simp [subcellAux]
  | l :: ls, inside => by
      simp only [subcellAux]
      split
      · split
        · exact List.Sublist.cons_cons _ (List.nil_sublist _)
        · exact List.nil_sublist _
      · split
        · exact List.Sublist.cons_cons _ (subcellAux_sublist name start stop ls _)
        · exact List.Sublist.cons _ (subcellAux_sublist name start stop ls _)

/-- once inside, `subcell` returns the prefix up to and including the first `stop` -/
theorem subcellAux_inside {N : Type} [DecidableEq N] (name : Lat E → N) (start stop : N) :
    ∀ (ls : List (Lat E)), (∀ l ∈ ls, name l ≠ stop) → subcellAux name start stop ls true = ls
  | [], _ => by simp [subcellAux]
  | l :: ls, hn => by
      have h1 : name l ≠ stop := hn l (by simp)
      simp only [subcellAux, Bool.true_or, if_true, h1, if_false]
      rw [subcellAux_inside name start stop ls (fun l' hl' => hn l' (by simp [hl']))]
      rfl

/-- `subcell(start, end)` of `pre ++ [s] ++ mid ++ [e] ++ post` with `start`, `end` not named earlier
is exactly `[s] ++ mid ++ [e]` -/
theorem subcell_spec {N : Type} [DecidableEq N] (name : Lat E → N) (start stop : N)
    (pre mid post : List (Lat E)) (s e : Lat E) (hs : name s = start) (he : name e = stop)
    (hpre : ∀ l ∈ pre, name l ≠ start ∧ name l ≠ stop) (hsn : name s ≠ stop)
    (hmid : ∀ l ∈ mid, name l ≠ stop) :
    subcell name start stop (pre ++ [s] ++ mid ++ [e] ++ post) = [s] ++ mid ++ [e] := by
  unfold subcell
  induction pre with
  | cons p pre ih =>
      have hp := hpre p (by simp)
      simp only [List.cons_append, subcellAux, Bool.false_or, hp.1, decide_false, hp.2, if_false,
        Bool.false_eq_true]
      simpa using ih (fun l hl => hpre l (by simp [hl]))
  | nil =>
      simp only [List.nil_append, List.cons_append, subcellAux, hs, decide_true, Bool.or_true, if_true]
      rw [hs] at hsn
      simp only [hsn, if_false]
      -- now inside: walk through mid, stop at e
      clear hpre
      induction mid with
      | nil => simp [subcellAux, he]
      | cons m mid ih2 =>
          have hm := hmid m (by simp)
          simp only [List.cons_append, subcellAux, Bool.true_or, if_true, hm, if_false]
          have := ih2 (fun l hl => hmid l (by simp [hl]))
          simp only [List.nil_append, List.singleton_append] at this ⊢
          have h2 := List.cons.inj this
          rw [h2.2]

/-! ## transfer_maps_merged -/
variable (c : Custom σ) (keep : Lat E → Bool)

theorem seq_custom (h : σ.Lawful) (run : List (Lat E)) (hr : skipL σ run = true) (tr : S) :
    seq σ [.elem (c.mkE (tmapL σ (σ.energy tr) run σ.one))] tr = seq σ run tr := by
  simp only [seq, track]
  rw [h.contract _ _ (c.skippable _), c.map, tmapL_seq σ h run hr, h.act_one]

theorem seq_closeRun (h : σ.Lawful) (run : List (Lat E)) (hr : skipL σ run = true) (tr : S) :
    seq σ (closeRun σ c run tr) tr = seq σ run tr := by
  match run, hr with
  | [], _ => simp [closeRun]
  | [r], _ => simp [closeRun]
  | r1 :: r2 :: rs, hr => simpa [closeRun] using seq_custom σ c h (r1 :: r2 :: rs) hr tr

/-- invariant: tracking the merged tail from `tr` equals tracking run then the original tail -/
theorem seq_mergeAux (h : σ.Lawful) : ∀ (ls run : List (Lat E)), skipL σ run = true → ∀ tr,
    seq σ (mergeAux σ c keep ls run tr) tr = seq σ ls (seq σ run tr)
  | [], run, hr, tr => by
      match run, hr with
      | [], _ => simp [mergeAux, seq]
      | r :: rs, hr =>
          have := seq_custom σ c h (r :: rs) hr tr
          simpa [mergeAux, seq] using this
  | l :: ls, run, hr, tr => by
      simp only [mergeAux]
      by_cases hl : (skip σ l && !keep l) = true
      · simp only [hl, if_true]
        have hsk : skip σ l = true := by
          simp only [Bool.and_eq_true] at hl; exact hl.1
        have hr' : skipL σ (run ++ [l]) = true := by simp [skipL_append, hr, skipL, hsk]
        rw [seq_mergeAux h ls (run ++ [l]) hr', seq_append]; simp [seq]
      · simp only [hl, Bool.false_eq_true, if_false]
        rw [seq_append]
        simp only [seq]
        rw [seq_mergeAux h ls [] (by simp [skipL])]
        simp only [seq, seq_closeRun σ c h run hr]

/-- invariant: the beams sent into the unmerged items of the tail are those of element-by-element tracking from
`seq run tr` -/
theorem mergeArr_spec (h : σ.Lawful) : ∀ (ls run : List (Lat E)), skipL σ run = true → ∀ tr,
    mergeArr σ c keep ls run tr = arrSpec σ keep ls (seq σ run tr)
  | [], _, _, _ => by simp [mergeArr, arrSpec]
  | l :: ls, run, hr, tr => by
      simp only [mergeArr, arrSpec]
      by_cases hl : (skip σ l && !keep l) = true
      · simp only [hl, if_true, List.nil_append]
        have hsk : skip σ l = true := by
          simp only [Bool.and_eq_true] at hl; exact hl.1
        have hr' : skipL σ (run ++ [l]) = true := by simp [skipL_append, hr, skipL, hsk]
        rw [mergeArr_spec h ls (run ++ [l]) hr', seq_append]; simp [seq]
      · simp only [hl, Bool.false_eq_true, if_false, List.singleton_append]
        rw [seq_closeRun σ c h run hr, mergeArr_spec h ls [] (by simp [skipL])]
        simp [seq]

/-- **C11 / C20 for the optimised lattice**: while `transfer_maps_merged` runs, every item it leaves unmerged — among them the
active diagnostics — receives exactly the beam that element-by-element tracking of the original lattice sends into it -/
theorem arrivals_spec (h : σ.Lawful) (ls : List (Lat E)) (b : S) :
    arrivals σ c keep ls b = arrSpec σ keep ls b := by
  unfold arrivals
  rw [mergeArr_spec σ c keep h ls [] (by simp [skipL])]
  simp [seq]

/-- **C08 core**: the merged segment tracks the given beam exactly like the original. -/
theorem track_merged (h : σ.Lawful) (ls : List (Lat E)) (b : S) :
    track σ (.seg (merged σ c keep ls b)) b = track σ (.seg ls) b := by
  unfold merged
  rw [track_seg_eq_seq σ h, track_seg_eq_seq σ h, seq_mergeAux σ c keep h ls [] (by simp [skipL])]
  simp [seq]

/-- elements that are kept (in `except_for`) or not skippable appear unchanged, in order:
the merged lattice restricted to them equals the original restricted to them -/
theorem mergeAux_keeps (P : Lat E → Bool) (hP : ∀ l, P l = true → (skip σ l && !keep l) = false)
    (hC : ∀ m, P (.elem (c.mkE m)) = false) :
    ∀ (ls run : List (Lat E)) (tr : S), (∀ r ∈ run, P r = false) →
      (mergeAux σ c keep ls run tr).filter P = ls.filter P
  | [], run, tr, hrun => by
      cases run with
      | nil => simp [mergeAux]
      | cons r rs => simp [mergeAux, hC]
  | l :: ls, run, tr, hrun => by
      simp only [mergeAux]
      by_cases hl : (skip σ l && !keep l) = true
      · simp only [hl, if_true]
        have hPl : P l = false := by
          cases hp : P l with
          | false => rfl
          | true => have := hP l hp; rw [hl] at this; cases this
        rw [mergeAux_keeps P hP hC ls (run ++ [l]) tr (by
          intro r hr; rcases List.mem_append.mp hr with h1 | h1
          · exact hrun r h1
          · simp at h1; rw [h1]; exact hPl)]
        simp [List.filter, hPl]
      · simp only [hl, Bool.false_eq_true, if_false]
        have hclose : (closeRun σ c run tr).filter P = [] := by
          match run, hrun with
          | [], _ => simp [closeRun]
          | [r], hrun => simp [closeRun, hrun r (by simp)]
          | r1 :: r2 :: rs, _ => simp [closeRun, hC]
        rw [List.filter_append, hclose, List.nil_append, List.filter_cons, List.filter_cons]
        rw [mergeAux_keeps P hP hC ls [] _ (by simp)]


/-! ## filters -/

/-- removing elements whose tracking is the identity does not change the result -/
theorem seq_without (drop : Lat E → Bool) (hd : ∀ l, drop l = true → keep l = false → ∀ s, track σ l s = s) :
    ∀ (ls : List (Lat E)) (s : S), seq σ (without keep drop ls) s = seq σ ls s
  | [], s => by simp [without, seq]
  | l :: ls, s => by
      have ih := seq_without drop hd ls
      unfold without at ih ⊢
      by_cases h : (!(drop l) || keep l) = true
      · simp only [List.filter_cons, h, if_true, seq]; exact ih _
      · simp only [List.filter_cons, h, Bool.false_eq_true, if_false, seq]
        have h' : drop l = true ∧ keep l = false := by
          cases hd' : drop l <;> cases hk : keep l <;> simp [hd', hk] at h ⊢
        rw [hd l h'.1 h'.2 s]; exact ih s

/-- replacing elements by ones that track identically does not change the result -/
theorem seq_replaced (repl : Lat E → Bool) (f : Lat E → Lat E)
    (hf : ∀ l, repl l = true → keep l = false → ∀ s, track σ (f l) s = track σ l s) :
    ∀ (ls : List (Lat E)) (s : S), seq σ (replaced keep repl f ls) s = seq σ ls s
  | [], s => by simp [replaced, seq]
  | l :: ls, s => by
      have ih := seq_replaced repl f hf ls
      unfold replaced at ih ⊢
      simp only [List.map_cons, seq]
      by_cases h : (repl l && !keep l) = true
      · simp only [h, if_true]
        have h' : repl l = true ∧ keep l = false := by
          cases hd' : repl l <;> cases hk : keep l <;> simp [hd', hk] at h ⊢
        rw [hf l h'.1 h'.2 s]; exact ih _
      · simp only [h, Bool.false_eq_true, if_false]; exact ih _

/-- kept elements survive every filter, in order -/
theorem without_keeps (drop : Lat E → Bool) (ls : List (Lat E)) :
    (without keep drop ls).filter keep = ls.filter keep := by
  unfold without
  rw [List.filter_filter]
  congr 1
  funext l
  cases keep l <;> simp

end Lat
