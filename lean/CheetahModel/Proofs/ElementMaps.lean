import CheetahModel.Proofs.BaseMap
/-!
# Symplecticity and affinity (seventh row) of every linear element map
-/
open Matrix Scalar

/-! ## generic helpers -/

/-- a matrix whose 6×6 block is the identity (misalignment shifts, corrector kicks on top of a drift) -/
theorem symp_of_block_eq {A B : Mat7 ℝ} (h : block6 A = block6 B) (hB : Symp6 (block6 B)) :
    Symp6 (block6 A) := h ▸ hB

/-! ## rotation -/

theorem rotation_affine (a : ℝ) : (rotationMatrix a).Affine := by
  unfold Mat7.Affine rotationMatrix; norm_num

theorem block6_rotation (a : ℝ) : block6 (rotationMatrix a) =
    !![Real.cos a, 0, Real.sin a, 0, 0, 0;
       0, Real.cos a, 0, Real.sin a, 0, 0;
       -Real.sin a, 0, Real.cos a, 0, 0, 0;
       0, -Real.sin a, 0, Real.cos a, 0, 0;
       0, 0, 0, 0, 1, 0;
       0, 0, 0, 0, 0, 1] := by
  ext i j
  fin_cases i <;> fin_cases j <;>
    simp [block6, rotationMatrix, Mat7.get, Mat7.row, Vec7.get] <;> norm_num

theorem rotation_symplectic (a : ℝ) : Symp6 (block6 (rotationMatrix a)) := by
  unfold Symp6
  rw [block6_rotation]
  have h := Real.cos_sq_add_sin_sq a
  ext i j
  fin_cases i <;> fin_cases j <;>
    simp [S6, Matrix.mul_apply, Fin.sum_univ_succ, Matrix.transpose_apply] <;>
    (try ring_nf) <;> (try linarith) <;> (try nlinarith [h])

/-- `Rot(0) = 1` — the tilt shortcut `if torch.any(tilt != 0)` skips the identity -/
theorem rotation_zero : (rotationMatrix (0:ℝ)).toM = 1 := by
  ext i j
  fin_cases i <;> fin_cases j <;> simp [rotationMatrix, Mat7.get, Mat7.row, Vec7.get] <;> norm_num

theorem tiltConj_symplectic (t : ℝ) (R : Mat7 ℝ) (hA : R.Affine) (hR : Symp6 (block6 R)) :
    Symp6 (block6 (tiltConj t R)) := by
  unfold tiltConj Mat7.mul3
  rw [block6_mul _ _ (rotation_affine t), block6_mul _ _ hA]
  exact (Symp6.mul (rotation_symplectic _) hR).mul (rotation_symplectic _)

theorem tiltConj_affine (t : ℝ) (R : Mat7 ℝ) (hA : R.Affine) : (tiltConj t R).Affine := by
  unfold tiltConj Mat7.mul3
  exact Mat7.affine_mul _ _ (Mat7.affine_mul _ _ (rotation_affine _) hA) (rotation_affine _)

/-! ## base_rmatrix with tilt -/

theorem baseR0_affine (L k1 hx E m : ℝ) : (baseR0 L k1 hx E m).Affine := baseRof_affine _

theorem baseR_affine (L k1 hx t E m : ℝ) : (baseR L k1 hx t E m).Affine := by
  unfold baseR
  simp only
  split
  · exact baseR0_affine ..
  · exact tiltConj_affine _ _ (baseR0_affine ..)

theorem baseR_symplectic (L k1 hx t E m : ℝ) (hm : 0 < m) (hE : m < E)
    (hk : guardK1 k1 + hx * hx ≠ 0) : Symp6 (block6 (baseR L k1 hx t E m)) := by
  unfold baseR
  simp only
  split
  · exact baseR0_symplectic L k1 hx E m hm hE hk
  · exact tiltConj_symplectic _ _ (baseR0_affine ..) (baseR0_symplectic L k1 hx E m hm hE hk)

/-! ## misalignment -/

theorem misEntry_affine (a b : ℝ) : (misEntry a b).Affine := by
  unfold Mat7.Affine misEntry; norm_num
theorem misExit_affine (a b : ℝ) : (misExit a b).Affine := by
  unfold Mat7.Affine misExit; norm_num

theorem block6_misEntry (a b : ℝ) : block6 (misEntry a b) = 1 := by
  ext i j
  fin_cases i <;> fin_cases j <;> simp [block6, misEntry, Mat7.get, Mat7.row, Vec7.get] <;> norm_num
theorem block6_misExit (a b : ℝ) : block6 (misExit a b) = 1 := by
  ext i j
  fin_cases i <;> fin_cases j <;> simp [block6, misExit, Mat7.get, Mat7.row, Vec7.get] <;> norm_num

/-- misalignment does not change the 6×6 block (it only adds the affine shift) -/
theorem block6_misConj (a b : ℝ) (R : Mat7 ℝ) (hA : R.Affine) : block6 (misConj a b R) = block6 R := by
  unfold misConj Mat7.mul3
  rw [block6_mul _ _ (misEntry_affine a b), block6_mul _ _ hA, block6_misEntry, block6_misExit]
  simp

theorem misConj_affine (a b : ℝ) (R : Mat7 ℝ) (hA : R.Affine) : (misConj a b R).Affine := by
  unfold misConj Mat7.mul3
  exact Mat7.affine_mul _ _ (Mat7.affine_mul _ _ (misExit_affine ..) hA) (misEntry_affine ..)

/-! ## quadrupole -/

theorem quadMap_affine (L k1 mx my t E m : ℝ) : (quadMap L k1 mx my t E m).Affine := by
  unfold quadMap
  simp only
  split
  · exact baseR_affine ..
  · exact misConj_affine _ _ _ (baseR_affine ..)

/-- **C03** quadrupole of either sign, any tilt and misalignment: symplectic -/
theorem quadMap_symplectic (L k1 mx my t E m : ℝ) (hm : 0 < m) (hE : m < E) :
    Symp6 (block6 (quadMap L k1 mx my t E m)) := by
  have hk : guardK1 k1 + (0.0:ℝ) * (0.0:ℝ) ≠ 0 := by
    norm_num; exact guardK1_ne_zero k1
  unfold quadMap
  simp only
  split
  · exact baseR_symplectic L k1 _ t E m hm hE hk
  · rw [block6_misConj _ _ _ (baseR_affine ..)]
    exact baseR_symplectic L k1 _ t E m hm hE hk

/-! ## drift-like maps: drift, correctors, undulator -/

theorem block6_driftLike (L r : ℝ) : block6 (driftLike L r) =
    !![1, L, 0, 0, 0, 0;
       0, 1, 0, 0, 0, 0;
       0, 0, 1, L, 0, 0;
       0, 0, 0, 1, 0, 0;
       0, 0, 0, 0, 1, r;
       0, 0, 0, 0, 0, 1] := by
  ext i j
  fin_cases i <;> fin_cases j <;> simp [block6, driftLike, Mat7.get, Mat7.row, Vec7.get] <;> norm_num

theorem driftLike_symplectic (L r : ℝ) : Symp6 (block6 (driftLike L r)) := by
  unfold Symp6
  rw [block6_driftLike]
  ext i j
  fin_cases i <;> fin_cases j <;>
    simp [S6, Matrix.mul_apply, Fin.sum_univ_succ, Matrix.transpose_apply]

theorem driftLike_affine (L r : ℝ) : (driftLike L r).Affine := by
  unfold Mat7.Affine driftLike; norm_num

theorem driftMap_symplectic (L E m : ℝ) : Symp6 (block6 (driftMap L E m)) := driftLike_symplectic _ _
theorem driftMap_affine (L E m : ℝ) : (driftMap L E m).Affine := driftLike_affine _ _

theorem block6_hcor (L a E m : ℝ) : block6 (hcorMap L a E m) = block6 (driftMap L E m) := by
  ext i j
  fin_cases i <;> fin_cases j <;>
    simp [block6, hcorMap, driftMap, driftLike, Mat7.get, Mat7.row, Vec7.get]
theorem block6_vcor (L a E m : ℝ) : block6 (vcorMap L a E m) = block6 (driftMap L E m) := by
  ext i j
  fin_cases i <;> fin_cases j <;>
    simp [block6, vcorMap, driftMap, driftLike, Mat7.get, Mat7.row, Vec7.get]

theorem hcorMap_symplectic (L a E m : ℝ) : Symp6 (block6 (hcorMap L a E m)) := by
  rw [block6_hcor]; exact driftMap_symplectic ..
theorem vcorMap_symplectic (L a E m : ℝ) : Symp6 (block6 (vcorMap L a E m)) := by
  rw [block6_vcor]; exact driftMap_symplectic ..
theorem hcorMap_affine (L a E m : ℝ) : (hcorMap L a E m).Affine := by
  unfold Mat7.Affine hcorMap; norm_num
theorem vcorMap_affine (L a E m : ℝ) : (vcorMap L a E m).Affine := by
  unfold Mat7.Affine vcorMap; norm_num

/-- the corrector is a drift followed by a kick of exactly the set angle -/
theorem hcor_kick (L a E m : ℝ) (v : Vec7 ℝ) (h1 : v.a6 = 1) :
    Mat7.mulVec (hcorMap L a E m) v =
      let d := Mat7.mulVec (driftMap L E m) v
      { d with a1 := d.a1 + a } := by
  simp [Mat7.mulVec, hcorMap, driftMap, driftLike, Mat7.dot, h1]; norm_num
theorem vcor_kick (L a E m : ℝ) (v : Vec7 ℝ) (h1 : v.a6 = 1) :
    Mat7.mulVec (vcorMap L a E m) v =
      let d := Mat7.mulVec (driftMap L E m) v
      { d with a3 := d.a3 + a } := by
  simp [Mat7.mulVec, vcorMap, driftMap, driftLike, Mat7.dot, h1]; norm_num

/-! ## dipole edges, thin body, full dipole -/

theorem block6_dipoleEdge_lower (hx e f g : ℝ) :
    ∃ a b : ℝ, block6 (dipoleEdge hx e f g) =
    !![1, 0, 0, 0, 0, 0;
       a, 1, 0, 0, 0, 0;
       0, 0, 1, 0, 0, 0;
       0, 0, b, 1, 0, 0;
       0, 0, 0, 0, 1, 0;
       0, 0, 0, 0, 0, 1] := by
  refine ⟨hx * Real.tan e, -hx * Real.tan (e - f * hx * g * (1 / Real.cos e) * (1 + Real.sin e * Real.sin e)), ?_⟩
  ext i j
  fin_cases i <;> fin_cases j <;> simp [block6, dipoleEdge, Mat7.get, Mat7.row, Vec7.get] <;> norm_num

/-- a thin lens in both planes (any focal strengths) is symplectic -/
theorem dipoleEdge_symplectic (hx e f g : ℝ) : Symp6 (block6 (dipoleEdge hx e f g)) := by
  obtain ⟨a, b, h⟩ := block6_dipoleEdge_lower hx e f g
  unfold Symp6
  rw [h]
  ext i j
  fin_cases i <;> fin_cases j <;>
    simp [S6, Matrix.mul_apply, Fin.sum_univ_succ, Matrix.transpose_apply]

theorem dipoleEdge_affine (hx e f g : ℝ) : (dipoleEdge hx e f g).Affine := by
  unfold Mat7.Affine dipoleEdge; norm_num

theorem block6_dipoleThin (L a : ℝ) : block6 (dipoleThin L a) = block6 (driftLike L 0) := by
  ext i j
  fin_cases i <;> fin_cases j <;>
    simp [block6, dipoleThin, driftLike, Mat7.get, Mat7.row, Vec7.get] <;> norm_num
theorem dipoleThin_affine (L a : ℝ) : (dipoleThin L a).Affine := by
  unfold Mat7.Affine dipoleThin; norm_num

theorem dipoleMap_affine (p : DipoleP ℝ) (E m : ℝ) : (dipoleMap p E m).Affine := by
  unfold dipoleMap
  simp only
  apply Mat7.affine_mul _ _ (rotation_affine _)
  apply Mat7.affine_mul _ _ _ (rotation_affine _)
  apply Mat7.affine_mul _ _ (dipoleEdge_affine ..)
  apply Mat7.affine_mul _ _ _ (dipoleEdge_affine ..)
  split
  · exact dipoleThin_affine ..
  · exact baseR0_affine ..

/-- **C03** sector / rectangular bend with gradient, pole-face angles, fringe integrals and tilt -/
theorem dipoleMap_symplectic (p : DipoleP ℝ) (E m : ℝ) (hm : 0 < m) (hE : m < E)
    (hk : guardK1 p.k1 + dipoleHx p.L p.angle * dipoleHx p.L p.angle ≠ 0) :
    Symp6 (block6 (dipoleMap p E m)) := by
  unfold dipoleMap
  simp only
  have hbody : ∀ R : Mat7 ℝ, R.Affine → Symp6 (block6 R) →
      Symp6 (block6 (Mat7.mul (rotationMatrix (-p.tilt))
        (Mat7.mul (Mat7.mul (dipoleEdge (dipoleHx p.L p.angle) p.e2 p.fintx p.gap)
          (Mat7.mul R (dipoleEdge (dipoleHx p.L p.angle) p.e1 p.fint p.gap))) (rotationMatrix p.tilt)))) := by
    intro R hA hR
    have a1 := Mat7.affine_mul _ _ hA (dipoleEdge_affine (dipoleHx p.L p.angle) p.e1 p.fint p.gap)
    have a2 := Mat7.affine_mul _ _ (dipoleEdge_affine (dipoleHx p.L p.angle) p.e2 p.fintx p.gap) a1
    have a3 := Mat7.affine_mul _ _ a2 (rotation_affine p.tilt)
    rw [block6_mul _ _ a3, block6_mul _ _ (rotation_affine _), block6_mul _ _ a1,
      block6_mul _ _ (dipoleEdge_affine ..)]
    exact (rotation_symplectic _).mul (((dipoleEdge_symplectic ..).mul (hR.mul (dipoleEdge_symplectic ..))).mul
      (rotation_symplectic _))
  split
  · apply hbody _ (dipoleThin_affine ..)
    rw [block6_dipoleThin]; exact driftLike_symplectic _ _
  · exact hbody _ (baseR0_affine ..) (baseR0_symplectic _ _ _ E m hm hE hk)

/-! ## solenoid -/

theorem solenoidBody_affine (L k E m : ℝ) : (solenoidBody L k E m).Affine := by
  unfold Mat7.Affine solenoidBody; norm_num

theorem solenoidMap_affine (L k mx my E m : ℝ) : (solenoidMap L k mx my E m).Affine := by
  unfold solenoidMap
  simp only
  split
  · exact solenoidBody_affine ..
  · exact misConj_affine _ _ _ (solenoidBody_affine ..)

/-- the unmisaligned solenoid body as a literal, in terms of c, s, s_k -/
def solBody (c s sk k r : ℝ) : Matrix (Fin 6) (Fin 6) ℝ :=
  !![c * c, c * sk, s * c, s * sk, 0, 0;
     -k * s * c, c * c, -k * (s * s), s * c, 0, 0;
     -s * c, -s * sk, c * c, c * sk, 0, 0;
     k * (s * s), -s * c, -k * s * c, c * c, 0, 0;
     0, 0, 0, 0, 1, r;
     0, 0, 0, 0, 0, 1]

theorem solBody_symplectic (c s sk k r : ℝ) (h : c ^ 2 + s ^ 2 = 1) (hsk : k * sk = s) :
    Symp6 (solBody c s sk k r) := by
  unfold Symp6 solBody
  subst hsk
  ext i j
  fin_cases i <;> fin_cases j <;>
    simp [S6, Matrix.mul_apply, Fin.sum_univ_succ, Matrix.transpose_apply] <;>
    (try ring_nf) <;>
    (try nlinarith [h, sq_nonneg c, sq_nonneg (k * sk)])

theorem block6_solenoidBody (L k E m : ℝ) : ∃ sk r : ℝ, k * sk = Real.sin (L * k) ∧
    block6 (solenoidBody L k E m) = solBody (Real.cos (L * k)) (Real.sin (L * k)) sk k r := by
  by_cases hk : k = 0
  · have : Scalar.eqb k (0.0:ℝ) = true := by rw [Scalar.real_eqb]; norm_num; exact hk
    refine ⟨L, (solenoidBody L k E m).get 4 5, by simp [hk], ?_⟩
    ext i j
    fin_cases i <;> fin_cases j <;>
      simp [block6, solenoidBody, solBody, this, Mat7.get, Mat7.row, Vec7.get] <;> norm_num
  · have : Scalar.eqb k (0.0:ℝ) = false := by rw [Scalar.real_eqb_false]; norm_num; exact hk
    refine ⟨Real.sin (L * k) / k, (solenoidBody L k E m).get 4 5, by field_simp, ?_⟩
    ext i j
    fin_cases i <;> fin_cases j <;>
      simp [block6, solenoidBody, solBody, this, Mat7.get, Mat7.row, Vec7.get] <;> norm_num

/-- **C03** solenoid of any strength (including the `k = 0` branch) and misalignment: symplectic -/
theorem solenoidMap_symplectic (L k mx my E m : ℝ) : Symp6 (block6 (solenoidMap L k mx my E m)) := by
  have hb : Symp6 (block6 (solenoidBody L k E m)) := by
    obtain ⟨sk, r, hsk, h⟩ := block6_solenoidBody L k E m
    rw [h]
    exact solBody_symplectic _ _ _ _ _ (Real.cos_sq_add_sin_sq _) hsk
  unfold solenoidMap
  simp only
  split
  · exact hb
  · rw [block6_misConj _ _ _ (solenoidBody_affine ..)]; exact hb

/-! ## undulator, markers -/

theorem undulator_symplectic (L E m : ℝ) : Symp6 (block6 (undulatorMap L E m)) := driftLike_symplectic _ _
theorem undulator_affine (L E m : ℝ) : (undulatorMap L E m).Affine := driftLike_affine _ _
theorem identMap_symplectic : Symp6 (block6 (identMap : Mat7 ℝ)) := by
  have : block6 (identMap : Mat7 ℝ) = 1 := by
    ext i j
    fin_cases i <;> fin_cases j <;> simp [block6, identMap, Mat7.one, Mat7.get, Mat7.row, Vec7.get] <;> norm_num
  rw [this]; exact Symp6.one
theorem identMap_affine : (identMap : Mat7 ℝ).Affine := Mat7.affine_one

/-! ## cavity: the transverse 2×2 block damps by Ei/Ef -/

theorem cavRof_affine (e : CavE ℝ) : (cavRof e).Affine := by
  unfold Mat7.Affine cavRof; norm_num

/-- transverse block determinant of `_cavity_rmatrix` -/
theorem cavity_transverse_det (Ei Ef Ep cphi alpha : ℝ) (hEf : Ef ≠ 0) (hEp : Ep ≠ 0) (hc : cphi ≠ 0) :
    (Real.cos alpha - √2 * cphi * Real.sin alpha) * (Ei / Ef * (Real.cos alpha + √2 * cphi * Real.sin alpha))
      - (√8 * Ei / Ep * cphi * Real.sin alpha) * (-Ep / Ef * (cphi / √2 + √(1 / 8) / cphi) * Real.sin alpha)
      = Ei / Ef := by
  have h2 : √2 * √2 = 2 := Real.mul_self_sqrt (by norm_num)
  have h2pos : (0:ℝ) < √2 := Real.sqrt_pos.mpr (by norm_num)
  have h8 : √8 = 2 * √2 := by
    rw [show (8:ℝ) = 2 ^ 2 * 2 by norm_num, Real.sqrt_mul (by norm_num), Real.sqrt_sq (by norm_num)]
  have h18 : √(1 / 8) = 1 / (2 * √2) := by
    rw [Real.sqrt_div (by norm_num), Real.sqrt_one, h8]
  rw [h8, h18]
  have hs := Real.cos_sq_add_sin_sq alpha
  have h2ne : √2 ≠ 0 := h2pos.ne'
  field_simp
  have h2' : √2 ^ 2 = 2 := by rw [sq]; exact h2
  linear_combination Ei * hs - Ei * cphi ^ 2 * Real.sin alpha ^ 2 * h2'

/-- **C03** for the model's cavity entries: `r11·r22 − r12·r21 = E_in/E_out` -/
theorem cavE_transverse_det (k : Consts ℝ) (L V phase freq E : ℝ)
    (hEf : (E + V * Real.cos (deg2rad k phase)) / k.mc2 ≠ 0)
    (hEp : ((E + V * Real.cos (deg2rad k phase)) / k.mc2 - E / k.mc2) / L ≠ 0)
    (hc : Real.cos (deg2rad k phase) ≠ 0) :
    let e := cavE k L V phase freq E
    e.r11 * e.r22 - e.r12 * e.r21 = (E / k.mc2) / ((E + V * Real.cos (deg2rad k phase)) / k.mc2) := by
  intro e
  have := cavity_transverse_det (E / k.mc2) ((E + V * Real.cos (deg2rad k phase)) / k.mc2)
    (((E + V * Real.cos (deg2rad k phase)) / k.mc2 - E / k.mc2) / L) (Real.cos (deg2rad k phase))
    (√(1 / 8) / Real.cos (deg2rad k phase) *
      Real.log (((E + V * Real.cos (deg2rad k phase)) / k.mc2) / (E / k.mc2))) hEf hEp hc
  simp only [e, cavE]
  norm_num
  norm_num at this
  linarith [this]
