import CheetahModel.Proofs.SpaceChargeProofs
import Mathlib.Algebra.BigOperators.Ring.Finset
open Scalar

/-- the deposit does not depend on the order in which the particles are stored -/
theorem cicDeposit_perm (parts parts' : List (ℝ × ℝ × ℝ × ℝ)) (h : parts.Perm parts') (invVol : ℝ) (ix iy it : ℕ) :
    cicDeposit parts invVol ix iy it = cicDeposit parts' invVol ix iy it := by
  unfold cicDeposit
  rw [listSum_eq, listSum_eq, (h.map _).sum_eq]

theorem floorNat_spec (u : ℝ) (hu : 0 ≤ u) : ((floorNat u : ℕ) : ℝ) ≤ u ∧ u < (floorNat u : ℕ) + 1 := by
  unfold floorNat
  simp only [real_ceilNat, real_ofNat]
  have hle : u ≤ (⌈u⌉₊ : ℝ) := Nat.le_ceil u
  by_cases hc : ((⌈u⌉₊ : ℕ) : ℝ) = u
  · have : Scalar.eqb ((⌈u⌉₊ : ℕ) : ℝ) u = true := (real_eqb _ _).mpr hc
    rw [if_pos this]
    constructor <;> linarith
  · have : Scalar.eqb ((⌈u⌉₊ : ℕ) : ℝ) u = true ↔ False := by rw [real_eqb]; exact iff_false_intro hc
    rw [if_neg (by rw [this]; exact not_false)]
    have hlt : u < (⌈u⌉₊ : ℝ) := lt_of_le_of_ne hle (Ne.symm hc)
    have hpos : 0 < ⌈u⌉₊ := by
      rcases Nat.eq_zero_or_pos ⌈u⌉₊ with h0 | h0
      · exfalso; rw [h0] at hlt; simp at hlt; linarith
      · exact h0
    have h1 : ((⌈u⌉₊ - 1 : ℕ) : ℝ) < u := Nat.lt_ceil.mp (Nat.sub_lt hpos one_pos)
    have h2 : ((⌈u⌉₊ - 1 : ℕ) : ℝ) + 1 = (⌈u⌉₊ : ℝ) := by
      have : ⌈u⌉₊ - 1 + 1 = ⌈u⌉₊ := Nat.sub_add_cancel hpos
      exact_mod_cast this
    constructor
    · exact h1.le
    · linarith

/-- the two non-zero 1-D weights -/
theorem cicW_lo (u : ℝ) (hu : 0 ≤ u) : cicW u (floorNat u) = 1 - (u - (floorNat u : ℕ)) := by
  obtain ⟨h1, h2⟩ := floorNat_spec u hu
  unfold cicW
  simp only [beq_self_eq_true, true_or, if_true, real_abs, real_ofNat]
  rw [abs_of_nonneg (by linarith)]
  norm_num

theorem cicW_hi (u : ℝ) (hu : 0 ≤ u) : cicW u (floorNat u + 1) = u - (floorNat u : ℕ) := by
  obtain ⟨h1, h2⟩ := floorNat_spec u hu
  unfold cicW
  simp only [beq_self_eq_true, or_true, if_true, real_abs, real_ofNat]
  rw [abs_of_nonpos (by push_cast; linarith)]
  push_cast
  norm_num
  ring

theorem cicW_other (u : ℝ) (ic : ℕ) (h1 : ic ≠ floorNat u) (h2 : ic ≠ floorNat u + 1) : cicW u ic = 0 := by
  unfold cicW
  have : ¬ ((ic == floorNat u) = true ∨ (ic == floorNat u + 1) = true) := by
    simp [h1, h2]
  rw [if_neg this]
  norm_num

/-- weights are non-negative … -/
theorem cicW_nonneg (u : ℝ) (hu : 0 ≤ u) (ic : ℕ) : 0 ≤ cicW u ic := by
  obtain ⟨h1, h2⟩ := floorNat_spec u hu
  by_cases a : ic = floorNat u
  · rw [a, cicW_lo u hu]; linarith
  · by_cases b : ic = floorNat u + 1
    · rw [b, cicW_hi u hu]; linarith
    · rw [cicW_other u ic a b]

/-- … and form a partition of unity over a grid that contains the particle's two neighbouring nodes -/
theorem cicW_sum (u : ℝ) (hu : 0 ≤ u) (n : ℕ) (hn : floorNat u + 1 < n) :
    ∑ ic ∈ Finset.range n, cicW u ic = 1 := by
  rw [Finset.sum_eq_add (floorNat u) (floorNat u + 1) (by omega)]
  · rw [cicW_lo u hu, cicW_hi u hu]; ring
  · intro c _ hc; exact cicW_other u c hc.1 hc.2
  · intro h; exact absurd (Finset.mem_range.mpr (by omega)) h
  · intro h; exact absurd (Finset.mem_range.mpr hn) h

/-- **charge conservation of the deposit**: summed over the grid, the deposited density times the cell volume is the
total (surviving) charge, for particles inside the grid -/
theorem cicDeposit_total (nx ny nt : ℕ) (invVol : ℝ) :
    ∀ (parts : List (ℝ × ℝ × ℝ × ℝ)),
      (∀ p ∈ parts, (0 ≤ p.1 ∧ floorNat p.1 + 1 < nx) ∧ (0 ≤ p.2.1 ∧ floorNat p.2.1 + 1 < ny) ∧
        (0 ≤ p.2.2.1 ∧ floorNat p.2.2.1 + 1 < nt)) →
      ∑ ix ∈ Finset.range nx, ∑ iy ∈ Finset.range ny, ∑ it ∈ Finset.range nt, cicDeposit parts invVol ix iy it
        = (parts.map fun p => p.2.2.2).sum * invVol
  | [], _ => by simp [cicDeposit, listSum_eq]
  | p :: ps, h => by
      have ih := cicDeposit_total nx ny nt invVol ps (fun q hq => h q (List.mem_cons_of_mem _ hq))
      obtain ⟨⟨hx0, hx1⟩, ⟨hy0, hy1⟩, ⟨ht0, ht1⟩⟩ := h p List.mem_cons_self
      have split : ∀ ix iy it, cicDeposit (p :: ps) invVol ix iy it
          = cicW p.1 ix * (cicW p.2.1 iy * (cicW p.2.2.1 it * (p.2.2.2 * invVol))) + cicDeposit ps invVol ix iy it := by
        intro ix iy it
        unfold cicDeposit
        rw [listSum_eq, listSum_eq, List.map_cons, List.sum_cons]; ring
      simp only [split, Finset.sum_add_distrib, ih]
      simp only [← Finset.mul_sum, ← Finset.sum_mul]
      rw [cicW_sum _ ht0 nt ht1, cicW_sum _ hy0 ny hy1, cicW_sum _ hx0 nx hx1]
      rw [List.map_cons, List.sum_cons]; ring
