import CheetahModel.Proofs.ReverseProofs
/-!
# The focusing functions of `base_rmatrix` as expression programs: reverse-mode gradients end to end (C05)

`cs k² L = (cos(√k²·L), sin(√k²·L)/√k²)` for `k² > 0` and the hyperbolic pair otherwise — the scalar heart of every linear
transfer map (`Maps.lean`, mirroring `track_methods.base_rmatrix`).  Written as `Ex` programs with the branch as a
`torch.where`-style selection, their forward pass **is** the model function (`csC_val`, `csS_val`), so the theorems of
`ReverseProofs.lean` apply: the gradient a reverse-mode backward pass returns w.r.t. the strength and w.r.t. the length is the
partial derivative of the model's focusing function, for either sign of `k²` (`cs_reverse_gradient`).  At `k² = 0` the
program is not `Smooth` — that point is C05's recorded finding.
-/
open Scalar

namespace Ex

/-- `cs.c` as a program in the variables `v0 = k²`, `v1 = L` -/
def csC : Ex ℝ :=
  .whereLt (.const 0.0) (.var 0) (.cos (.mul (.sqrt (.var 0)) (.var 1))) (.cosh (.mul (.sqrt (.neg (.var 0))) (.var 1)))

/-- `cs.s` as a program -/
def csS : Ex ℝ :=
  .whereLt (.const 0.0) (.var 0)
    (.div (.sin (.mul (.sqrt (.var 0)) (.var 1))) (.sqrt (.var 0)))
    (.div (.sinh (.mul (.sqrt (.neg (.var 0))) (.var 1))) (.sqrt (.neg (.var 0))))

theorem csC_val (env : Nat → ℝ) : val env csC = (cs (env 0) (env 1)).c := by
  unfold csC cs
  simp only [val_whereLt, val_const, val_var, val_cos, val_cosh, val_mul, val_sqrt, val_neg, sel]
  by_cases hc : Scalar.ltb (0.0:ℝ) (env 0) = true
  · simp only [hc, if_true]; rfl
  · simp only [hc, if_false]; rfl

theorem csS_val (env : Nat → ℝ) : val env csS = (cs (env 0) (env 1)).s := by
  unfold csS cs
  simp only [val_whereLt, val_const, val_var, val_sin, val_sinh, val_div, val_mul, val_sqrt, val_neg, sel]
  by_cases hc : Scalar.ltb (0.0:ℝ) (env 0) = true
  · simp only [hc, if_true]; rfl
  · simp only [hc, if_false]; rfl

theorem csC_smooth (env : Nat → ℝ) (h : env 0 ≠ 0) : csC.Smooth env := by
  unfold csC
  simp only [Smooth, val_const, val_var, val_neg, lit0, true_and, and_true]
  refine ⟨fun e => h e.symm, ?_⟩
  split
  · exact h
  · exact neg_ne_zero.mpr h

theorem csS_smooth (env : Nat → ℝ) (h : env 0 ≠ 0) : csS.Smooth env := by
  unfold csS
  simp only [Smooth, val_const, val_var, val_neg, val_sqrt, lit0, true_and, and_true]
  refine ⟨fun e => h e.symm, ?_⟩
  split
  · next hpos => exact ⟨h, h, (Real.sqrt_pos.mpr hpos).ne'⟩
  · next hneg =>
    have hlt : env 0 < 0 := lt_of_le_of_ne (not_lt.mp hneg) h
    exact ⟨neg_ne_zero.mpr h, neg_ne_zero.mpr h, (Real.sqrt_pos.mpr (neg_pos.mpr hlt)).ne'⟩

/-- **end to end**: the reverse-mode gradients of the model's focusing functions w.r.t. the strength (`i = 0`) and the length
(`i = 1`) are their partial derivatives, for either sign of the strength -/
theorem cs_reverse_gradient (env : Nat → ℝ) (h : env 0 ≠ 0) (i : Nat) :
    HasDerivAt (fun t => (cs (upd env i t 0) (upd env i t 1)).c) (grad env csC i) (env i) ∧
    HasDerivAt (fun t => (cs (upd env i t 0) (upd env i t 1)).s) (grad env csS i) (env i) := by
  constructor
  · have := grad_hasDerivAt env csC i (csC_smooth env h)
    simpa only [csC_val] using this
  · have := grad_hasDerivAt env csS i (csS_smooth env h)
    simpa only [csS_val] using this

end Ex
