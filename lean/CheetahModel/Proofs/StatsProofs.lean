import CheetahModel.Proofs.Survival
import Mathlib.Algebra.BigOperators.Group.List.Basic
/-!
# Invariances of the survival-weighted statistics (C17)
-/

theorem wmeanP_perm {l1 l2 : List (ℝ × ℝ)} (h : l1.Perm l2) : wmeanP l1 = wmeanP l2 := by
  unfold wmeanP
  rw [(h.map _).sum_eq, (h.map Prod.snd).sum_eq]

theorem wvarP_perm {l1 l2 : List (ℝ × ℝ)} (h : l1.Perm l2) : wvarP l1 = wvarP l2 := by
  unfold wvarP
  rw [wmeanP_perm h, (h.map _).sum_eq, (h.map Prod.snd).sum_eq, (h.map fun p => p.2 * p.2).sum_eq]

theorem sum_map_add_mul (l : List (ℝ × ℝ)) (a : ℝ) :
    (l.map fun p => (p.1 + a) * p.2).sum = (l.map fun p => p.1 * p.2).sum + a * (l.map Prod.snd).sum := by
  induction l with
  | nil => simp
  | cons p l ih => simp [ih]; ring

theorem sum_map_smul_mul (l : List (ℝ × ℝ)) (c : ℝ) :
    (l.map fun p => (c * p.1) * p.2).sum = c * (l.map fun p => p.1 * p.2).sum := by
  induction l with
  | nil => simp
  | cons p l ih => simp [ih]; ring

/-- the weighted mean translates with the coordinates … -/
theorem wmeanP_translate (l : List (ℝ × ℝ)) (a : ℝ) (hw : (l.map Prod.snd).sum ≠ 0) :
    wmeanP (l.map fun p => (p.1 + a, p.2)) = wmeanP l + a := by
  unfold wmeanP
  simp only [List.map_map, Function.comp_def]
  rw [sum_map_add_mul]
  field_simp

/-- … and scales with them -/
theorem wmeanP_scale (l : List (ℝ × ℝ)) (c : ℝ) :
    wmeanP (l.map fun p => (c * p.1, p.2)) = c * wmeanP l := by
  unfold wmeanP
  simp only [List.map_map, Function.comp_def]
  rw [sum_map_smul_mul, mul_div_assoc]

/-- the weighted variance is translation invariant … -/
theorem wvarP_translate (l : List (ℝ × ℝ)) (a : ℝ) (hw : (l.map Prod.snd).sum ≠ 0) :
    wvarP (l.map fun p => (p.1 + a, p.2)) = wvarP l := by
  unfold wvarP
  rw [wmeanP_translate l a hw]
  simp only [List.map_map, Function.comp_def]
  congr 2
  apply List.map_congr_left
  intro p _; ring

/-- … and scales with the square -/
theorem wvarP_scale (l : List (ℝ × ℝ)) (c : ℝ) :
    wvarP (l.map fun p => (c * p.1, p.2)) = c ^ 2 * wvarP l := by
  unfold wvarP
  rw [wmeanP_scale l c]
  simp only [List.map_map, Function.comp_def]
  have : (l.map fun p => p.2 * ((c * p.1 - c * wmeanP l) * (c * p.1 - c * wmeanP l))).sum
      = c ^ 2 * (l.map fun p => p.2 * ((p.1 - wmeanP l) * (p.1 - wmeanP l))).sum := by
    rw [← List.sum_map_mul_left]
    congr 1
    apply List.map_congr_left
    intro p _; ring
  rw [this, mul_div_assoc]

/-- when every particle survives (all weights 1) the statistics are the ordinary unbiased ones -/
theorem survivors_all (xs : List ℝ) : survivors (xs.map fun x => (x, (1:ℝ))) = xs := by
  unfold survivors
  induction xs with
  | nil => simp
  | cons x xs ih => simp [List.filter, ih]

theorem wmeanP_all_survive (xs : List ℝ) : wmeanP (xs.map fun x => (x, (1:ℝ))) = smean xs := by
  have h : ∀ p ∈ (xs.map fun x => (x, (1:ℝ))), p.2 = 0 ∨ p.2 = 1 := by
    intro p hp; simp at hp; obtain ⟨_, _, rfl⟩ := hp; right; rfl
  rw [wmean_survivors _ h, survivors_all]

theorem wvarP_all_survive (xs : List ℝ) (h2 : 2 ≤ xs.length) :
    wvarP (xs.map fun x => (x, (1:ℝ))) = svar xs := by
  have h : ∀ p ∈ (xs.map fun x => (x, (1:ℝ))), p.2 = 0 ∨ p.2 = 1 := by
    intro p hp; simp at hp; obtain ⟨_, _, rfl⟩ := hp; right; rfl
  rw [wvar_survivors _ h (by rw [survivors_all]; exact h2), survivors_all]
