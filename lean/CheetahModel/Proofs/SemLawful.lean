import CheetahModel.Proofs.MatBridge
import CheetahModel.Proofs.LatticeProofs
import CheetahModel.Elements
/-!
# The concrete semantics (`semP`: ParticleBeam, `semM`: ParameterBeam) satisfy the linear contract
-/
open Matrix

theorem Vec7.toV_injective : Function.Injective Vec7.toV := by
  intro v w h
  apply Vec7.ext_get
  intro j
  exact congrFun h j

theorem Mat7.mulVec_one (v : Vec7 ℝ) : Mat7.mulVec (Mat7.one : Mat7 ℝ) v = v := by
  apply Vec7.toV_injective
  rw [Mat7.toV_mulVec, Mat7.toM_one, Matrix.one_mulVec]

theorem Mat7.mulVec_mul (A B : Mat7 ℝ) (v : Vec7 ℝ) :
    Mat7.mulVec (Mat7.mul A B) v = Mat7.mulVec A (Mat7.mulVec B v) := by
  apply Vec7.toV_injective
  simp only [Mat7.toV_mulVec, Mat7.toM_mul, Matrix.mulVec_mulVec]

theorem Mat7.mul_one' (A : Mat7 ℝ) : Mat7.mul A Mat7.one = A := by
  apply Mat7.toM_injective; rw [Mat7.toM_mul, Mat7.toM_one, Matrix.mul_one]
theorem Mat7.one_mul' (A : Mat7 ℝ) : Mat7.mul Mat7.one A = A := by
  apply Mat7.toM_injective; rw [Mat7.toM_mul, Mat7.toM_one, Matrix.one_mul]
theorem Mat7.mul_assoc' (A B C : Mat7 ℝ) : Mat7.mul (Mat7.mul A B) C = Mat7.mul A (Mat7.mul B C) := by
  apply Mat7.toM_injective; simp only [Mat7.toM_mul, Matrix.mul_assoc]
theorem Mat7.transpose_mul' (A B : Mat7 ℝ) :
    Mat7.transpose (Mat7.mul A B) = Mat7.mul (Mat7.transpose B) (Mat7.transpose A) := by
  apply Mat7.toM_injective; simp only [Mat7.toM_mul, Mat7.toM_transpose, Matrix.transpose_mul]
theorem Mat7.transpose_one' : Mat7.transpose (Mat7.one : Mat7 ℝ) = Mat7.one := by
  apply Mat7.toM_injective; simp only [Mat7.toM_transpose, Mat7.toM_one, Matrix.transpose_one]

theorem PBeam.act_one (b : PBeam ℝ) : PBeam.act Mat7.one b = b := by
  cases b
  have : (Mat7.mulVec (Mat7.one : Mat7 ℝ)) = id := funext Mat7.mulVec_one
  simp [PBeam.act, this]

theorem PBeam.act_mul (A B : Mat7 ℝ) (b : PBeam ℝ) :
    PBeam.act (Mat7.mul A B) b = PBeam.act A (PBeam.act B b) := by
  cases b
  have : (Mat7.mulVec (Mat7.mul A B)) = (Mat7.mulVec A) ∘ (Mat7.mulVec B) := funext (Mat7.mulVec_mul A B)
  simp [PBeam.act, this]

theorem MBeam.act_one (b : MBeam ℝ) : MBeam.act Mat7.one b = b := by
  cases b
  simp [MBeam.act, Mat7.mulVec_one, Mat7.transpose_one', Mat7.mul_one', Mat7.one_mul']

theorem MBeam.act_mul (A B : Mat7 ℝ) (b : MBeam ℝ) :
    MBeam.act (Mat7.mul A B) b = MBeam.act A (MBeam.act B b) := by
  cases b
  simp [MBeam.act, Mat7.mulVec_mul, Mat7.transpose_mul', Mat7.mul_assoc']

theorem identMap_eq_one : (identMap : Mat7 ℝ) = Mat7.one := rfl

/-- the ParticleBeam semantics of the model satisfies the linear contract, for every element kind
(zero-voltage cavities included, since the `fix:` commit) -/
theorem semP_lawful (k : Consts ℝ) : (semP k).Lawful where
  act_one := PBeam.act_one
  act_mul := PBeam.act_mul
  act_energy := fun _ _ => rfl
  contract := by
    intro e s hs
    cases e <;> simp only [semP, Elem.skippable, Elem.trackP, Elem.map] at hs ⊢
    case cavity L V ph f => simp [hs]
    case aperture xm ym ell active =>
      simp at hs; simp [hs, identMap_eq_one, PBeam.act_one]
    case marker => simp [identMap_eq_one, PBeam.act_one]
    case bpm active => simp [identMap_eq_one, PBeam.act_one]
    case screen active blocking =>
      simp at hs; simp [hs, identMap_eq_one, PBeam.act_one]

theorem semM_lawful (k : Consts ℝ) : (semM k).Lawful where
  act_one := MBeam.act_one
  act_mul := MBeam.act_mul
  act_energy := fun _ _ => rfl
  contract := by
    intro e s hs
    cases e <;> simp only [semM, Elem.skippable, Elem.trackM, Elem.map] at hs ⊢
    case cavity L V ph f => simp [hs]
    case aperture xm ym ell active => simp [identMap_eq_one, MBeam.act_one]
    case marker => simp [identMap_eq_one, MBeam.act_one]
    case bpm active => simp [identMap_eq_one, MBeam.act_one]
    case screen active blocking =>
      simp at hs; simp [hs, identMap_eq_one, MBeam.act_one]
