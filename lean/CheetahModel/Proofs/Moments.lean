import CheetahModel.Proofs.SemLawful
import Mathlib.Algebra.BigOperators.Group.List.Basic
import Mathlib.LinearAlgebra.Matrix.ToLin
/-!
# Sample moments are equivariant under every 7×7 map (C06)
-/
open Matrix

/-! bridges of the vector / matrix arithmetic -/
theorem Vec7.toV_zero : (Vec7.zero : Vec7 ℝ).toV = 0 := by
  funext j; fin_cases j <;> simp [Vec7.zero, Vec7.get] <;> norm_num
theorem Vec7.toV_add (a b : Vec7 ℝ) : (Vec7.add a b).toV = a.toV + b.toV := by
  funext j; fin_cases j <;> simp [Vec7.add, Vec7.get]
theorem Vec7.toV_sub (a b : Vec7 ℝ) : (Vec7.sub a b).toV = a.toV - b.toV := by
  funext j; fin_cases j <;> simp [Vec7.sub, Vec7.get]
theorem Vec7.toV_smul (c : ℝ) (a : Vec7 ℝ) : (Vec7.smul c a).toV = c • a.toV := by
  funext j; fin_cases j <;> simp [Vec7.smul, Vec7.get]
theorem Vec7.toV_sum (l : List (Vec7 ℝ)) : (Vec7.sum l).toV = (l.map Vec7.toV).sum := by
  induction l with
  | nil => simp [Vec7.sum, Vec7.toV_zero]
  | cons a l ih =>
      have : Vec7.sum (a :: l) = Vec7.add a (Vec7.sum l) := rfl
      rw [this, Vec7.toV_add, ih]; simp

theorem Mat7.toM_zero : (Mat7.zero : Mat7 ℝ).toM = 0 := by
  ext i j; fin_cases i <;> fin_cases j <;> simp [Mat7.zero, Vec7.zero, Mat7.get, Mat7.row, Vec7.get] <;> norm_num
theorem Mat7.toM_add (A B : Mat7 ℝ) : (Mat7.add A B).toM = A.toM + B.toM := by
  ext i j; fin_cases i <;> fin_cases j <;> simp [Mat7.add, Vec7.add, Mat7.get, Mat7.row, Vec7.get]
theorem Mat7.toM_smul (c : ℝ) (A : Mat7 ℝ) : (Mat7.smul c A).toM = c • A.toM := by
  ext i j; fin_cases i <;> fin_cases j <;> simp [Mat7.smul, Vec7.smul, Mat7.get, Mat7.row, Vec7.get]
theorem Mat7.toM_sum (l : List (Mat7 ℝ)) : (Mat7.sum l).toM = (l.map Mat7.toM).sum := by
  induction l with
  | nil => simp [Mat7.sum, Mat7.toM_zero]
  | cons a l ih =>
      have : Mat7.sum (a :: l) = Mat7.add a (Mat7.sum l) := rfl
      rw [this, Mat7.toM_add, ih]; simp
theorem Vec7.toM_outer (a b : Vec7 ℝ) : (Vec7.outer a b).toM = vecMulVec a.toV b.toV := by
  ext i j
  fin_cases i <;> fin_cases j <;> simp [Vec7.outer, Vec7.smul, Mat7.get, Mat7.row, Vec7.get, vecMulVec_apply]

/-! the statements in Mathlib terms -/

/-- mean of a list of vectors -/
noncomputable def lmean (P : List (Fin 7 → ℝ)) : Fin 7 → ℝ := (1 / (P.length : ℝ)) • P.sum
/-- unbiased covariance of a list of vectors -/
noncomputable def lcov (P : List (Fin 7 → ℝ)) : Matrix (Fin 7) (Fin 7) ℝ :=
  (1 / ((P.length : ℝ) - 1)) • (P.map fun p => vecMulVec (p - lmean P) (p - lmean P)).sum

theorem mulVec_list_sum (M : Matrix (Fin 7) (Fin 7) ℝ) (P : List (Fin 7 → ℝ)) :
    M *ᵥ P.sum = (P.map (M *ᵥ ·)).sum := by
  induction P with
  | nil => simp
  | cons p P ih => simp [Matrix.mulVec_add, ih]

theorem lmean_map (M : Matrix (Fin 7) (Fin 7) ℝ) (P : List (Fin 7 → ℝ)) :
    lmean (P.map (M *ᵥ ·)) = M *ᵥ lmean P := by
  unfold lmean
  rw [List.length_map, Matrix.mulVec_smul, mulVec_list_sum]

theorem conj_list_sum (M : Matrix (Fin 7) (Fin 7) ℝ) (L : List (Matrix (Fin 7) (Fin 7) ℝ)) :
    M * L.sum * Mᵀ = (L.map fun X => M * X * Mᵀ).sum := by
  induction L with
  | nil => simp
  | cons X L ih => simp [Matrix.mul_add, Matrix.add_mul, ih]

theorem vecMulVec_mulVec (M : Matrix (Fin 7) (Fin 7) ℝ) (u v : Fin 7 → ℝ) :
    vecMulVec (M *ᵥ u) (M *ᵥ v) = M * vecMulVec u v * Mᵀ := by
  ext a b
  simp only [Matrix.mul_apply, vecMulVec_apply, Matrix.mulVec, dotProduct, Matrix.transpose_apply,
    Finset.sum_mul, Finset.mul_sum]
  apply Finset.sum_congr rfl; intro x _
  apply Finset.sum_congr rfl; intro y _
  ring

theorem lcov_map (M : Matrix (Fin 7) (Fin 7) ℝ) (P : List (Fin 7 → ℝ)) :
    lcov (P.map (M *ᵥ ·)) = M * lcov P * Mᵀ := by
  unfold lcov
  rw [lmean_map, List.length_map, Matrix.mul_smul, Matrix.smul_mul, conj_list_sum]
  congr 1
  rw [List.map_map, List.map_map]
  congr 1
  apply List.map_congr_left
  intro p _
  simp only [Function.comp]
  rw [← Matrix.mulVec_sub, vecMulVec_mulVec]

/-! back to the model -/

theorem PBeam.toV_mean (b : PBeam ℝ) : b.mean.toV = lmean (b.particles.map Vec7.toV) := by
  unfold PBeam.mean lmean
  rw [Vec7.toV_smul, Vec7.toV_sum, List.length_map]
  congr 1
  norm_num [Scalar.real_ofNat]

theorem PBeam.toM_cov (b : PBeam ℝ) : b.cov.toM = lcov (b.particles.map Vec7.toV) := by
  unfold PBeam.cov lcov
  simp only
  rw [Mat7.toM_smul, Mat7.toM_sum, List.length_map, List.map_map, List.map_map]
  congr 1
  · norm_num [Scalar.real_ofNat]
  · congr 1
    apply List.map_congr_left
    intro p _
    simp only [Function.comp, Vec7.toM_outer, Vec7.toV_sub, PBeam.toV_mean]

theorem PBeam.act_particles (M : Mat7 ℝ) (b : PBeam ℝ) :
    (PBeam.act M b).particles.map Vec7.toV = (b.particles.map Vec7.toV).map (M.toM *ᵥ ·) := by
  simp only [PBeam.act, List.map_map]
  apply List.map_congr_left
  intro p _
  simp [Function.comp, Mat7.toV_mulVec]

/-- **C06**: the mean of the mapped particles is the mapped mean -/
theorem PBeam.mean_act (M : Mat7 ℝ) (b : PBeam ℝ) :
    (PBeam.act M b).mean = Mat7.mulVec M b.mean := by
  apply Vec7.toV_injective
  rw [PBeam.toV_mean, PBeam.act_particles, lmean_map, Mat7.toV_mulVec, PBeam.toV_mean]

/-- **C06**: the covariance of the mapped particles is `M Σ Mᵀ` -/
theorem PBeam.cov_act (M : Mat7 ℝ) (b : PBeam ℝ) :
    (PBeam.act M b).cov = Mat7.mul M (Mat7.mul b.cov (Mat7.transpose M)) := by
  apply Mat7.toM_injective
  rw [PBeam.toM_cov, PBeam.act_particles, lcov_map, Mat7.toM_mul, Mat7.toM_mul, Mat7.toM_transpose,
    PBeam.toM_cov, Matrix.mul_assoc]

/-- **C06**: tracking the moments = moments of the tracked particles, for every 7×7 map -/
theorem toMBeam_act (M : Mat7 ℝ) (b : PBeam ℝ) :
    (PBeam.act M b).toMBeam = MBeam.act M b.toMBeam := by
  unfold PBeam.toMBeam MBeam.act
  simp only [PBeam.mean_act, PBeam.cov_act]
  rfl
