import CheetahModel.Reverse
import CheetahModel.Proofs.DualSound
/-!
# Reverse mode = forward mode = the derivative, for every expression program (C05)

* `Ex.back_eq`     : the backward pass adds `ct · (forward tangent)` to every leaf accumulator — for *every* program,
  environment, cotangent and accumulator, with no side condition (over ℝ; this is the statement that the tape of local
  partial derivatives is consistent with the chain rule, `where` arms with cotangent 0 included).
* `Ex.fwd_tracks`  : the forward tangent is the true partial derivative wherever the program is `Smooth` at the point
  (non-zero denominators, `sqrt`/`log` away from 0, `where` conditions decided strictly).
* hence `Ex.grad_hasDerivAt`.
-/
open Scalar

@[simp] theorem Dual.sinh_v (a : Dual ℝ) : (Scalar.sinh a).v = Real.sinh a.v := rfl
@[simp] theorem Dual.sinh_d (a : Dual ℝ) : (Scalar.sinh a).d = Real.cosh a.v * a.d := rfl
@[simp] theorem Dual.cosh_v (a : Dual ℝ) : (Scalar.cosh a).v = Real.cosh a.v := rfl
@[simp] theorem Dual.cosh_d (a : Dual ℝ) : (Scalar.cosh a).d = Real.sinh a.v * a.d := rfl
@[simp] theorem Dual.exp_v (a : Dual ℝ) : (Scalar.exp a).v = Real.exp a.v := rfl
@[simp] theorem Dual.exp_d (a : Dual ℝ) : (Scalar.exp a).d = Real.exp a.v * a.d := rfl
@[simp] theorem Dual.log_v (a : Dual ℝ) : (Scalar.log a).v = Real.log a.v := rfl
@[simp] theorem Dual.log_d (a : Dual ℝ) : (Scalar.log a).d = a.d / a.v := rfl
@[simp] theorem Dual.atan_v (a : Dual ℝ) : (Scalar.atan a).v = Real.arctan a.v := rfl
@[simp] theorem Dual.atan_d (a : Dual ℝ) : (Scalar.atan a).d = a.d / ((1.0:ℝ) + a.v * a.v) := rfl

namespace Ex

section unfold
variable (env : Nat → ℝ) (i : Nat) (a b p q x y : Ex ℝ)
@[simp] theorem fwd_var (j : Nat) : fwd env i (var j) = if j = i then Dual.var (env j) else Dual.const (env j) := rfl
@[simp] theorem fwd_const (c : ℝ) : fwd env i (const c) = Dual.const c := rfl
@[simp] theorem fwd_add : fwd env i (add a b) = fwd env i a + fwd env i b := rfl
@[simp] theorem fwd_sub : fwd env i (sub a b) = fwd env i a - fwd env i b := rfl
@[simp] theorem fwd_mul : fwd env i (mul a b) = fwd env i a * fwd env i b := rfl
@[simp] theorem fwd_div : fwd env i (div a b) = fwd env i a / fwd env i b := rfl
@[simp] theorem fwd_neg : fwd env i (neg a) = -fwd env i a := rfl
@[simp] theorem fwd_sin : fwd env i (sin a) = Scalar.sin (fwd env i a) := rfl
@[simp] theorem fwd_cos : fwd env i (cos a) = Scalar.cos (fwd env i a) := rfl
@[simp] theorem fwd_sinh : fwd env i (sinh a) = Scalar.sinh (fwd env i a) := rfl
@[simp] theorem fwd_cosh : fwd env i (cosh a) = Scalar.cosh (fwd env i a) := rfl
@[simp] theorem fwd_sqrt : fwd env i (sqrt a) = Scalar.sqrt (fwd env i a) := rfl
@[simp] theorem fwd_exp : fwd env i (exp a) = Scalar.exp (fwd env i a) := rfl
@[simp] theorem fwd_log : fwd env i (log a) = Scalar.log (fwd env i a) := rfl
@[simp] theorem fwd_atan : fwd env i (atan a) = Scalar.atan (fwd env i a) := rfl
@[simp] theorem fwd_whereLt : fwd env i (whereLt p q x y) =
    sel (Scalar.ltb (fwd env i p).v (fwd env i q).v) (fwd env i x) (fwd env i y) := rfl
@[simp] theorem fwd_whereEq : fwd env i (whereEq p q x y) =
    sel (Scalar.eqb (fwd env i p).v (fwd env i q).v) (fwd env i x) (fwd env i y) := rfl

@[simp] theorem val_var (j : Nat) : val env (var j : Ex ℝ) = env j := rfl
@[simp] theorem val_const (c : ℝ) : val env (const c) = c := rfl
@[simp] theorem val_add : val env (add a b) = val env a + val env b := rfl
@[simp] theorem val_sub : val env (sub a b) = val env a - val env b := rfl
@[simp] theorem val_mul : val env (mul a b) = val env a * val env b := rfl
@[simp] theorem val_div : val env (div a b) = val env a / val env b := rfl
@[simp] theorem val_neg : val env (neg a) = -val env a := rfl
@[simp] theorem val_sin : val env (sin a) = Real.sin (val env a) := rfl
@[simp] theorem val_cos : val env (cos a) = Real.cos (val env a) := rfl
@[simp] theorem val_sinh : val env (sinh a) = Real.sinh (val env a) := rfl
@[simp] theorem val_cosh : val env (cosh a) = Real.cosh (val env a) := rfl
@[simp] theorem val_sqrt : val env (sqrt a) = √(val env a) := rfl
@[simp] theorem val_exp : val env (exp a) = Real.exp (val env a) := rfl
@[simp] theorem val_log : val env (log a) = Real.log (val env a) := rfl
@[simp] theorem val_atan : val env (atan a) = Real.arctan (val env a) := rfl
@[simp] theorem val_whereLt : val env (whereLt p q x y) =
    sel (Scalar.ltb (val env p) (val env q)) (val env x) (val env y) := rfl
@[simp] theorem val_whereEq : val env (whereEq p q x y) =
    sel (Scalar.eqb (val env p) (val env q)) (val env x) (val env y) := rfl
end unfold

theorem sel_v (c : Bool) (a b : Dual ℝ) : (sel c a b).v = sel c a.v b.v := by cases c <;> rfl
theorem sel_d (c : Bool) (a b : Dual ℝ) : (sel c a b).d = sel c a.d b.d := by cases c <;> rfl

/-- the value component of the forward-mode run is the forward pass -/
theorem fwd_v (env : Nat → ℝ) (i : Nat) (e : Ex ℝ) : (fwd env i e).v = val env e := by
  induction e with
  | var j => simp only [fwd_var, val_var]; split <;> rfl
  | const c => rfl
  | whereLt p q x y hp hq hx hy => simp only [fwd_whereLt, val_whereLt, sel_v, hp, hq, hx, hy]
  | whereEq p q x y hp hq hx hy => simp only [fwd_whereEq, val_whereEq, sel_v, hp, hq, hx, hy]
  | _ => simp_all

theorem lit0 : (0.0:ℝ) = 0 := by norm_num
theorem lit1 : (1.0:ℝ) = 1 := by norm_num
theorem lit2 : (2.0:ℝ) = 2 := by norm_num

/-- **reverse mode = forward mode**, for every program: a backward pass with output cotangent `ct` adds `ct · ∂e/∂x_j` —
`∂e/∂x_j` being the forward-mode tangent — to the accumulator of every variable `j` -/
theorem back_eq (env : Nat → ℝ) (e : Ex ℝ) : ∀ (ct : ℝ) (acc : Nat → ℝ) (j : Nat),
    back env e ct acc j = acc j + ct * (fwd env j e).d := by
  induction e with
  | var i =>
      intro ct acc j
      simp only [back, fwd_var]
      by_cases h : j = i
      · subst h; simp [lit1]
      · have h' : ¬ i = j := fun e => h e.symm
        simp [h, h', lit0]
  | const c => intro ct acc j; simp [back, lit0]
  | add a b iha ihb => intro ct acc j; simp only [back, ihb, iha, fwd_add, Dual.add_d]; ring
  | sub a b iha ihb => intro ct acc j; simp only [back, ihb, iha, fwd_sub, Dual.sub_d]; ring
  | mul a b iha ihb =>
      intro ct acc j; simp only [back, ihb, iha, fwd_mul, Dual.mul_d, fwd_v]; ring
  | div a b iha ihb =>
      intro ct acc j
      simp only [back, ihb, iha, fwd_div, Dual.div_d, fwd_v]
      by_cases hb : val env b = 0
      · simp [hb]
      · field_simp; ring
  | neg a iha => intro ct acc j; simp only [back, iha, fwd_neg, Dual.neg_d]; ring
  | sin a iha => intro ct acc j; simp only [back, iha, fwd_sin, Dual.sin_d, fwd_v, Scalar.real_cos]; ring
  | cos a iha => intro ct acc j; simp only [back, iha, fwd_cos, Dual.cos_d, fwd_v, Scalar.real_sin]; ring
  | sinh a iha => intro ct acc j; simp only [back, iha, fwd_sinh, Dual.sinh_d, fwd_v, Scalar.real_cosh]; ring
  | cosh a iha => intro ct acc j; simp only [back, iha, fwd_cosh, Dual.cosh_d, fwd_v, Scalar.real_sinh]; ring
  | sqrt a iha =>
      intro ct acc j; simp only [back, iha, fwd_sqrt, Dual.sqrt_d, fwd_v, Scalar.real_sqrt, lit2]; ring
  | exp a iha => intro ct acc j; simp only [back, iha, fwd_exp, Dual.exp_d, fwd_v, Scalar.real_exp]; ring
  | log a iha => intro ct acc j; simp only [back, iha, fwd_log, Dual.log_d, fwd_v]; ring
  | atan a iha => intro ct acc j; simp only [back, iha, fwd_atan, Dual.atan_d, fwd_v, lit1]; ring
  | whereLt p q x y _ _ ihx ihy =>
      intro ct acc j
      simp only [back, ihy, ihx, fwd_whereLt, sel_d, fwd_v]
      cases Scalar.ltb (val env p) (val env q) <;> simp [sel, lit0]
  | whereEq p q x y _ _ ihx ihy =>
      intro ct acc j
      simp only [back, ihy, ihx, fwd_whereEq, sel_d, fwd_v]
      cases Scalar.eqb (val env p) (val env q) <;> simp [sel, lit0]

/-- the gradient of one backward pass from cotangent 1 is the forward tangent -/
theorem grad_eq_fwd (env : Nat → ℝ) (e : Ex ℝ) (i : Nat) : grad env e i = (fwd env i e).d := by
  unfold grad; rw [back_eq]; simp [lit0, lit1]

/-- where the program is differentiable by construction: every operation is applied at a point of differentiability
and every `where` condition is decided strictly (so that it is constant near the point) -/
def Smooth (env : Nat → ℝ) : Ex ℝ → Prop
  | var _ => True
  | const _ => True
  | add a b => a.Smooth env ∧ b.Smooth env
  | sub a b => a.Smooth env ∧ b.Smooth env
  | mul a b => a.Smooth env ∧ b.Smooth env
  | div a b => a.Smooth env ∧ b.Smooth env ∧ val env b ≠ 0
  | neg a => a.Smooth env
  | sin a => a.Smooth env
  | cos a => a.Smooth env
  | sinh a => a.Smooth env
  | cosh a => a.Smooth env
  | sqrt a => a.Smooth env ∧ val env a ≠ 0
  | exp a => a.Smooth env
  | log a => a.Smooth env ∧ val env a ≠ 0
  | atan a => a.Smooth env
  | whereLt p q x y => p.Smooth env ∧ q.Smooth env ∧ val env p ≠ val env q ∧
      (if val env p < val env q then x.Smooth env else y.Smooth env)
  | whereEq p q _ y => p.Smooth env ∧ q.Smooth env ∧ val env p ≠ val env q ∧ y.Smooth env

@[simp] theorem upd_self (env : Nat → ℝ) (i : Nat) : upd env i (env i) = env := by
  funext j; unfold upd; split
  · next h => rw [h]
  · rfl

theorem Tracks.congr' {a : Dual ℝ} {f g : ℝ → ℝ} {x : ℝ} (h : Tracks a f x) (he : g =ᶠ[nhds x] f) : Tracks a g x :=
  ⟨h.1.trans he.eq_of_nhds.symm, h.2.congr_of_eventuallyEq he⟩

/-- **forward mode is sound for every smooth program**: the dual run carries the value and the partial derivative -/
theorem fwd_tracks (env : Nat → ℝ) (i : Nat) (e : Ex ℝ) (h : e.Smooth env) :
    Tracks (fwd env i e) (fun t => val (upd env i t) e) (env i) := by
  induction e with
  | var j =>
      simp only [fwd_var, val_var, upd]
      by_cases hj : j = i
      · subst hj; simp only [if_true]; exact Tracks.var _
      · simp only [hj, if_false]; exact Tracks.const _ _
  | const c => exact Tracks.const _ _
  | add a b iha ihb => exact (iha h.1).add (ihb h.2)
  | sub a b iha ihb => exact (iha h.1).sub (ihb h.2)
  | mul a b iha ihb => exact (iha h.1).mul (ihb h.2)
  | div a b iha ihb => exact (iha h.1).div (ihb h.2.1) (by show val (upd env i (env i)) b ≠ 0; rw [upd_self]; exact h.2.2)
  | neg a iha => exact (iha h).neg
  | sin a iha => exact (iha h).sin
  | cos a iha => exact (iha h).cos
  | sinh a iha => exact (iha h).sinh
  | cosh a iha => exact (iha h).cosh
  | sqrt a iha => exact (iha h.1).sqrt (by show val (upd env i (env i)) a ≠ 0; rw [upd_self]; exact h.2)
  | exp a iha => exact (iha h).exp
  | log a iha => exact (iha h.1).log (by show val (upd env i (env i)) a ≠ 0; rw [upd_self]; exact h.2)
  | atan a iha => exact (iha h).atan
  | whereLt p q x y ihp ihq ihx ihy =>
      obtain ⟨hp, hq, hne, hsel⟩ := h
      have tp := ihp hp
      have tq := ihq hq
      have cp : ContinuousAt (fun t => val (upd env i t) p) (env i) := tp.2.continuousAt
      have cq : ContinuousAt (fun t => val (upd env i t) q) (env i) := tq.2.continuousAt
      rcases lt_or_gt_of_ne hne with hlt | hgt
      · rw [if_pos hlt] at hsel
        have hc : Scalar.ltb (fwd env i p).v (fwd env i q).v = true := by
          rw [fwd_v, fwd_v, Scalar.real_ltb]; exact hlt
        rw [fwd_whereLt, hc]
        refine Tracks.congr' (ihx hsel) ?_
        have ev : ∀ᶠ t in nhds (env i), val (upd env i t) p < val (upd env i t) q := by
          have := cp.prodMk cq
          exact (this.eventually (isOpen_lt continuous_fst continuous_snd |>.mem_nhds (by simpa using hlt)))
        filter_upwards [ev] with t ht
        have : Scalar.ltb (val (upd env i t) p) (val (upd env i t) q) = true := by
          rw [Scalar.real_ltb]; exact ht
        simp only [val_whereLt, this]; rfl
      · rw [if_neg (not_lt.mpr hgt.le)] at hsel
        have hc : Scalar.ltb (fwd env i p).v (fwd env i q).v = false := by
          rw [fwd_v, fwd_v, Scalar.real_ltb_false]; exact not_lt.mpr hgt.le
        rw [fwd_whereLt, hc]
        refine Tracks.congr' (ihy hsel) ?_
        have ev : ∀ᶠ t in nhds (env i), val (upd env i t) q < val (upd env i t) p := by
          have := cq.prodMk cp
          exact (this.eventually (isOpen_lt continuous_fst continuous_snd |>.mem_nhds (by simpa using hgt)))
        filter_upwards [ev] with t ht
        have : Scalar.ltb (val (upd env i t) p) (val (upd env i t) q) = false := by
          rw [Scalar.real_ltb_false]; exact not_lt.mpr ht.le
        simp only [val_whereLt, this]; rfl
  | whereEq p q x y ihp ihq _ ihy =>
      obtain ⟨hp, hq, hne, hy⟩ := h
      have tp := ihp hp
      have tq := ihq hq
      have cp : ContinuousAt (fun t => val (upd env i t) p) (env i) := tp.2.continuousAt
      have cq : ContinuousAt (fun t => val (upd env i t) q) (env i) := tq.2.continuousAt
      have hc : Scalar.eqb (fwd env i p).v (fwd env i q).v = false := by
        rw [fwd_v, fwd_v, Scalar.real_eqb_false]; exact hne
      rw [fwd_whereEq, hc]
      refine Tracks.congr' (ihy hy) ?_
      have ev : ∀ᶠ t in nhds (env i), val (upd env i t) p ≠ val (upd env i t) q := by
        have := cp.prodMk cq
        exact (this.eventually (isOpen_ne_fun continuous_fst continuous_snd |>.mem_nhds (by simpa using hne)))
      filter_upwards [ev] with t ht
      have : Scalar.eqb (val (upd env i t) p) (val (upd env i t) q) = false := by
        rw [Scalar.real_eqb_false]; exact ht
      simp only [val_whereEq, this]; rfl

/-- **C05, end to end for expression programs**: the gradient a reverse-mode backward pass returns for variable `i` is
the partial derivative of the program's value with respect to that variable, at every point where the program is smooth -/
theorem grad_hasDerivAt (env : Nat → ℝ) (e : Ex ℝ) (i : Nat) (h : e.Smooth env) :
    HasDerivAt (fun t => val (upd env i t) e) (grad env e i) (env i) := by
  rw [grad_eq_fwd]; exact (fwd_tracks env i e h).2

end Ex
