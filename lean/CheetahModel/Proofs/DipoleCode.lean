import CheetahModel.Proofs.Flow
import CheetahModel.Batch
/-!
# `Dipole.transfer_map` as coded (per-entry `torch.where` on the length) refines the model's reading (C04, C02)

The code computes `base_rmatrix` for every entry and then overwrites `R[1, 6]` with the angle where the length is zero.
For zero length `base_rmatrix` is the identity (`hx = 0` there), so the body is the thin corrector; for non-zero length
the overwrite is a no-op.  Hence `dipoleMapCode = dipoleMap`, and on a batch every sample gets its own scalar map.
-/
open Scalar Matrix

theorem Mat7.get_set (A : Mat7 ℝ) (i j i' j' : Fin 7) (v : ℝ) :
    (A.set i j v).get i' j' = if i' = i ∧ j' = j then v else A.get i' j' := by
  fin_cases i' <;> fin_cases j' <;> rfl

theorem Mat7.set_get_self (A : Mat7 ℝ) (i j : Fin 7) : A.set i j (A.get i j) = A := by
  apply Mat7.ext_get
  intro i' j'
  rw [Mat7.get_set]
  split
  · rename_i h; rw [h.1, h.2]
  · rfl

theorem dipoleBodyCode_toM (p : DipoleP ℝ) (E m : ℝ) :
    (dipoleBodyCode p E m).toM = (dipoleBody p E m).toM := by
  unfold dipoleBodyCode dipoleBody
  by_cases hL : p.L = 0
  · rw [hL]
    have e : Scalar.eqb (0:ℝ) (0.0:ℝ) = true := by rw [Scalar.real_eqb]; norm_num
    have hhx : dipoleHx (0:ℝ) p.angle = 0 := by
      unfold dipoleHx; rw [if_pos e]; norm_num
    simp only [e, if_true, hhx]
    have hk : guardK1 p.k1 + (0:ℝ) * 0 ≠ 0 := by simp; exact guardK1_ne_zero p.k1
    have h1 := baseR0_zero p.k1 0 E m hk
    ext i j
    have hij := congrFun (congrFun h1 i) j
    simp only [Mat7.toM_apply] at hij ⊢
    rw [Mat7.get_set, hij]
    fin_cases i <;> fin_cases j <;> simp [dipoleThin, Mat7.get, Mat7.row, Vec7.get, Mat7.ofRows, row7] <;> norm_num
  · have e : Scalar.eqb p.L (0.0:ℝ) = false := by rw [Scalar.real_eqb_false]; norm_num; exact hL
    simp only [e, Bool.false_eq_true, if_false]
    rw [Mat7.set_get_self]

/-- the coded `Dipole.transfer_map` is the model's `dipoleMap` -/
theorem dipoleMapCode_toM (p : DipoleP ℝ) (E m : ℝ) : (dipoleMapCode p E m).toM = (dipoleMap p E m).toM := by
  have hb : (dipoleBodyCode p E m).toM =
      (if Scalar.eqb p.L (0.0:ℝ) = true then dipoleThin p.L p.angle
        else baseR0 p.L p.k1 (dipoleHx p.L p.angle) E m).toM := dipoleBodyCode_toM p E m
  unfold dipoleMapCode dipoleMap
  simp only [Mat7.toM_mul, hb]

/-- batched dipole body = per-sample body, for every mixture of zero-length and finite-length samples -/
theorem dipole_batched_eq_map (ps : List (DipoleP ℝ)) (E m : ℝ) :
    (dipoleBodyBatch ps E m).map Mat7.toM = ps.map fun p => (dipoleBody p E m).toM := by
  simp [dipoleBodyBatch, dipoleBodyCode_toM]
