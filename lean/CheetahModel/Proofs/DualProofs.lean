import CheetahModel.Proofs.RealInst
import CheetahModel.Dual
import Mathlib.Analysis.SpecialFunctions.Trigonometric.Deriv
import Mathlib.Analysis.SpecialFunctions.Sqrt
import Mathlib.Analysis.Calculus.Deriv.Mul
import Mathlib.Analysis.Calculus.Deriv.Inv
import Mathlib.Tactic.FieldSimp
import Mathlib.Tactic.Ring
import Mathlib.Tactic.NormNum
/-!
# Forward-mode tangents of the model are the true derivatives away from the guards — and are not at the guards (C05)
-/
open Scalar

@[simp] theorem Dual.add_v (a b : Dual ℝ) : (a + b).v = a.v + b.v := rfl
@[simp] theorem Dual.add_d (a b : Dual ℝ) : (a + b).d = a.d + b.d := rfl
@[simp] theorem Dual.sub_v (a b : Dual ℝ) : (a - b).v = a.v - b.v := rfl
@[simp] theorem Dual.sub_d (a b : Dual ℝ) : (a - b).d = a.d - b.d := rfl
@[simp] theorem Dual.mul_v (a b : Dual ℝ) : (a * b).v = a.v * b.v := rfl
@[simp] theorem Dual.mul_d (a b : Dual ℝ) : (a * b).d = a.d * b.v + a.v * b.d := rfl
@[simp] theorem Dual.div_v (a b : Dual ℝ) : (a / b).v = a.v / b.v := rfl
@[simp] theorem Dual.div_d (a b : Dual ℝ) : (a / b).d = (a.d * b.v - a.v * b.d) / (b.v * b.v) := rfl
@[simp] theorem Dual.neg_v (a : Dual ℝ) : (-a).v = -a.v := rfl
@[simp] theorem Dual.neg_d (a : Dual ℝ) : (-a).d = -a.d := rfl
@[simp] theorem Dual.sin_v (a : Dual ℝ) : (Scalar.sin a).v = Real.sin a.v := rfl
@[simp] theorem Dual.sin_d (a : Dual ℝ) : (Scalar.sin a).d = Real.cos a.v * a.d := rfl
@[simp] theorem Dual.cos_v (a : Dual ℝ) : (Scalar.cos a).v = Real.cos a.v := rfl
@[simp] theorem Dual.cos_d (a : Dual ℝ) : (Scalar.cos a).d = -(Real.sin a.v) * a.d := rfl
@[simp] theorem Dual.sqrt_v (a : Dual ℝ) : (Scalar.sqrt a).v = √a.v := rfl
@[simp] theorem Dual.sqrt_d (a : Dual ℝ) : (Scalar.sqrt a).d = a.d / ((2.0:ℝ) * √a.v) := rfl
@[simp] theorem Dual.var_v (x : ℝ) : (Dual.var x).v = x := rfl
@[simp] theorem Dual.var_d (x : ℝ) : (Dual.var x).d = (1.0:ℝ) := rfl
@[simp] theorem Dual.const_v (x : ℝ) : (Dual.const x).v = x := rfl
@[simp] theorem Dual.const_d (x : ℝ) : (Dual.const x).d = (0.0:ℝ) := rfl
theorem Dual.ltb_eq (a b : Dual ℝ) : Scalar.ltb a b = Scalar.ltb a.v b.v := rfl
theorem Dual.eqb_eq (a b : Dual ℝ) : Scalar.eqb a b = Scalar.eqb a.v b.v := rfl
theorem Dual.lit_v (m : ℕ) (s : Bool) (e : ℕ) :
    (OfScientific.ofScientific m s e : Dual ℝ).v = (OfScientific.ofScientific m s e : ℝ) := rfl
theorem Dual.lit_d (m : ℕ) (s : Bool) (e : ℕ) : (OfScientific.ofScientific m s e : Dual ℝ).d = (0.0:ℝ) := rfl

/-- focusing branch of `cs` on dual numbers, differentiating w.r.t. the strength -/
theorem cs_dual_pos (k L : ℝ) (hk : 0 < k) :
    cs (Dual.var k) (Dual.const L) =
      ⟨⟨Real.cos (√k * L), -(Real.sin (√k * L)) * ((1.0:ℝ) / ((2.0:ℝ) * √k) * L + √k * (0.0:ℝ))⟩,
       ⟨Real.sin (√k * L) / √k,
        (Real.cos (√k * L) * ((1.0:ℝ) / ((2.0:ℝ) * √k) * L + √k * (0.0:ℝ)) * √k
          - Real.sin (√k * L) * ((1.0:ℝ) / ((2.0:ℝ) * √k))) / (√k * √k)⟩⟩ := by
  have h : Scalar.ltb (0.0 : Dual ℝ) (Dual.var k) = true := by
    rw [Dual.ltb_eq, Dual.var_v, Dual.lit_v, Scalar.real_ltb]; norm_num; exact hk
  unfold cs
  simp only [h, if_true]
  rfl

/-- **C05** (away from the guard): the tangent of the cos-like focusing function w.r.t. the strength is its derivative -/
theorem cs_c_dual_correct (k L : ℝ) (hk : 0 < k) :
    HasDerivAt (fun t => Real.cos (√t * L)) ((cs (Dual.var k) (Dual.const L)).c.d) k := by
  rw [cs_dual_pos k L hk]
  simp only
  have hs : HasDerivAt (fun t => √t) (1 / (2 * √k)) k := Real.hasDerivAt_sqrt hk.ne'
  have h1 : HasDerivAt (fun t => √t * L) (1 / (2 * √k) * L) k := hs.mul_const L
  refine (h1.cos).congr_deriv ?_
  norm_num

/-- … and so is the tangent of the sin-like function `sin(√k L)/√k` -/
theorem cs_s_dual_correct (k L : ℝ) (hk : 0 < k) :
    HasDerivAt (fun t => Real.sin (√t * L) / √t) ((cs (Dual.var k) (Dual.const L)).s.d) k := by
  rw [cs_dual_pos k L hk]
  simp only
  have hsk : √k ≠ 0 := (Real.sqrt_pos.mpr hk).ne'
  have hs : HasDerivAt (fun t => √t) (1 / (2 * √k)) k := Real.hasDerivAt_sqrt hk.ne'
  have h1 : HasDerivAt (fun t => √t * L) (1 / (2 * √k) * L) k := hs.mul_const L
  refine ((h1.sin).div hs hsk).congr_deriv ?_
  norm_num
  field_simp

/-- the guarded strength on dual numbers: at `k1 ≠ 0` the tangent passes through … -/
theorem guard_dual_ne (k1 : ℝ) (h : k1 ≠ 0) :
    (if Scalar.eqb (Dual.var k1) (0.0 : Dual ℝ) then (1e-12 : Dual ℝ) else Dual.var k1).d = (1.0:ℝ) := by
  have : Scalar.eqb (Dual.var k1) (0.0 : Dual ℝ) = false := by
    rw [Dual.eqb_eq, Dual.var_v, Dual.lit_v, Scalar.real_eqb_false]; norm_num; exact h
  simp [this]

/-- **C05 KNOWN FINDING** … at exactly `k1 = 0` the guard `k1[k1 == 0] = 1e-12` replaces the strength by a
constant: the tangent (= the gradient autograd returns) is 0, although the map does depend on `k1` there -/
theorem guard_dual_zero :
    (if Scalar.eqb (Dual.var (0:ℝ)) (0.0 : Dual ℝ) then (1e-12 : Dual ℝ) else Dual.var 0).d = (0.0:ℝ) := by
  have : Scalar.eqb (Dual.var (0:ℝ)) (0.0 : Dual ℝ) = true := by
    rw [Dual.eqb_eq, Dual.var_v, Dual.lit_v, Scalar.real_eqb]; norm_num
  simp only [this, if_true]
  rfl

/-- the true sensitivity at zero strength is not zero: `d/dk [−k·sin(√k L)/√k] → −L` as `k → 0⁺`; here in the
form: for every `k > 0` the entry `R[1,0] = −k·s(k)` has derivative `−s(k) − k·s'(k)`, and `s(k) → L` -/
theorem quad_r10_derivative (k L : ℝ) (hk : 0 < k) :
    HasDerivAt (fun t => -t * (Real.sin (√t * L) / √t))
      (-(Real.sin (√k * L) / √k) + -k * (cs (Dual.var k) (Dual.const L)).s.d) k := by
  have h1 := cs_s_dual_correct k L hk
  have h2 : HasDerivAt (fun t : ℝ => -t) (-1) k := (hasDerivAt_id' k).neg
  have := h2.mul h1
  refine this.congr_deriv ?_
  ring
