import CheetahModel.Proofs.NamelistProofs
/-!
# `define_element`: inheritance and overrides (C13, statement level) — core Lean only
-/
namespace Nml

/-- the expression of the last assignment to `k` in a property list -/
def lastB : List (String × Ex) → String → Option Ex
  | [], _ => none
  | (k', e) :: r, k =>
    match lastB r k with
    | some e' => some e'
    | none => if k' == k then some e else none

theorem getProp_setProp_other (ps : List (String × Int)) (k x : String) (v : Int) (hx : x ≠ k) :
    getProp (setProp ps k v) x = getProp ps x := dget_dset_other ps k x v hx

/-- the properties a `define_element` statement produces: for every key, the value — in the context *before* the statement —
of the last assignment to it in the statement, and otherwise what the base dictionary (the parent's copy) holds -/
theorem evalProps_get (c : Ctx) : ∀ (props : List (String × Ex)) (base q : List (String × Int)),
    evalProps c base props = some q → ∀ k, getProp q k =
      (match lastB props k with
       | some e => eval c e
       | none => getProp base k)
  | [], base, q, h, k => by
      simp only [evalProps, Option.some.injEq] at h; subst h; simp [lastB]
  | (k', e) :: r, base, q, h, k => by
      simp only [evalProps] at h
      cases hv : eval c e with
      | none => simp [hv] at h
      | some v =>
        simp only [hv, Option.bind_eq_bind, Option.bind_some] at h
        have ih := evalProps_get c r (setProp base k' v) q h k
        rw [ih]
        simp only [lastB]
        cases hl : lastB r k with
        | some e' => rfl
        | none =>
          by_cases hk : (k' == k) = true
          · have : k' = k := by simpa using hk
            subst this
            simp [getProp_setProp_same, hv]
          · have hne : k ≠ k' := fun e => hk (by simp [e])
            simp only [hk, Bool.false_eq_true, if_false]
            exact getProp_setProp_other base k' k v hne

/-- **`define_element`**: `name: type, k₁ = e₁, …` binds `name` to a dictionary of the parent's element type (or of the named
type, when no element of that name exists) whose properties are the parent's — copied, not shared — overridden by the
statement's assignments, each evaluated in the context before the statement; no other name changes -/
theorem define_element_spec (c c' : Ctx) (name etype : String) (props : List (String × Ex))
    (h : step c (.defElem name etype props) = some c') :
    ∃ t base q, ((lookup c etype = some (.elem t base)) ∨ (lookup c etype = none ∧ t = etype ∧ base = [])) ∧
      lookup c' name = some (.elem t q) ∧
      (∀ k, getProp q k = (match lastB props k with | some e => eval c e | none => getProp base k)) ∧
      (∀ x, x ≠ name → lookup c' x = lookup c x) := by
  simp only [step] at h
  cases hl : lookup c etype with
  | none =>
    simp only [hl] at h
    cases hq : evalProps c [] props with
    | none => simp [hq] at h
    | some q =>
      simp only [hq, Option.bind_eq_bind, Option.bind_some, Option.pure_def, Option.some.injEq] at h
      subst h
      exact ⟨etype, [], q, Or.inr ⟨rfl, rfl, rfl⟩, lookup_set_same _ _ _, evalProps_get c props [] q hq,
        fun x hx => lookup_set_other _ _ _ _ hx⟩
  | some ent =>
    cases ent with
    | num n => simp [hl] at h
    | line items => simp [hl] at h
    | elem t ps =>
      simp only [hl] at h
      cases hq : evalProps c ps props with
      | none => simp [hq] at h
      | some q =>
        simp only [hq, Option.bind_eq_bind, Option.bind_some, Option.pure_def, Option.some.injEq] at h
        subst h
        exact ⟨t, ps, q, Or.inl rfl, lookup_set_same _ _ _, evalProps_get c props ps q hq,
          fun x hx => lookup_set_other _ _ _ _ hx⟩

/-- inheritance copies: a later assignment to the parent does not reach the child -/
example :
    ((run [] [.defElem "q0" "quadrupole" [("k1", .lit 1)], .defElem "q1" "q0" [],
              .assignProp none "q0" "k1" (.lit 9)]).map fun c => (lookup c "q0", lookup c "q1"))
      = some (some (.elem "quadrupole" [("k1", 9)]), some (.elem "quadrupole" [("k1", 1)])) := by
  decide

end Nml
