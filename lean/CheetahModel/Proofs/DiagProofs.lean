import CheetahModel.Proofs.RealInst
import CheetahModel.Diagnostics
/-!
# Screen pixel index and the reading cache (C20, C11)
-/
open Scalar

theorem binIndex_go_spec (lo hi : ℝ) (n : ℕ) (x : ℝ) :
    ∀ (fuel i k : ℕ), binIndex.go lo hi n x i fuel = some k →
      i ≤ k ∧ k < i + fuel ∧ linspaceAt lo hi n k ≤ x ∧
        (x < linspaceAt lo hi n (k + 1) ∨ (k + 1 = n ∧ x ≤ linspaceAt lo hi n (k + 1)))
  | 0, i, k, h => by simp [binIndex.go] at h
  | fuel + 1, i, k, h => by
      unfold binIndex.go at h
      simp only at h
      split at h
      · rename_i hc
        injection h with h
        subst h
        simp only [Bool.and_eq_true, Bool.or_eq_true, Scalar.real_leb, Scalar.real_ltb, beq_iff_eq] at hc
        refine ⟨le_refl _, by omega, hc.1, ?_⟩
        rcases hc.2 with h1 | h1
        · left; exact h1
        · right; exact h1
      · have := binIndex_go_spec lo hi n x fuel (i + 1) k h
        refine ⟨by omega, by omega, this.2.2.1, this.2.2.2⟩

/-- **C20**: the bin index returned for `x` is in range and its bin contains `x` (half-open, last bin closed) -/
theorem binIndex_spec (lo hi : ℝ) (n : ℕ) (x : ℝ) (k : ℕ) (h : binIndex lo hi n x = some k) :
    k < n ∧ linspaceAt lo hi n k ≤ x ∧
      (x < linspaceAt lo hi n (k + 1) ∨ (k + 1 = n ∧ x ≤ linspaceAt lo hi n (k + 1))) := by
  unfold binIndex at h
  have := binIndex_go_spec lo hi n x n 0 k h
  exact ⟨by omega, this.2.2.1, this.2.2.2⟩

/-- **C20**: the image has shape (vertical pixels, horizontal pixels) after binning: every pixel a particle can
fall into has `row < H/binning`, `col < W/binning`; the pixel contains `(x − dx, y − dy)`; row 0 is the top -/
theorem pixelOf_spec (s : ScreenP ℝ) (x y : ℝ) (r c : ℕ) (h : pixelOf s x y = some (r, c)) :
    r < s.effH ∧ c < s.effW ∧
    (∃ iy, r = s.effH - 1 - iy ∧ iy < s.effH ∧
      linspaceAt (-(s.resH * s.pxH / 2)) (s.resH * s.pxH / 2) s.effH iy ≤ y - s.dy) ∧
    linspaceAt (-(s.resW * s.pxW / 2)) (s.resW * s.pxW / 2) s.effW c ≤ x - s.dx := by
  have h20 : (2.0:ℝ) = 2 := by norm_num
  unfold pixelOf at h
  simp only [Scalar.real_ofNat, h20] at h
  split at h
  · rename_i ix iy hx hy
    injection h with h
    injection h with h1 h2
    have sx := binIndex_spec _ _ _ _ _ hx
    have sy := binIndex_spec _ _ _ _ _ hy
    subst h2
    refine ⟨by omega, sx.1, ⟨iy, h1.symm, sy.1, sy.2.1⟩, sx.2.1⟩
  · cases h

/-! ## the reading cache -/

/-- the cache never holds a stale image: it is empty or the image of the stored beam -/
def Coherent {B I : Type} (img : Option B → I) (st : ScreenState B I) : Prop :=
  st.cached = none ∨ st.cached = some (img st.readBeam)

theorem screenStep_coherent {B I : Type} (img : Option B → I) (st : ScreenState B I) (op : ScreenOp B)
    (h : Coherent img st) : Coherent img (screenStep img st op).1 := by
  cases op with
  | track active b =>
      cases active
      · simpa [screenStep] using h
      · left; simp [screenStep]
  | read =>
      cases hc : st.cached with
      | none => right; simp [screenStep, hc]
      | some i => simpa [screenStep, hc] using h

/-- a read returns the image of the stored beam -/
theorem screenStep_read {B I : Type} (img : Option B → I) (st : ScreenState B I) (h : Coherent img st) :
    (screenStep img st .read).2 = some (img st.readBeam) := by
  rcases h with h | h
  · simp [screenStep, h]
  · simp [screenStep, h]

/-- which beam is stored after one step -/
def stepBeam {B : Type} (cur : Option B) : ScreenOp B → Option B
  | .track active b => if active then some b else cur
  | .read => cur

theorem screenStep_readBeam {B I : Type} (img : Option B → I) (st : ScreenState B I) (op : ScreenOp B) :
    (screenStep img st op).1.readBeam = stepBeam st.readBeam op := by
  cases op with
  | track active b => cases active <;> simp [screenStep, stepBeam]
  | read => cases hc : st.cached <;> simp [screenStep, stepBeam, hc]

/-- the beam stored after a history = the beam of the last active `track` -/
def lastBeam {B : Type} : Option B → List (ScreenOp B) → Option B
  | cur, [] => cur
  | cur, .track active b :: ops => lastBeam (if active then some b else cur) ops
  | cur, .read :: ops => lastBeam cur ops

theorem lastBeam_cons {B : Type} (cur : Option B) (op : ScreenOp B) (ops : List (ScreenOp B)) :
    lastBeam cur (op :: ops) = lastBeam (stepBeam cur op) ops := by
  cases op <;> rfl

theorem screenRun_spec {B I : Type} (img : Option B → I) :
    ∀ (ops : List (ScreenOp B)) (st : ScreenState B I), Coherent img st →
      Coherent img (screenRun img st ops) ∧ (screenRun img st ops).readBeam = lastBeam st.readBeam ops
  | [], st, h => ⟨h, rfl⟩
  | op :: ops, st, h => by
      have hc := screenStep_coherent img st op h
      have ih := screenRun_spec img ops (screenStep img st op).1 hc
      refine ⟨ih.1, ?_⟩
      rw [show screenRun img st (op :: ops) = screenRun img (screenStep img st op).1 ops from rfl, ih.2,
        screenStep_readBeam, lastBeam_cons]

/-- **C11 / C20**: after any history of tracks (active or not) and read-outs, the reading reflects the most recent
beam that passed the active screen — never a cached image of an earlier beam -/
theorem reading_reflects_last_beam {B I : Type} (img : Option B → I) (ops : List (ScreenOp B)) :
    (screenStep img (screenRun img ⟨none, none⟩ ops) .read).2 = some (img (lastBeam none ops)) := by
  have h := screenRun_spec img ops (⟨none, none⟩ : ScreenState B I) (Or.inl rfl)
  rw [screenStep_read img _ h.1, h.2]
