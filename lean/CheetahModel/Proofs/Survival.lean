import CheetahModel.Proofs.SemLawful
import Mathlib.Tactic.Linarith
import Mathlib.Tactic.FieldSimp
/-!
# Survival bookkeeping and survival-weighted statistics (C10)
-/
open Scalar

/-! ## list sums at ℝ -/

theorem listSum_eq (l : List ℝ) : listSum l = l.sum := by
  unfold listSum
  have h0 : (0.0:ℝ) = 0 := by norm_num
  rw [h0]
  have : ∀ (a : ℝ), l.foldl (· + ·) a = a + l.sum := by
    induction l with
    | nil => intro a; simp
    | cons x l ih => intro a; simp [List.foldl, ih]; ring
  rw [this]; simp

/-- a weighted sample: (value, weight) pairs with 0/1 weights = survival of hard-edged apertures -/
noncomputable def survivors (xw : List (ℝ × ℝ)) : List ℝ := (xw.filter fun p => p.2 = 1).map Prod.fst

theorem sum_w (xw : List (ℝ × ℝ)) (h : ∀ p ∈ xw, p.2 = 0 ∨ p.2 = 1) :
    (xw.map Prod.snd).sum = (survivors xw).length := by
  induction xw with
  | nil => simp [survivors]
  | cons p l ih =>
      have hp := h p (by simp)
      have ih' := ih (fun q hq => h q (by simp [hq]))
      unfold survivors at ih' ⊢
      rcases hp with h0 | h1
      · simp [List.filter, h0, ih']
      · simp [List.filter, h1, ih']; ring

theorem sum_w_sq (xw : List (ℝ × ℝ)) (h : ∀ p ∈ xw, p.2 = 0 ∨ p.2 = 1) :
    (xw.map fun p => p.2 * p.2).sum = (survivors xw).length := by
  rw [← sum_w xw h]
  congr 1
  apply List.map_congr_left
  intro p hp
  rcases h p hp with h0 | h1
  · simp [h0]
  · simp [h1]

theorem sum_wf (f : ℝ → ℝ) (xw : List (ℝ × ℝ)) (h : ∀ p ∈ xw, p.2 = 0 ∨ p.2 = 1) :
    (xw.map fun p => p.2 * f p.1).sum = ((survivors xw).map f).sum := by
  induction xw with
  | nil => simp [survivors]
  | cons p l ih =>
      have hp := h p (by simp)
      have ih' := ih (fun q hq => h q (by simp [hq]))
      unfold survivors at ih' ⊢
      rcases hp with h0 | h1
      · simp [List.filter, h0, ih']
      · simp [List.filter, h1, ih']

/-- ordinary mean and unbiased variance of a list -/
noncomputable def smean (l : List ℝ) : ℝ := l.sum / l.length
noncomputable def svar (l : List ℝ) : ℝ := (l.map fun x => (x - smean l) ^ 2).sum / ((l.length : ℝ) - 1)

/-- weighted mean / variance written on the pair list -/
noncomputable def wmeanP (xw : List (ℝ × ℝ)) : ℝ := (xw.map fun p => p.1 * p.2).sum / (xw.map Prod.snd).sum
noncomputable def wvarP (xw : List (ℝ × ℝ)) : ℝ :=
  (xw.map fun p => p.2 * ((p.1 - wmeanP xw) * (p.1 - wmeanP xw))).sum /
    ((xw.map Prod.snd).sum - (xw.map fun p => p.2 * p.2).sum / (xw.map Prod.snd).sum)

/-- **C10**: with 0/1 survival the weighted mean is the mean of the survivors -/
theorem wmean_survivors (xw : List (ℝ × ℝ)) (h : ∀ p ∈ xw, p.2 = 0 ∨ p.2 = 1) :
    wmeanP xw = smean (survivors xw) := by
  unfold wmeanP smean
  rw [sum_w xw h]
  congr 1
  have := sum_wf id xw h
  simp only [id, List.map_id] at this
  rw [← this]
  congr 1
  apply List.map_congr_left
  intro p _; ring

/-- **C10**: … and the unbiased weighted variance is the unbiased variance of the survivors (≥ 2 survivors) -/
theorem wvar_survivors (xw : List (ℝ × ℝ)) (h : ∀ p ∈ xw, p.2 = 0 ∨ p.2 = 1)
    (h2 : 2 ≤ (survivors xw).length) : wvarP xw = svar (survivors xw) := by
  unfold wvarP svar
  rw [wmean_survivors xw h, sum_w xw h, sum_w_sq xw h]
  have hc : ((survivors xw).length : ℝ) ≠ 0 := by
    have : (2:ℝ) ≤ (survivors xw).length := by exact_mod_cast h2
    linarith
  rw [div_self hc]
  congr 1
  have := sum_wf (fun x => (x - smean (survivors xw)) * (x - smean (survivors xw))) xw h
  rw [this]
  congr 1
  apply List.map_congr_left
  intro x _; ring

/-- total charge counts lost particles as absent -/
theorem total_charge_survivors (qw : List (ℝ × ℝ)) (h : ∀ p ∈ qw, p.2 = 0 ∨ p.2 = 1) :
    (qw.map fun p => p.1 * p.2).sum = (survivors qw).sum := by
  have := sum_wf id qw h
  simp only [id, List.map_id] at this
  rw [← this]
  congr 1
  apply List.map_congr_left
  intro p _; ring

/-! ## survival along a lattice -/

/-- pointwise `0 ≤ new ≤ old ≤ 1` -/
def SurvLE (new old : List ℝ) : Prop := List.Forall₂ (fun n o => 0 ≤ n ∧ n ≤ o) new old

theorem SurvLE.refl (l : List ℝ) (h : ∀ s ∈ l, 0 ≤ s) : SurvLE l l := by
  induction l with
  | nil => exact List.Forall₂.nil
  | cons a l ih =>
      exact List.Forall₂.cons ⟨h a (by simp), le_refl a⟩ (ih fun s hs => h s (by simp [hs]))

theorem SurvLE.trans {a b c : List ℝ} (h1 : SurvLE a b) (h2 : SurvLE b c) : SurvLE a c := by
  unfold SurvLE at *
  induction h1 generalizing c with
  | nil => cases h2; exact List.Forall₂.nil
  | cons hab _ ih =>
      cases h2 with
      | cons hbc hrest => exact List.Forall₂.cons ⟨hab.1, le_trans hab.2 hbc.2⟩ (ih hrest)

theorem SurvLE.nonneg {a b : List ℝ} (h : SurvLE a b) : ∀ s ∈ a, 0 ≤ s := by
  unfold SurvLE at h
  induction h with
  | nil => intro s hs; cases hs
  | cons hab _ ih =>
      intro s hs
      rcases List.mem_cons.mp hs with h1 | h1
      · rw [h1]; exact hab.1
      · exact ih s h1

theorem SurvLE.le_one {a b : List ℝ} (h : SurvLE a b) (h1 : ∀ s ∈ b, s ≤ 1) : ∀ s ∈ a, s ≤ 1 := by
  unfold SurvLE at h
  induction h with
  | nil => intro s hs; cases hs
  | cons hab _ ih =>
      intro s hs
      rcases List.mem_cons.mp hs with e | e
      · rw [e]; exact le_trans hab.2 (h1 _ (by simp))
      · exact ih (fun t ht => h1 t (by simp [ht])) s e

theorem SurvLE.zero {a b : List ℝ} (h : SurvLE a b) (h0 : ∀ s ∈ b, s = 0) : ∀ s ∈ a, s = 0 := by
  unfold SurvLE at h
  induction h with
  | nil => intro s hs; cases hs
  | cons hab _ ih =>
      intro s hs
      rcases List.mem_cons.mp hs with e | e
      · rw [e]; have := h0 _ (List.mem_cons_self); linarith [hab.1, hab.2]
      · exact ih (fun t ht => h0 t (by simp [ht])) s e

theorem zipWith_mul_eq (x w : List ℝ) :
    (List.zipWith (· * ·) x w).sum = ((x.zip w).map fun p => p.1 * p.2).sum := by
  induction x generalizing w with
  | nil => simp
  | cons a x ih =>
      cases w with
      | nil => simp
      | cons b w => simp [ih]

theorem mulMask_real (s : ℝ) (m : Bool) : mulMask s m = if m then s else 0 := by
  unfold mulMask; cases m <;> norm_num

theorem zipMask_le (sv : List ℝ) (ps : List (Vec7 ℝ)) (f : Vec7 ℝ → Bool) (h : ∀ s ∈ sv, 0 ≤ s)
    (hl : sv.length = ps.length) :
    SurvLE (List.zipWith (fun s v => mulMask s (f v)) sv ps) sv := by
  induction sv generalizing ps with
  | nil => simp [SurvLE]
  | cons s sv ih =>
      cases ps with
      | nil => simp at hl
      | cons p ps =>
          simp only [List.zipWith_cons_cons]
          refine List.Forall₂.cons ?_ (ih ps (fun t ht => h t (by simp [ht])) (by simpa using hl))
          have hs := h s (by simp)
          rw [mulMask_real]
          split <;> constructor <;> linarith

/-- **C10**: every element's ParticleBeam tracking keeps survival within [0, old value] -/
theorem trackP_survival (k : Consts ℝ) (e : Elem ℝ) (b : PBeam ℝ) (h : ∀ s ∈ b.survival, 0 ≤ s)
    (hl : b.survival.length = b.particles.length) :
    SurvLE (Elem.trackP k e b).survival b.survival := by
  cases e <;> simp only [Elem.trackP, PBeam.act] <;> try exact SurvLE.refl _ h
  case cavity L V ph f =>
    split
    · exact SurvLE.refl _ h
    · unfold Elem.cavTrackP
      simp only
      split <;> simp <;> exact SurvLE.refl _ h
  case aperture xm ym ell active =>
    split
    · exact zipMask_le _ _ _ h hl
    · exact SurvLE.refl _ h
  case screen active blocking =>
    split
    · simp only
      unfold SurvLE
      have : ∀ l : List ℝ, (∀ s ∈ l, 0 ≤ s) → List.Forall₂ (fun n o => 0 ≤ n ∧ n ≤ o) (l.map fun _ => (0.0:ℝ)) l := by
        intro l
        induction l with
        | nil => intro _; exact List.Forall₂.nil
        | cons a l ih =>
            intro hh
            refine List.Forall₂.cons ?_ (ih fun s hs => hh s (by simp [hs]))
            have := hh a (by simp)
            norm_num; exact this
      exact this _ h
    · exact SurvLE.refl _ h

/-- number of macro-particles, per-particle charges and the survival-vector length never change -/
theorem trackP_counts (k : Consts ℝ) (e : Elem ℝ) (b : PBeam ℝ) (hl : b.survival.length = b.particles.length) :
    (Elem.trackP k e b).particles.length = b.particles.length ∧ (Elem.trackP k e b).charges = b.charges ∧
    (Elem.trackP k e b).survival.length = b.survival.length := by
  cases e <;> simp only [Elem.trackP, PBeam.act] <;> try simp
  case cavity L V ph f =>
    split
    · simp
    · unfold Elem.cavTrackP
      simp only
      split <;> simp
  case aperture xm ym ell active =>
    split
    · simp [hl]
    · simp
  case screen active blocking =>
    split <;> simp
