import CheetahModel.Serialise
/-!
# LatticeJSON round trip: `parse (convert l) = l` for uniquely named lattices of any nesting (C14)
Core Lean.
-/
namespace NLat

mutual
/-- the dictionaries describe the tree `t` -/
def Good (d : Dict) : NLat → Prop
  | .leaf n e => d.lattices n = none ∧ d.elements n = some e
  | .seg n items => d.lattices n = some (items.map name) ∧ GoodL d items
def GoodL (d : Dict) : List NLat → Prop
  | [] => True
  | t :: ts => Good d t ∧ GoodL d ts
end

theorem name_mem_names : ∀ t : NLat, t.name ∈ names t
  | .leaf n _ => by simp [name, names]
  | .seg n _ => by simp [name, names]

mutual
theorem depth_pos : ∀ t : NLat, 0 < depth t
  | .leaf _ _ => by simp [depth]
  | .seg _ _ => by simp [depth]
end

mutual
theorem parse_good (d : Dict) : ∀ (t : NLat) (fuel : Nat), Good d t → depth t ≤ fuel → parse d fuel t.name = some t
  | .leaf n e, fuel, h, hf => by
      cases fuel with
      | zero => simp [depth] at hf
      | succ fuel =>
          simp only [Good] at h
          simp [parse, name, h.1, h.2]
  | .seg n items, fuel, h, hf => by
      cases fuel with
      | zero => simp [depth] at hf
      | succ fuel =>
          simp only [Good] at h
          simp only [parse, name, h.1]
          rw [parseL_good d items fuel h.2 (by simp [depth] at hf; omega)]
          rfl
theorem parseL_good (d : Dict) : ∀ (ts : List NLat) (fuel : Nat), GoodL d ts → depthL ts ≤ fuel →
    (ts.map name).mapM (parse d fuel) = some ts
  | [], _, _, _ => by simp
  | t :: ts, fuel, h, hf => by
      simp only [GoodL] at h
      simp only [depthL] at hf
      have h1 := parse_good d t fuel h.1 (by omega)
      have h2 := parseL_good d ts fuel h.2 (by omega)
      simp [List.mapM_cons, h1, h2]
end

mutual
theorem good_setElem (d : Dict) (k : String) (v : ERec) : ∀ t : NLat, k ∉ names t → Good d t → Good (d.setElem k v) t
  | .leaf n e, hk, h => by
      simp only [names, List.mem_singleton] at hk
      simp only [Good, Dict.setElem] at h ⊢
      have : n ≠ k := fun e => hk e.symm
      simp [this, h.1, h.2]
  | .seg n items, hk, h => by
      simp only [names, List.mem_cons, not_or] at hk
      simp only [Good] at h ⊢
      exact ⟨by simpa [Dict.setElem] using h.1, goodL_setElem d k v items hk.2 h.2⟩
theorem goodL_setElem (d : Dict) (k : String) (v : ERec) : ∀ ts : List NLat, k ∉ namesL ts → GoodL d ts → GoodL (d.setElem k v) ts
  | [], _, _ => trivial
  | t :: ts, hk, h => by
      simp only [namesL, List.mem_append, not_or] at hk
      simp only [GoodL] at h ⊢
      exact ⟨good_setElem d k v t hk.1 h.1, goodL_setElem d k v ts hk.2 h.2⟩
end

mutual
theorem good_setLat (d : Dict) (k : String) (v : List String) : ∀ t : NLat, k ∉ names t → Good d t → Good (d.setLat k v) t
  | .leaf n e, hk, h => by
      simp only [names, List.mem_singleton] at hk
      simp only [Good, Dict.setLat] at h ⊢
      have : n ≠ k := fun e => hk e.symm
      simp [this, h.1, h.2]
  | .seg n items, hk, h => by
      simp only [names, List.mem_cons, not_or] at hk
      simp only [Good] at h ⊢
      have : n ≠ k := fun e => hk.1 e.symm
      exact ⟨by simp [Dict.setLat, this, h.1], goodL_setLat d k v items hk.2 h.2⟩
theorem goodL_setLat (d : Dict) (k : String) (v : List String) : ∀ ts : List NLat, k ∉ namesL ts → GoodL d ts → GoodL (d.setLat k v) ts
  | [], _, _ => trivial
  | t :: ts, hk, h => by
      simp only [namesL, List.mem_append, not_or] at hk
      simp only [GoodL] at h ⊢
      exact ⟨good_setLat d k v t hk.1 h.1, goodL_setLat d k v ts hk.2 h.2⟩
end

mutual
/-- "the names of `u` are not touched": converting `t` into the dictionaries keeps them good for any tree `u`
whose names are disjoint from `t`'s -/
theorem conv_preserves (u : NLat) : ∀ (t : NLat) (d : Dict), (∀ k ∈ names t, k ∉ names u) → Good d u → Good (conv t d) u
  | .leaf n e, d, hd, h => by
      simp only [conv]
      exact good_setElem d n e u (hd n (by simp [names])) h
  | .seg n items, d, hd, h => by
      simp only [conv]
      apply good_setLat _ n _ u (hd n (by simp [names]))
      exact convL_preserves u items d (fun k hk => hd k (by simp [names, hk])) h
theorem convL_preserves (u : NLat) : ∀ (ts : List NLat) (d : Dict), (∀ k ∈ namesL ts, k ∉ names u) → Good d u → Good (convL ts d) u
  | [], _, _, h => h
  | t :: ts, d, hd, h => by
      simp only [convL]
      apply convL_preserves u ts _ (fun k hk => hd k (by simp [namesL, hk]))
      exact conv_preserves u t d (fun k hk => hd k (by simp [namesL, hk])) h
end

/-- list version of preservation -/
theorem convL_preservesL (us : List NLat) (ts : List NLat) (d : Dict)
    (hd : ∀ k ∈ namesL ts, k ∉ namesL us) (h : GoodL d us) : GoodL (convL ts d) us := by
  induction us with
  | nil => trivial
  | cons u us ih =>
      simp only [GoodL] at h ⊢
      refine ⟨convL_preserves u ts d (fun k hk hku => hd k hk (by simp [namesL, hku])) h.1,
        ih (fun k hk hku => hd k hk (by simp [namesL, hku])) h.2⟩

mutual
/-- keys outside `names t` keep their `lattices` entry -/
theorem conv_lattices_other : ∀ (t : NLat) (d : Dict) (k : String), k ∉ names t → (conv t d).lattices k = d.lattices k
  | .leaf n e, d, k, _ => by simp [conv, Dict.setElem]
  | .seg n items, d, k, hk => by
      simp only [names, List.mem_cons, not_or] at hk
      simp only [conv, Dict.setLat]
      simp [hk.1, convL_lattices_other items d k hk.2]
theorem convL_lattices_other : ∀ (ts : List NLat) (d : Dict) (k : String), k ∉ namesL ts → (convL ts d).lattices k = d.lattices k
  | [], _, _, _ => rfl
  | t :: ts, d, k, hk => by
      simp only [namesL, List.mem_append, not_or] at hk
      simp only [convL]
      rw [convL_lattices_other ts _ k hk.2, conv_lattices_other t d k hk.1]
end

mutual
/-- converting a uniquely named tree into dictionaries that do not yet know its names makes them good for it -/
theorem conv_good : ∀ (t : NLat) (d : Dict), (names t).Nodup → (∀ k ∈ names t, d.lattices k = none) → Good (conv t d) t
  | .leaf n e, d, _, hfree => by
      simp only [conv, Good, Dict.setElem]
      exact ⟨hfree n (by simp [names]), by simp⟩
  | .seg n items, d, hnd, hfree => by
      simp only [names, List.nodup_cons] at hnd
      simp only [conv, Good]
      refine ⟨by simp [Dict.setLat], ?_⟩
      apply goodL_setLat _ n _ items hnd.1
      exact convL_good items d hnd.2 (fun k hk => hfree k (by simp [names, hk]))
theorem convL_good : ∀ (ts : List NLat) (d : Dict), (namesL ts).Nodup → (∀ k ∈ namesL ts, d.lattices k = none) →
    GoodL (convL ts d) ts
  | [], _, _, _ => trivial
  | t :: ts, d, hnd, hfree => by
      simp only [namesL] at hnd
      have hnd' := List.nodup_append.mp hnd
      simp only [convL, GoodL]
      refine ⟨?_, ?_⟩
      · apply convL_preserves t ts (conv t d) (fun k hk hkt => (hnd'.2.2 k hkt k hk) rfl)
        exact conv_good t d hnd'.1 (fun k hk => hfree k (by simp [namesL, hk]))
      · apply convL_good ts (conv t d) hnd'.2.1
        intro k hk
        rw [conv_lattices_other t d k (fun hkt => (hnd'.2.2 k hkt k hk) rfl)]
        exact hfree k (by simp [namesL, hk])
end

/-- **C14**: writing a uniquely named segment (any nesting depth, sub-segments in any position) and parsing the
dictionaries back returns the same tree: same structure, order, names, classes and parameter values -/
theorem roundtrip (l : NLat) (h : (names l).Nodup) :
    parse (conv l Dict.empty) (depth l) l.name = some l :=
  parse_good _ l _ (conv_good l Dict.empty h (fun _ _ => rfl)) (Nat.le_refl _)

end NLat
