import CheetahModel.Proofs.Survival
import CheetahModel.SpaceCharge
/-!
# Space-charge kick: linearity, zero charge, lost particles, positions (C19)
-/
open Scalar

theorem pairKick_eq (g : ℕ → ℕ → ℝ) (w : List ℝ) (dt : ℝ) (i : ℕ) :
    pairKick g w dt i = dt * ((List.range w.length).map fun j => w.getD j 0 * g i j).sum := by
  unfold pairKick
  rw [listSum_eq]
  norm_num

/-- the kick is proportional to the bunch charge: scaling every macro-particle charge by `c` scales it by `c` -/
theorem pairKick_scale_charge (g : ℕ → ℕ → ℝ) (w : List ℝ) (dt c : ℝ) (i : ℕ) :
    pairKick g (w.map (c * ·)) dt i = c * pairKick g w dt i := by
  rw [pairKick_eq, pairKick_eq, List.length_map]
  have : ((List.range w.length).map fun j => (w.map (c * ·)).getD j 0 * g i j)
      = (List.range w.length).map fun j => c * (w.getD j 0 * g i j) := by
    apply List.map_congr_left
    intro j hj
    have hj' : j < w.length := List.mem_range.mp hj
    simp [List.getD, List.getElem?_map, List.getElem?_eq_getElem hj', mul_assoc]
  rw [this, List.sum_map_mul_left]
  ring

/-- … and to the effect length (`dt = L/(β c)`) -/
theorem pairKick_scale_length (g : ℕ → ℕ → ℝ) (w : List ℝ) (dt c : ℝ) (i : ℕ) :
    pairKick g w (c * dt) i = c * pairKick g w dt i := by
  rw [pairKick_eq, pairKick_eq]; ring

/-- it vanishes for zero charge -/
theorem pairKick_zero_charge (g : ℕ → ℕ → ℝ) (n : ℕ) (dt : ℝ) (i : ℕ) :
    pairKick g (List.replicate n 0) dt i = 0 := by
  rw [pairKick_eq]
  have : ((List.range (List.replicate n (0:ℝ)).length).map fun j => (List.replicate n (0:ℝ)).getD j 0 * g i j)
      = (List.range (List.replicate n (0:ℝ)).length).map fun _ => (0:ℝ) := by
    apply List.map_congr_left
    intro j _
    simp [List.getD, List.getElem?_replicate]
    split <;> simp
  rw [this]; simp

/-- lost particles (weight `q·s = 0`) are not sources: changing where a lost particle sits (i.e. its kernel
column) does not change anybody's kick -/
theorem pairKick_lost_not_source (g g' : ℕ → ℕ → ℝ) (w : List ℝ) (dt : ℝ) (i : ℕ)
    (h : ∀ j, w.getD j 0 ≠ 0 → g i j = g' i j) : pairKick g w dt i = pairKick g' w dt i := by
  rw [pairKick_eq, pairKick_eq]
  congr 2
  apply List.map_congr_left
  intro j _
  by_cases hw : w.getD j 0 = 0
  · rw [hw, zero_mul, zero_mul]
  · rw [h j hw]

/-- CIC deposit is linear in the charges -/
theorem cicDeposit_scale (parts : List (ℝ × ℝ × ℝ × ℝ)) (invVol c : ℝ) (ix iy it : ℕ) :
    cicDeposit (parts.map fun p => (p.1, p.2.1, p.2.2.1, c * p.2.2.2)) invVol ix iy it
      = c * cicDeposit parts invVol ix iy it := by
  unfold cicDeposit
  rw [listSum_eq, listSum_eq, List.map_map]
  have : (parts.map ((fun p : ℝ × ℝ × ℝ × ℝ => cicW p.1 ix * cicW p.2.1 iy * cicW p.2.2.1 it * p.2.2.2) ∘
        fun p => (p.1, p.2.1, p.2.2.1, c * p.2.2.2)))
      = parts.map fun p => c * (cicW p.1 ix * cicW p.2.1 iy * cicW p.2.2.1 it * p.2.2.2) := by
    apply List.map_congr_left
    intro p _; simp only [Function.comp]; ring
  rw [this, List.sum_map_mul_left]; ring

/-- the SI round trip leaves the positions (x, y, τ) untouched whatever happens to the momenta in between -/
theorem positions_roundtrip (s : SIConsts ℝ) (E0 mc2 : ℝ) (v : Vec7 ℝ) (dpx dpy dpz : ℝ)
    (hb : relBeta (E0 / mc2) ≠ 0) :
    let w := toXyz s E0 mc2 v
    let w' : Vec7 ℝ := { w with a1 := w.a1 + dpx, a3 := w.a3 + dpy, a5 := w.a5 + dpz }
    (fromXyz s E0 mc2 w').a0 = v.a0 ∧ (fromXyz s E0 mc2 w').a2 = v.a2 ∧ (fromXyz s E0 mc2 w').a4 = v.a4 := by
  intro w w'
  refine ⟨rfl, rfl, ?_⟩
  simp only [w', w, fromXyz, toXyz]
  field_simp
