import CheetahModel.Proofs.RealInst
import CheetahModel.Beam
import Mathlib.Tactic.FieldSimp
import Mathlib.Tactic.Linarith
import Mathlib.Tactic.Ring
import Mathlib.Tactic.NormNum
import Mathlib.Tactic.Positivity
import Mathlib.LinearAlgebra.Matrix.Notation
import Mathlib.Data.Matrix.Mul
/-!
# Twiss parameters at ℝ (C17)
-/
open Scalar

theorem clampMin_real (x lo : ℝ) : clampMin x lo = max x lo := by
  unfold clampMin
  by_cases h : x < lo
  · have : Scalar.ltb x lo = true := by rw [Scalar.real_ltb]; exact h
    simp [this, max_eq_right h.le]
  · have : Scalar.ltb x lo = false := by rw [Scalar.real_ltb_false]; exact h
    simp [this, max_eq_left (not_lt.mp h)]

theorem twissOf_eq (sx sp c tiny : ℝ) :
    twissOf sx sp c tiny =
      ⟨√(max (sx * sx * (sp * sp) - c * c) tiny), sx * sx / √(max (sx * sx * (sp * sp) - c * c) tiny),
        -c / √(max (sx * sx * (sp * sp) - c * c) tiny)⟩ := by
  unfold twissOf
  simp only [clampMin_real, Scalar.real_sqrt]

/-- emittance ≥ 0 always; > 0 since the clamp value is positive -/
theorem emit_pos (sx sp c tiny : ℝ) (ht : 0 < tiny) : 0 < (twissOf sx sp c tiny).emit := by
  rw [twissOf_eq]
  exact Real.sqrt_pos.mpr (lt_of_lt_of_le ht (le_max_right _ _))

/-- β > 0 for a beam of non-zero size -/
theorem beta_pos (sx sp c tiny : ℝ) (ht : 0 < tiny) (hx : sx ≠ 0) : 0 < (twissOf sx sp c tiny).beta := by
  have he := emit_pos sx sp c tiny ht
  rw [twissOf_eq] at he ⊢
  simp only at he ⊢
  have : 0 < sx * sx := mul_self_pos.mpr hx
  positivity

/-- **C17**: βγ − α² = 1 with γ = σ_px²/ε, whenever the clamp is inactive -/
theorem twiss_identity (sx sp c tiny : ℝ) (ht : 0 < tiny) (h : tiny ≤ sx * sx * (sp * sp) - c * c) :
    let t := twissOf sx sp c tiny
    t.beta * (sp * sp / t.emit) - t.alpha ^ 2 = 1 := by
  intro t
  simp only [t, twissOf_eq]
  rw [max_eq_left h]
  have hpos : 0 < sx * sx * (sp * sp) - c * c := lt_of_lt_of_le ht h
  have hs : √(sx * sx * (sp * sp) - c * c) ≠ 0 := (Real.sqrt_pos.mpr hpos).ne'
  have hsq : √(sx * sx * (sp * sp) - c * c) ^ 2 = sx * sx * (sp * sp) - c * c := Real.sq_sqrt hpos.le
  set D := sx * sx * (sp * sp) - c * c with hD
  set r := √D with hr
  have hr2 : r * r = D := Real.mul_self_sqrt hpos.le
  field_simp
  nlinarith [hr2]

/-- **C17**: a ParameterBeam created from Twiss parameters reports the same β, α, ε back (exactly) -/
theorem from_twiss_to_twiss (beta alpha eps tiny : ℝ) (hb : 0 < beta) (he : 0 < eps)
    (ht : 0 < tiny) (hc : tiny ≤ eps * eps) :
    twissOfMom (fromTwiss beta alpha eps) tiny = ⟨eps, beta, alpha⟩ := by
  have h10 : (1.0:ℝ) = 1 := by norm_num
  unfold twissOfMom fromTwiss
  simp only [Scalar.real_sqrt, h10]
  have h1 : 0 ≤ eps * beta := by positivity
  have h2 : 0 ≤ eps * (1 + alpha * alpha) / beta := by
    have : 0 ≤ 1 + alpha * alpha := by nlinarith [mul_self_nonneg alpha]
    positivity
  have e1 : √(√(eps * beta) * √(eps * beta)) = √(eps * beta) := Real.sqrt_mul_self (Real.sqrt_nonneg _)
  have e2 : √(√(eps * (1 + alpha * alpha) / beta) * √(eps * (1 + alpha * alpha) / beta))
      = √(eps * (1 + alpha * alpha) / beta) := Real.sqrt_mul_self (Real.sqrt_nonneg _)
  rw [e1, e2, twissOf_eq]
  have s1 : √(eps * beta) * √(eps * beta) = eps * beta := Real.mul_self_sqrt h1
  have s2 : √(eps * (1 + alpha * alpha) / beta) * √(eps * (1 + alpha * alpha) / beta)
      = eps * (1 + alpha * alpha) / beta := Real.mul_self_sqrt h2
  have hdet : √(eps * beta) * √(eps * beta) * (√(eps * (1 + alpha * alpha) / beta) * √(eps * (1 + alpha * alpha) / beta))
      - -eps * alpha * (-eps * alpha) = eps * eps := by
    rw [s1, s2]; field_simp; ring
  rw [hdet, max_eq_left hc, Real.sqrt_mul_self he.le, s1]
  congr 1
  · field_simp
  · field_simp

/-- **C17**: Twiss transport by the standard matrix law: for a 2×2 map of determinant one, the
second moments `Σ' = M Σ Mᵀ` have the same emittance (so β' ε = (MΣMᵀ)₀₀ etc. is the 3×3 Twiss law) -/
theorem emittance_transport (m11 m12 m21 m22 sxx sxp spp : ℝ) (hdet : m11 * m22 - m12 * m21 = 1) :
    let sxx' := m11 * m11 * sxx + 2 * m11 * m12 * sxp + m12 * m12 * spp
    let sxp' := m11 * m21 * sxx + (m11 * m22 + m12 * m21) * sxp + m12 * m22 * spp
    let spp' := m21 * m21 * sxx + 2 * m21 * m22 * sxp + m22 * m22 * spp
    sxx' * spp' - sxp' * sxp' = sxx * spp - sxp * sxp := by
  intro sxx' sxp' spp'
  simp only [sxx', sxp', spp']
  have : (m11 * m22 - m12 * m21) ^ 2 = 1 := by rw [hdet]; norm_num
  linear_combination (sxx * spp - sxp * sxp) * this

/-- the entries of `M Σ Mᵀ` for a 2×2 block are the standard transport expressions -/
theorem moment_transport (m11 m12 m21 m22 sxx sxp spp : ℝ) :
    !![m11, m12; m21, m22] * !![sxx, sxp; sxp, spp] * (!![m11, m12; m21, m22] : Matrix (Fin 2) (Fin 2) ℝ).transpose =
      !![m11 * m11 * sxx + 2 * m11 * m12 * sxp + m12 * m12 * spp,
         m11 * m21 * sxx + (m11 * m22 + m12 * m21) * sxp + m12 * m22 * spp;
         m11 * m21 * sxx + (m11 * m22 + m12 * m21) * sxp + m12 * m22 * spp,
         m21 * m21 * sxx + 2 * m21 * m22 * sxp + m22 * m22 * spp] := by
  ext i j
  fin_cases i <;> fin_cases j <;> simp [Matrix.mul_apply, Fin.sum_univ_succ] <;> ring
