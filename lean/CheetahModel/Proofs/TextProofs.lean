import CheetahModel.Text
/-!
Proofs about the textual front end (`Text.lean`): continuation merging and line cleaning.
Core Lean only.
-/
namespace Text

/-! ### continuation merging -/

/-- the statement a block of consecutive physical lines is glued into -/
def joinGroup (rm : Bool) : List Line → Line
  | [] => []
  | l :: rest => rest.foldl (glue rm) l

/-- number of lines still to be emitted by an absorbing accumulator -/
def accLines : Option Line → Nat
  | none => 0
  | some _ => 1

def accChars : Option Line → Line
  | none => []
  | some c => c

theorem mergeGo_length (d : Char) (rm : Bool) :
    ∀ (acc : Option Line) (ls out : List Line), mergeGo d rm acc ls = some out →
      out.length ≤ ls.length + accLines acc := by
  intro acc ls
  fun_induction mergeGo d rm acc ls with
  | case1 => intro out h; simp at h; subst h; simp
  | case2 l => intro out h; simp at h; subst h; simp
  | case3 l r rs hl ih => intro out h; have := ih out h; simp [accLines] at this ⊢; omega
  | case4 l r rs hl ih =>
      intro out h
      simp only [Option.map_eq_some_iff] at h
      obtain ⟨o, ho, rfl⟩ := h
      have := ih o ho; simp [accLines] at this ⊢; omega
  | case5 cur => intro out h; simp at h
  | case6 cur r rs hg ih => intro out h; have := ih out h; simp [accLines] at this ⊢; omega
  | case7 cur r rs hg ih =>
      intro out h
      simp only [Option.map_eq_some_iff] at h
      obtain ⟨o, ho, rfl⟩ := h
      have := ih o ho; simp [accLines] at this ⊢; omega

/-- gluing `g` onto `cur` is licensed: before every absorption the accumulated text ends with the mark -/
def contAll (d : Char) (rm : Bool) : Line → List Line → Prop
  | _, [] => True
  | cur, r :: g => endsWith cur d = true ∧ contAll d rm (glue rm cur r) g

/-- a block is licensed when its first line carries the mark and so does every intermediate gluing -/
def licensed (d : Char) (rm : Bool) : List Line → Prop
  | [] => True
  | l :: rest => contAll d rm l rest

/-- block structure: the output statements are the gluings of consecutive non-empty blocks of the input lines,
in file order, and lines are only glued where the text so far ends with the mark -/
theorem mergeGo_groups (d : Char) (rm : Bool) :
    ∀ (acc : Option Line) (ls out : List Line), mergeGo d rm acc ls = some out →
      (∀ cur, acc = some cur → endsWith cur d = true) →
      match acc with
      | none => ∃ gs : List (List Line), gs.flatten = ls ∧ (∀ g ∈ gs, g ≠ [] ∧ licensed d rm g) ∧
          out = gs.map (joinGroup rm)
      | some cur => ∃ (g : List Line) (gs : List (List Line)), g ++ gs.flatten = ls ∧ g ≠ [] ∧ contAll d rm cur g ∧
          (∀ g ∈ gs, g ≠ [] ∧ licensed d rm g) ∧ out = g.foldl (glue rm) cur :: gs.map (joinGroup rm) := by
  intro acc ls
  fun_induction mergeGo d rm acc ls with
  | case1 => intro out h _; simp at h; subst h; exact ⟨[], by simp⟩
  | case2 l => intro out h _; simp at h; subst h; exact ⟨[[l]], by simp [joinGroup, licensed, contAll]⟩
  | case3 l r rs hl ih =>
      intro out h _
      obtain ⟨g, gs, h1, h2, hc, h3, h4⟩ := ih out h (by intro c hc; cases hc; exact hl)
      refine ⟨(l :: g) :: gs, by simp [h1], ?_, ?_⟩
      · intro g' hg'; simp at hg'; rcases hg' with rfl | hg'
        · exact ⟨by simp, hc⟩
        · exact h3 _ hg'
      · simp [joinGroup, h4]
  | case4 l r rs hl ih =>
      intro out h _
      simp only [Option.map_eq_some_iff] at h
      obtain ⟨o, ho, rfl⟩ := h
      obtain ⟨gs, h1, h2, h3⟩ := ih o ho (by intro c hc; cases hc)
      refine ⟨[l] :: gs, by simp [h1], ?_, ?_⟩
      · intro g' hg'; simp at hg'; rcases hg' with rfl | hg'
        · exact ⟨by simp, by simp [licensed, contAll]⟩
        · exact h2 _ hg'
      · simp [joinGroup, h3]
  | case5 cur => intro out h; simp at h
  | case6 cur r rs hg ih =>
      intro out h hacc
      obtain ⟨g, gs, h1, h2, hc, h3, h4⟩ := ih out h (by intro c hc; cases hc; exact hg)
      exact ⟨r :: g, gs, by simp [h1], by simp, ⟨hacc cur rfl, hc⟩, h3, by simp [h4]⟩
  | case7 cur r rs hg ih =>
      intro out h hacc
      simp only [Option.map_eq_some_iff] at h
      obtain ⟨o, ho, rfl⟩ := h
      obtain ⟨gs, h1, h2, h3⟩ := ih o ho (by intro c hc; cases hc)
      exact ⟨[r], gs, by simp [h1], by simp, ⟨hacc cur rfl, trivial⟩, h2, by simp [h3]⟩

/-- with the mark kept, merging only moves line breaks: the character stream is unchanged -/
theorem mergeGo_chars_keep (d : Char) :
    ∀ (acc : Option Line) (ls out : List Line), mergeGo d false acc ls = some out →
      out.flatten = accChars acc ++ ls.flatten := by
  intro acc ls
  fun_induction mergeGo d false acc ls with
  | case1 => intro out h; simp at h; subst h; simp [accChars]
  | case2 l => intro out h; simp at h; subst h; simp [accChars]
  | case3 l r rs hl ih => intro out h; have := ih out h; simpa [accChars] using this
  | case4 l r rs hl ih =>
      intro out h
      simp only [Option.map_eq_some_iff] at h
      obtain ⟨o, ho, rfl⟩ := h
      have := ih o ho; simp [accChars] at this ⊢; exact this
  | case5 cur => intro out h; simp at h
  | case6 cur r rs hg ih => intro out h; have := ih out h; simpa [accChars, glue] using this
  | case7 cur r rs hg ih =>
      intro out h
      simp only [Option.map_eq_some_iff] at h
      obtain ⟨o, ho, rfl⟩ := h
      have := ih o ho; simp [accChars, glue] at this ⊢; exact this

theorem endsWith_ne_nil {l : Line} {d : Char} (h : endsWith l d = true) : l ≠ [] := by
  intro h0; subst h0; simp [endsWith] at h

theorem endsWith_dropLast {l : Line} {d : Char} (h : endsWith l d = true) : l = l.dropLast ++ [d] := by
  have hne := endsWith_ne_nil h
  have h2 : l.getLast? = some d := by simpa [endsWith] using h
  rw [List.getLast?_eq_some_getLast hne] at h2
  have h3 : l.getLast hne = d := by simpa using h2
  have := List.dropLast_concat_getLast hne
  rw [h3] at this
  exact this.symm

/-- with the mark removed, every absorption deletes exactly one character, and that character is the mark:
everything else survives in order -/
theorem endsWith_filter {l : Line} {d : Char} (h : endsWith l d = true) :
    l.filter (· != d) = l.dropLast.filter (· != d) := by
  have h1 := endsWith_dropLast h
  generalize l.dropLast = m at h1
  subst h1
  simp

theorem endsWith_length {l : Line} {d : Char} (h : endsWith l d = true) : 1 ≤ l.length := by
  have := endsWith_ne_nil h
  cases l with
  | nil => exact absurd rfl this
  | cons a t => simp

theorem mergeGo_chars_remove (d : Char) :
    ∀ (acc : Option Line) (ls out : List Line), mergeGo d true acc ls = some out →
      (∀ cur, acc = some cur → endsWith cur d = true) →
      (out.flatten.filter (· != d) = (accChars acc ++ ls.flatten).filter (· != d)) ∧
      out.flatten.length + (ls.length + accLines acc - out.length) = (accChars acc ++ ls.flatten).length := by
  intro acc ls
  fun_induction mergeGo d true acc ls with
  | case1 => intro out h _; simp at h; subst h; simp [accChars, accLines]
  | case2 l => intro out h _; simp at h; subst h; simp [accChars, accLines]
  | case3 l r rs hl ih =>
      intro out h _
      have := ih out h (by intro cur hc; cases hc; exact hl)
      simpa [accChars, accLines] using this
  | case4 l r rs hl ih =>
      intro out h _
      simp only [Option.map_eq_some_iff] at h
      obtain ⟨o, ho, rfl⟩ := h
      have hlen := mergeGo_length d true none (r :: rs) o ho
      have := ih o ho (by intro cur hc; cases hc)
      simp [accChars, accLines] at this hlen ⊢
      refine ⟨by rw [this.1], ?_⟩
      omega
  | case5 cur => intro out h; simp at h
  | case6 cur r rs hg ih =>
      intro out h hacc
      have hc := hacc cur rfl
      have hcur := endsWith_dropLast hc
      have := ih out h (by intro c hc'; cases hc'; exact hg)
      have hlen := mergeGo_length d true _ rs out h
      simp [accChars, accLines, glue] at this hlen ⊢
      have hf := endsWith_filter hc
      have hl := endsWith_length hc
      refine ⟨?_, ?_⟩
      · rw [this.1, hf]
      · omega
  | case7 cur r rs hg ih =>
      intro out h hacc
      simp only [Option.map_eq_some_iff] at h
      obtain ⟨o, ho, rfl⟩ := h
      have hc := hacc cur rfl
      have hcur := endsWith_dropLast hc
      have := ih o ho (by intro c hc'; cases hc')
      have hlen := mergeGo_length d true none rs o ho
      simp [accChars, accLines, glue] at this hlen ⊢
      have hf := endsWith_filter hc
      have hl := endsWith_length hc
      refine ⟨?_, ?_⟩
      · rw [this.1, hf]
      · omega

/-- every continuation is resolved: no emitted statement but possibly the last ends with the mark -/
theorem mergeGo_resolved (d : Char) (rm : Bool) :
    ∀ (acc : Option Line) (ls out : List Line), mergeGo d rm acc ls = some out →
      ∀ l ∈ out.dropLast, endsWith l d = false := by
  intro acc ls
  fun_induction mergeGo d rm acc ls with
  | case1 => intro out h; simp at h; subst h; simp
  | case2 l => intro out h; simp at h; subst h; simp
  | case3 l r rs hl ih => intro out h; exact ih out h
  | case4 l r rs hl ih =>
      intro out h
      simp only [Option.map_eq_some_iff] at h
      obtain ⟨o, ho, rfl⟩ := h
      intro x hx
      cases o with
      | nil => simp at hx
      | cons a o' =>
        simp [List.dropLast] at hx
        rcases hx with rfl | hx
        · simpa using hl
        · exact ih _ ho x (by simpa using hx)
  | case5 cur => intro out h; simp at h
  | case6 cur r rs hg ih => intro out h; exact ih out h
  | case7 cur r rs hg ih =>
      intro out h
      simp only [Option.map_eq_some_iff] at h
      obtain ⟨o, ho, rfl⟩ := h
      intro x hx
      cases o with
      | nil => simp at hx
      | cons a o' =>
        simp [List.dropLast] at hx
        rcases hx with rfl | hx
        · simpa using hg
        · exact ih _ ho x (by simpa using hx)

/-- a file without continuation marks is left alone -/
theorem mergeGo_id (d : Char) (rm : Bool) :
    ∀ ls : List Line, (∀ l ∈ ls, endsWith l d = false) → mergeGo d rm none ls = some ls := by
  intro ls
  induction ls with
  | nil => intro _; simp [mergeGo]
  | cons l rest ih =>
    intro h
    cases rest with
    | nil => simp [mergeGo]
    | cons r rs =>
      have hl : endsWith l d = false := h l (by simp)
      have := ih (fun x hx => h x (by simp [hx]))
      simp [mergeGo, hl, this]

end Text

namespace Text

/-! ### `merge` and the three passes -/

theorem merge_length_le (d : Char) (rm : Bool) (ls out : List Line) (h : merge d rm ls = some out) :
    out.length ≤ ls.length := by
  simp only [merge, Option.map_eq_some_iff] at h
  obtain ⟨o, ho, rfl⟩ := h
  have := mergeGo_length d rm none ls o ho
  simpa [accLines] using this

theorem foldlM_length_le (ps : List (Char × Bool)) :
    ∀ (ls out : List Line), ps.foldlM (fun acc (p : Char × Bool) => merge p.1 p.2 acc) ls = some out →
      out.length ≤ ls.length := by
  induction ps with
  | nil => intro ls out h; simp at h; subst h; exact Nat.le_refl _
  | cons p ps ih =>
    intro ls out h
    simp only [List.foldlM_cons] at h
    cases hm : merge p.1 p.2 ls with
    | none => rw [hm] at h; simp at h
    | some mid =>
      rw [hm] at h
      have h1 := merge_length_le _ _ _ _ hm
      have h2 := ih mid out (by simpa using h)
      omega

/-- the converters' `assert len(merged_lines) <= len(lines)` can never fire -/
theorem mergeAll_length_le (ls out : List Line) (h : mergeAll ls = some out) : out.length ≤ ls.length :=
  foldlM_length_le contPasses ls out h

/-! ### cleaning -/

theorem stripR_mem : ∀ (l : Line) (c : Char), c ∈ stripR l → c ∈ l := by
  intro l
  induction l with
  | nil => intro c h; simp [stripR] at h
  | cons a t ih =>
    intro c h
    unfold stripR at h
    split at h
    · split at h
      · simp at h
      · simp at h; simp [h]
    · rename_i r hr
      simp at h
      rcases h with rfl | h
      · simp
      · exact List.mem_cons_of_mem _ (ih c h)

theorem stripL_mem (l : Line) (c : Char) (h : c ∈ stripL l) : c ∈ l :=
  (List.dropWhile_sublist isWs).subset h

theorem strip_mem (l : Line) (c : Char) (h : c ∈ strip l) : c ∈ l :=
  stripL_mem l c (stripR_mem _ c h)

/-- a line is *tight* when it is empty or starts with a visible character -/
def tightL : Line → Prop
  | [] => True
  | c :: _ => isWs c = false

theorem stripL_tight : ∀ l : Line, tightL (stripL l) := by
  intro l
  induction l with
  | nil => simp [stripL, tightL]
  | cons a t ih =>
    unfold stripL
    rw [List.dropWhile_cons]
    split
    · exact ih
    · rename_i h; simpa [tightL] using h

theorem stripL_of_tight : ∀ l : Line, tightL l → stripL l = l := by
  intro l h
  cases l with
  | nil => rfl
  | cons a t => simp [tightL] at h; simp [stripL, List.dropWhile_cons, h]

theorem stripR_cons (a : Char) (t : Line) : stripR (a :: t) = [] ∨ ∃ t', stripR (a :: t) = a :: t' := by
  unfold stripR
  split
  · split
    · left; rfl
    · right; exact ⟨[], rfl⟩
  · right; exact ⟨_, rfl⟩

theorem stripR_tight (l : Line) (h : tightL l) : tightL (stripR l) := by
  cases l with
  | nil => simp [stripR, tightL]
  | cons a t =>
    rcases stripR_cons a t with h0 | ⟨t', h1⟩
    · rw [h0]; trivial
    · rw [h1]; exact h

theorem stripR_idem : ∀ l : Line, stripR (stripR l) = stripR l := by
  intro l
  induction l with
  | nil => simp [stripR]
  | cons a t ih =>
    cases hr : stripR t with
    | nil =>
      by_cases hw : isWs a = true
      · simp [stripR, hr, hw]
      · simp [stripR, hr, hw]
    | cons b r =>
      have h1 : stripR (a :: t) = a :: b :: r := by simp [stripR, hr]
      rw [h1]
      have h2 : stripR (b :: r) = b :: r := by rw [← hr]; exact ih
      rw [stripR, h2]

theorem stripR_ne_nil (a : Char) (t : Line) (h : isWs a = false) : stripR (a :: t) ≠ [] := by
  unfold stripR
  split
  · simp [h]
  · simp

/-- `strip` is idempotent: a stripped line is a fixed point -/
theorem strip_idem (l : Line) : strip (strip l) = strip l := by
  unfold strip
  rw [stripL_of_tight _ (stripR_tight _ (stripL_tight l)), stripR_idem]

theorem toLower_cases (c : Char) :
    c.toLower = c ∨ (97 ≤ c.toLower.val.toNat ∧ c.toLower.val.toNat ≤ 122) := by
  unfold Char.toLower
  split
  · rename_i h
    right
    have h1 : 65 ≤ c.val.toNat := by have := h.1; simpa [UInt32.le_iff_toNat_le] using this
    have h2 : c.val.toNat ≤ 90 := by have := h.2; simpa [UInt32.le_iff_toNat_le] using this
    simp only [UInt32.toNat_add]
    have : ('a'.val - 'A'.val).toNat = 32 := by decide
    rw [this]
    omega
  · left; rfl

theorem toLower_not_upper (c : Char) : c.toLower.isUpper = false := by
  rcases toLower_cases c with h | ⟨h1, h2⟩
  · by_cases hu : c.isUpper = true
    · exfalso
      have : c.toLower ≠ c := by
        unfold Char.toLower
        have hu' : c.val ≥ 'A'.val ∧ c.val ≤ 'Z'.val := by simpa [Char.isUpper] using hu
        rw [dif_pos hu']
        intro heq
        have := congrArg (fun x => x.val.toNat) heq
        simp only [UInt32.toNat_add] at this
        have h32 : ('a'.val - 'A'.val).toNat = 32 := by decide
        rw [h32] at this
        have h2 : c.val.toNat ≤ 90 := by have := hu'.2; simpa [UInt32.le_iff_toNat_le] using this
        omega
      exact this h
    · rw [h]; simpa using hu
  · simp only [Char.isUpper, decide_eq_false_iff_not, not_and]
    intro _ hle
    have : c.toLower.val.toNat ≤ 90 := by simpa [UInt32.le_iff_toNat_le] using hle
    omega

theorem char_ne_of_val {a b : Char} (h : a.val.toNat ≠ b.val.toNat) : a ≠ b := by
  intro e; subst e; exact h rfl

theorem toLower_bang (c : Char) (h : c ≠ '!') : c.toLower ≠ '!' := by
  rcases toLower_cases c with h0 | ⟨h1, _⟩
  · rw [h0]; exact h
  · apply char_ne_of_val
    have : ('!' : Char).val.toNat = 33 := by decide
    omega

theorem toLower_ws (c : Char) (h : isWs c = false) : isWs c.toLower = false := by
  rcases toLower_cases c with h0 | ⟨h1, _⟩
  · rw [h0]; exact h
  · have hne : ∀ w : Char, w.val.toNat < 97 → c.toLower ≠ w := fun w hw => char_ne_of_val (by omega)
    simp only [isWs, Bool.or_eq_false_iff, beq_eq_false_iff_ne]
    refine ⟨⟨⟨⟨⟨⟨⟨⟨⟨?_, ?_⟩, ?_⟩, ?_⟩, ?_⟩, ?_⟩, ?_⟩, ?_⟩, ?_⟩, ?_⟩ <;> exact hne _ (by decide)

theorem dropComment_no_bang (l : Line) : '!' ∉ dropComment l := by
  intro h
  have hall : (dropComment l).all (· != '!') = true := List.all_takeWhile
  rw [List.all_eq_true] at hall
  have := hall _ h
  simp at this

/-- what `read_clean_lines` hands to the parser: no comment, no blank line, no surrounding blanks, no upper case -/
theorem cleanLines_spec (ls : List Line) :
    ∀ l ∈ cleanLines ls, '!' ∉ l ∧ l ≠ [] ∧ strip l = l ∧ ∀ c ∈ l, c.isUpper = false := by
  intro l hl
  simp only [cleanLines, List.mem_map, List.mem_filter] at hl
  obtain ⟨l0, ⟨⟨l1, ⟨x, _, rfl⟩, rfl⟩, hne⟩, rfl⟩ := hl
  refine ⟨?_, ?_, strip_idem _, ?_⟩
  · intro hb
    have := strip_mem _ _ hb
    simp only [List.mem_map] at this
    obtain ⟨c, hc, hcl⟩ := this
    have hcb : c ≠ '!' := by
      intro e; subst e; exact dropComment_no_bang _ hc
    exact toLower_bang c hcb hcl
  · -- the kept part starts with a visible character
    have ht : tightL (strip x) := stripR_tight _ (stripL_tight x)
    have hne' : dropComment (strip x) ≠ [] := by simpa using hne
    cases hs : strip x with
    | nil => rw [hs] at hne'; simp [dropComment] at hne'
    | cons a t =>
      rw [hs] at ht hne'
      have ha : isWs a = false := ht
      have hab : (a != '!') = true := by
        by_cases e : (a != '!') = true
        · exact e
        · exfalso; apply hne'; simp [dropComment, List.takeWhile_cons, e]
      have hd : dropComment (a :: t) = a :: dropComment t := by
        simp [dropComment, List.takeWhile_cons, hab]
      rw [hd]
      simp only [List.map_cons]
      unfold strip
      rw [stripL_of_tight _ (by simpa [tightL] using toLower_ws a ha)]
      exact stripR_ne_nil _ _ (toLower_ws a ha)
  · intro c hc
    have := strip_mem _ _ hc
    simp only [List.mem_map] at this
    obtain ⟨c0, _, rfl⟩ := this
    exact toLower_not_upper c0

end Text

namespace Text

/-! ### reverse Polish notation -/

theorem splitSp_ne_nil : ∀ l : Line, splitSp l ≠ [] := by
  intro l
  induction l with
  | nil => simp [splitSp]
  | cons c cs ih =>
    unfold splitSp
    split
    · simp
    · split <;> simp

theorem splitSp_word : ∀ w : Line, ' ' ∉ w → splitSp w = [w] := by
  intro w
  induction w with
  | nil => intro _; simp [splitSp]
  | cons c cs ih =>
    intro h
    have hc : c ≠ ' ' := fun e => h (by simp [e])
    have hcs : ' ' ∉ cs := fun e => h (by simp [e])
    rw [splitSp, ih hcs]
    simp [hc]

theorem splitSp_word_sp : ∀ (w rest : Line), ' ' ∉ w → splitSp (w ++ ' ' :: rest) = w :: splitSp rest := by
  intro w rest
  induction w with
  | nil =>
    intro _
    cases h : splitSp rest with
    | nil => exact absurd h (splitSp_ne_nil rest)
    | cons x xs => simp [splitSp, h]
  | cons c cs ih =>
    intro h
    have hc : c ≠ ' ' := fun e => h (by simp [e])
    have hcs : ' ' ∉ cs := fun e => h (by simp [e])
    rw [List.cons_append, splitSp, ih hcs]
    simp [hc]

/-- `eval_expression` turns `a b op` into the infix text `a op b` -/
theorem rpn_reorder (a b op : Line) (ha : ' ' ∉ a) (hb : ' ' ∉ b) (hop : ' ' ∉ op)
    (hs : strip (a ++ ' ' :: (b ++ ' ' :: op)) = a ++ ' ' :: (b ++ ' ' :: op)) :
    rpnInfix (a ++ ' ' :: (b ++ ' ' :: op)) = some (a ++ ' ' :: (op ++ ' ' :: b)) := by
  unfold rpnInfix
  rw [hs, splitSp_word_sp a _ ha, splitSp_word_sp b _ hb, splitSp_word op hop]
  simp

theorem getLast?_snoc (l : Line) (o : Char) : (l ++ [o]).getLast? = some o := by simp

/-- and `is_valid_expression` accepts exactly such three-word texts ending in an operator -/
theorem rpn_valid (a b : Line) (o : Char) (ha : ' ' ∉ a) (hb : ' ' ∉ b)
    (ho : o = '+' ∨ o = '-' ∨ o = '/' ∨ o = '*')
    (hs : strip (a ++ ' ' :: (b ++ ' ' :: [o])) = a ++ ' ' :: (b ++ ' ' :: [o])) :
    rpnValid (a ++ ' ' :: (b ++ ' ' :: [o])) = some true := by
  have ho' : ' ' ∉ [o] := by
    rcases ho with rfl | rfl | rfl | rfl <;> decide
  unfold rpnValid
  simp only [hs]
  have hl : (a ++ ' ' :: (b ++ ' ' :: [o])).getLast? = some o := by
    have : a ++ ' ' :: (b ++ ' ' :: [o]) = (a ++ ' ' :: (b ++ [' '])) ++ [o] := by simp
    rw [this]; exact getLast?_snoc _ _
  rw [hl, splitSp_word_sp a _ ha, splitSp_word_sp b _ hb, splitSp_word [o] ho']
  rcases ho with rfl | rfl | rfl | rfl <;> simp

example : rpnInfix "2 3 *".toList = some "2 * 3".toList := by decide
example : rpnValid " lq 2 / ".toList = some true := by decide
example : merge '&' true ["a, &".toList, "b".toList, "c".toList] = some ["a, b".toList, "c".toList] := by decide
example : merge '&' true ["a&".toList] = some ["a&".toList] := by decide
example : merge '&' true ["a&".toList, "b&".toList] = none := by decide
example : cleanLines ["  Q1: QUAD, L=1 ! comment".toList, "! only".toList, "".toList]
    = ["q1: quad, l=1".toList] := by decide

end Text
