import CheetahModel.Proofs.ElementMaps
import Mathlib.Analysis.SpecialFunctions.Trigonometric.Deriv
import Mathlib.Analysis.Calculus.Deriv.Add
import Mathlib.Analysis.Calculus.Deriv.Mul
import Mathlib.Analysis.Calculus.Deriv.Comp
import Mathlib.Analysis.Calculus.Deriv.Shift
/-!
# Group law and generator of the body maps (C02, C09, C16)
-/
open Matrix Scalar

/-! ## addition formulas of the focusing functions -/

theorem cs_add_c (k a b : ℝ) (hk : k ≠ 0) :
    (cs k (a + b)).c = (cs k a).c * (cs k b).c - k * (cs k a).s * (cs k b).s := by
  by_cases h : 0 < k
  · simp only [cs_pos k _ h]
    have hs : √k ≠ 0 := (Real.sqrt_pos.mpr h).ne'
    have hsq : √k * √k = k := Real.mul_self_sqrt h.le
    rw [mul_add, Real.cos_add]
    field_simp
    rw [show √k ^ 2 = k by rw [sq]; exact hsq]
    ring
  · simp only [cs_nonpos k _ h]
    have hneg : 0 < -k := by
      rcases lt_or_gt_of_ne hk with h' | h'
      · linarith
      · exact absurd h' h
    have hs : √(-k) ≠ 0 := (Real.sqrt_pos.mpr hneg).ne'
    have hsq : √(-k) * √(-k) = -k := Real.mul_self_sqrt hneg.le
    rw [mul_add, Real.cosh_add]
    field_simp
    rw [show √(-k) ^ 2 = -k by rw [sq]; exact hsq]
    ring

theorem cs_add_s (k a b : ℝ) (hk : k ≠ 0) :
    (cs k (a + b)).s = (cs k a).s * (cs k b).c + (cs k a).c * (cs k b).s := by
  by_cases h : 0 < k
  · simp only [cs_pos k _ h]
    have hs : √k ≠ 0 := (Real.sqrt_pos.mpr h).ne'
    rw [mul_add, Real.sin_add]
    field_simp
  · simp only [cs_nonpos k _ h]
    have hneg : 0 < -k := by
      rcases lt_or_gt_of_ne hk with h' | h'
      · linarith
      · exact absurd h' h
    have hs : √(-k) ≠ 0 := (Real.sqrt_pos.mpr hneg).ne'
    rw [mul_add, Real.sinh_add]
    field_simp

theorem cs_zero (k : ℝ) : (cs k 0).c = 1 ∧ (cs k 0).s = 0 := by
  by_cases h : 0 < k
  · simp [cs_pos k _ h]
  · simp [cs_nonpos k _ h]

/-! ## derivatives of the focusing functions (both signs of `k`) -/

theorem cs_c_hasDeriv (k L : ℝ) (hk : k ≠ 0) :
    HasDerivAt (fun l => (cs k l).c) (-k * (cs k L).s) L := by
  by_cases h : 0 < k
  · simp only [cs_pos k _ h]
    obtain ⟨r, hr, hkr, hsr⟩ : ∃ r, 0 < r ∧ k = r * r ∧ √k = r :=
      ⟨√k, Real.sqrt_pos.mpr h, (Real.mul_self_sqrt h.le).symm, rfl⟩
    rw [hsr]; subst hkr
    have h1 : HasDerivAt (fun l => r * l) r L := by simpa using (hasDerivAt_id L).const_mul r
    refine (h1.cos).congr_deriv ?_
    field_simp
  · simp only [cs_nonpos k _ h]
    have hneg : 0 < -k := by
      rcases lt_or_gt_of_ne hk with h' | h'
      · linarith
      · exact absurd h' h
    obtain ⟨r, hr, hkr, hsr⟩ : ∃ r, 0 < r ∧ -k = r * r ∧ √(-k) = r :=
      ⟨√(-k), Real.sqrt_pos.mpr hneg, (Real.mul_self_sqrt hneg.le).symm, rfl⟩
    rw [hsr]
    have hk' : k = -(r * r) := by linarith
    subst hk'
    have h1 : HasDerivAt (fun l => r * l) r L := by simpa using (hasDerivAt_id L).const_mul r
    refine (h1.cosh).congr_deriv ?_
    field_simp

theorem cs_s_hasDeriv (k L : ℝ) (hk : k ≠ 0) :
    HasDerivAt (fun l => (cs k l).s) ((cs k L).c) L := by
  by_cases h : 0 < k
  · simp only [cs_pos k _ h]
    have hr : √k ≠ 0 := (Real.sqrt_pos.mpr h).ne'
    have h1 : HasDerivAt (fun l => √k * l) (√k) L := by simpa using (hasDerivAt_id L).const_mul (√k)
    refine ((h1.sin).div_const (√k)).congr_deriv ?_
    field_simp
  · simp only [cs_nonpos k _ h]
    have hneg : 0 < -k := by
      rcases lt_or_gt_of_ne hk with h' | h'
      · linarith
      · exact absurd h' h
    have hr : √(-k) ≠ 0 := (Real.sqrt_pos.mpr hneg).ne'
    have h1 : HasDerivAt (fun l => √(-k) * l) (√(-k)) L := by
      simpa using (hasDerivAt_id L).const_mul (√(-k))
    refine ((h1.sinh).div_const (√(-k))).congr_deriv ?_
    field_simp

/-! ## from a one-parameter group with a generator at 0 to the flow equation everywhere -/

/-- If `R (a + b) = R a * R b` and every entry of `R` has derivative `A i j` at 0, then
`d/dL R(L) = A * R(L)` entrywise, at every `L`. -/
theorem flow_of_group {n : ℕ} (R : ℝ → Matrix (Fin n) (Fin n) ℝ) (A : Matrix (Fin n) (Fin n) ℝ)
    (hadd : ∀ a b, R (a + b) = R a * R b)
    (h0 : ∀ i j, HasDerivAt (fun l => R l i j) (A i j) 0) (L : ℝ) (i j : Fin n) :
    HasDerivAt (fun l => R l i j) ((A * R L) i j) L := by
  have hshift : ∀ k, HasDerivAt (fun l => R (l - L) i k) (A i k) L := by
    intro k
    have h0' : HasDerivAt (fun l => R l i k) (A i k) (L - L) := by rw [sub_self]; exact h0 i k
    exact h0'.comp_sub_const L L
  have hsum : HasDerivAt (fun l => ∑ k, R (l - L) i k * R L k j) (∑ k, A i k * R L k j) L := by
    apply HasDerivAt.fun_sum
    intro k _
    exact (hshift k).mul_const (R L k j)
  have heq : (fun l => R l i j) = (fun l => ∑ k, R (l - L) i k * R L k j) := by
    funext l
    have := hadd (l - L) L
    rw [sub_add_cancel] at this
    rw [this, Matrix.mul_apply]
  rw [heq, Matrix.mul_apply]
  exact hsum

/-! ## group law of `base_rmatrix` -/

theorem toM_baseRof (e : BaseE ℝ) : (baseRof e).toM =
    !![e.cx, e.sx, 0, 0, 0, e.dx / e.beta, 0;
       -e.kx2 * e.sx, e.cx, 0, 0, 0, e.sx * e.hx / e.beta, 0;
       0, 0, e.cy, e.sy, 0, 0, 0;
       0, 0, -e.ky2 * e.sy, e.cy, 0, 0, 0;
       e.sx * e.hx / e.beta, e.dx / e.beta, 0, 0, 1, e.r56, 0;
       0, 0, 0, 0, 0, 1, 0;
       0, 0, 0, 0, 0, 0, 1] := by
  ext i j
  fin_cases i <;> fin_cases j <;>
    simp [baseRof, Mat7.get, Mat7.row, Vec7.get] <;> norm_num

/-- product of two body maps with the same focusing strengths, as a body map -/
theorem baseRof_mul (cxa sxa cya sya cxb sxb cyb syb kx2 ky2 hx β ra rb : ℝ) (hβ : β ≠ 0) (hk : kx2 ≠ 0) :
    (baseRof ⟨cxa * cxb - kx2 * sxa * sxb, sxa * cxb + cxa * sxb, cya * cyb - ky2 * sya * syb,
        sya * cyb + cya * syb, kx2, ky2, hx, β, hx / kx2 * (1 - (cxa * cxb - kx2 * sxa * sxb)),
        ra + rb + hx * hx / (kx2 * (β * β)) * (sxa * (1 - cxb) + (1 - cxa) * sxb)⟩).toM =
    (baseRof ⟨cxa, sxa, cya, sya, kx2, ky2, hx, β, hx / kx2 * (1 - cxa), ra⟩).toM *
      (baseRof ⟨cxb, sxb, cyb, syb, kx2, ky2, hx, β, hx / kx2 * (1 - cxb), rb⟩).toM := by
  simp only [toM_baseRof]
  ext i j
  fin_cases i <;> fin_cases j <;>
    simp [Matrix.mul_apply, Fin.sum_univ_succ] <;> (try field_simp) <;> (try ring)

theorem baseE_r56 (L k1 hx E m : ℝ) :
    (baseE L k1 hx E m).r56 =
      hx * hx * (L - (cs (guardK1 k1 + hx * hx) L).s) / (guardK1 k1 + hx * hx) /
        ((relFactors E m).beta * (relFactors E m).beta)
      - L / ((relFactors E m).beta * (relFactors E m).beta) * (relFactors E m).igamma2 := by
  have hg : (if Scalar.eqb k1 (0.0:ℝ) = true then (1e-12:ℝ) else k1) = guardK1 k1 := by
    unfold guardK1
    by_cases h : k1 = 0
    · simp only [if_true, h]; norm_num
    · have : Scalar.eqb k1 (0.0:ℝ) = false := by rw [Scalar.real_eqb_false]; norm_num; exact h
      simp [this, h]
  unfold baseE
  simp only [hg]

/-- all ten scalar ingredients of `base_rmatrix` in closed form -/
theorem baseE_eq (L k1 hx E m : ℝ) :
    baseE L k1 hx E m =
      ⟨(cs (guardK1 k1 + hx * hx) L).c, (cs (guardK1 k1 + hx * hx) L).s, (cs (-guardK1 k1) L).c,
        (cs (-guardK1 k1) L).s, guardK1 k1 + hx * hx, -guardK1 k1, hx, (relFactors E m).beta,
        hx / (guardK1 k1 + hx * hx) * (1 - (cs (guardK1 k1 + hx * hx) L).c),
        hx * hx * (L - (cs (guardK1 k1 + hx * hx) L).s) / (guardK1 k1 + hx * hx) /
          ((relFactors E m).beta * (relFactors E m).beta)
        - L / ((relFactors E m).beta * (relFactors E m).beta) * (relFactors E m).igamma2⟩ := by
  obtain ⟨h1, h2, h3, h4, h5, h6, h7, h8, h9⟩ := baseE_fields L k1 hx E m
  have h10 := baseE_r56 L k1 hx E m
  cases hh : baseE L k1 hx E m
  simp only [hh] at h1 h2 h3 h4 h5 h6 h7 h8 h9 h10
  subst h1 h2 h3 h4 h5 h6 h7 h8 h9 h10
  rfl

/-- **C02 / C16**: `base_rmatrix(L₁ + L₂) = base_rmatrix(L₁) · base_rmatrix(L₂)` (same strengths, energy) -/
theorem baseR0_add (a b k1 hx E m : ℝ) (hm : 0 < m) (hE : m < E)
    (hk : guardK1 k1 + hx * hx ≠ 0) :
    (baseR0 (a + b) k1 hx E m).toM = (baseR0 a k1 hx E m).toM * (baseR0 b k1 hx E m).toM := by
  have hβ : (relFactors E m).beta ≠ 0 := (relFactors_beta_pos E m hm hE).ne'
  have hky : -guardK1 k1 ≠ 0 := neg_ne_zero.mpr (guardK1_ne_zero k1)
  unfold baseR0
  rw [baseE_eq, baseE_eq, baseE_eq]
  rw [cs_add_c _ a b hk, cs_add_s _ a b hk, cs_add_c _ a b hky, cs_add_s _ a b hky]
  rw [← baseRof_mul _ _ _ _ _ _ _ _ _ _ _ _ _ _ hβ hk]
  congr 1
  congr 1
  field_simp
  ring

theorem baseR0_zero (k1 hx E m : ℝ) (hk : guardK1 k1 + hx * hx ≠ 0) :
    (baseR0 0 k1 hx E m).toM = 1 := by
  unfold baseR0
  rw [baseE_eq, toM_baseRof]
  simp only [(cs_zero _).1, (cs_zero _).2]
  ext i j
  fin_cases i <;> fin_cases j <;> simp

/-! ## generator of `base_rmatrix` -/

/-- the generator (linearised equations of motion) of the combined-function sector magnet in
Cheetah's coordinates (x, px, y, py, τ, δ, 1):
`x' = px, px' = −(k1+h²)x + (h/β)δ, y' = py, py' = k1·y, τ' = (h/β)x − δ/(β²γ²), δ' = 0`. -/
noncomputable def genBase (kx2 ky2 hx β ig2 : ℝ) : Matrix (Fin 7) (Fin 7) ℝ :=
  !![0, 1, 0, 0, 0, 0, 0;
     -kx2, 0, 0, 0, 0, hx / β, 0;
     0, 0, 0, 1, 0, 0, 0;
     0, 0, -ky2, 0, 0, 0, 0;
     hx / β, 0, 0, 0, 0, -ig2 / (β * β), 0;
     0, 0, 0, 0, 0, 0, 0;
     0, 0, 0, 0, 0, 0, 0]

private noncomputable def Mcx (kx2 hx β : ℝ) : Matrix (Fin 7) (Fin 7) ℝ :=
  !![1, 0, 0, 0, 0, -hx / (kx2 * β), 0;
     0, 1, 0, 0, 0, 0, 0;
     0, 0, 0, 0, 0, 0, 0;
     0, 0, 0, 0, 0, 0, 0;
     0, -hx / (kx2 * β), 0, 0, 0, 0, 0;
     0, 0, 0, 0, 0, 0, 0;
     0, 0, 0, 0, 0, 0, 0]
private noncomputable def Msx (kx2 hx β : ℝ) : Matrix (Fin 7) (Fin 7) ℝ :=
  !![0, 1, 0, 0, 0, 0, 0;
     -kx2, 0, 0, 0, 0, hx / β, 0;
     0, 0, 0, 0, 0, 0, 0;
     0, 0, 0, 0, 0, 0, 0;
     hx / β, 0, 0, 0, 0, -(hx * hx) / (kx2 * (β * β)), 0;
     0, 0, 0, 0, 0, 0, 0;
     0, 0, 0, 0, 0, 0, 0]
private def Mcy : Matrix (Fin 7) (Fin 7) ℝ :=
  !![0, 0, 0, 0, 0, 0, 0;
     0, 0, 0, 0, 0, 0, 0;
     0, 0, 1, 0, 0, 0, 0;
     0, 0, 0, 1, 0, 0, 0;
     0, 0, 0, 0, 0, 0, 0;
     0, 0, 0, 0, 0, 0, 0;
     0, 0, 0, 0, 0, 0, 0]
private def Msy (ky2 : ℝ) : Matrix (Fin 7) (Fin 7) ℝ :=
  !![0, 0, 0, 0, 0, 0, 0;
     0, 0, 0, 0, 0, 0, 0;
     0, 0, 0, 1, 0, 0, 0;
     0, 0, -ky2, 0, 0, 0, 0;
     0, 0, 0, 0, 0, 0, 0;
     0, 0, 0, 0, 0, 0, 0;
     0, 0, 0, 0, 0, 0, 0]
private noncomputable def Ml (kx2 hx β ig2 : ℝ) : Matrix (Fin 7) (Fin 7) ℝ :=
  !![0, 0, 0, 0, 0, 0, 0;
     0, 0, 0, 0, 0, 0, 0;
     0, 0, 0, 0, 0, 0, 0;
     0, 0, 0, 0, 0, 0, 0;
     0, 0, 0, 0, 0, (hx * hx) / (kx2 * (β * β)) - ig2 / (β * β), 0;
     0, 0, 0, 0, 0, 0, 0;
     0, 0, 0, 0, 0, 0, 0]
private noncomputable def M0 (kx2 hx β : ℝ) : Matrix (Fin 7) (Fin 7) ℝ :=
  !![0, 0, 0, 0, 0, hx / (kx2 * β), 0;
     0, 0, 0, 0, 0, 0, 0;
     0, 0, 0, 0, 0, 0, 0;
     0, 0, 0, 0, 0, 0, 0;
     0, hx / (kx2 * β), 0, 0, 1, 0, 0;
     0, 0, 0, 0, 0, 1, 0;
     0, 0, 0, 0, 0, 0, 1]

/-- every entry of the body map is an affine combination of cx, sx, cy, sy and L -/
private theorem baseR0_decomp (l k1 hx E m : ℝ) (hβ : (relFactors E m).beta ≠ 0)
    (hk : guardK1 k1 + hx * hx ≠ 0) (i j : Fin 7) :
    (baseR0 l k1 hx E m).toM i j =
      (cs (guardK1 k1 + hx * hx) l).c * Mcx (guardK1 k1 + hx * hx) hx (relFactors E m).beta i j
      + (cs (guardK1 k1 + hx * hx) l).s * Msx (guardK1 k1 + hx * hx) hx (relFactors E m).beta i j
      + (cs (-guardK1 k1) l).c * Mcy i j + (cs (-guardK1 k1) l).s * Msy (-guardK1 k1) i j
      + l * Ml (guardK1 k1 + hx * hx) hx (relFactors E m).beta (relFactors E m).igamma2 i j
      + M0 (guardK1 k1 + hx * hx) hx (relFactors E m).beta i j := by
  unfold baseR0
  rw [baseE_eq, toM_baseRof]
  fin_cases i <;> fin_cases j <;>
    simp [Mcx, Msx, Mcy, Msy, Ml, M0] <;> (try field_simp) <;> (try ring)

/-- derivative of every entry of `base_rmatrix` with respect to the length, at length 0, is the generator -/
theorem baseR0_deriv0 (k1 hx E m : ℝ) (hm : 0 < m) (hE : m < E) (hk : guardK1 k1 + hx * hx ≠ 0)
    (i j : Fin 7) :
    HasDerivAt (fun l => (baseR0 l k1 hx E m).toM i j)
      (genBase (guardK1 k1 + hx * hx) (-guardK1 k1) hx (relFactors E m).beta (relFactors E m).igamma2 i j) 0 := by
  have hβ : (relFactors E m).beta ≠ 0 := (relFactors_beta_pos E m hm hE).ne'
  have hky : -guardK1 k1 ≠ 0 := neg_ne_zero.mpr (guardK1_ne_zero k1)
  have e : (fun l => (baseR0 l k1 hx E m).toM i j) = fun l =>
      (cs (guardK1 k1 + hx * hx) l).c * Mcx (guardK1 k1 + hx * hx) hx (relFactors E m).beta i j
      + (cs (guardK1 k1 + hx * hx) l).s * Msx (guardK1 k1 + hx * hx) hx (relFactors E m).beta i j
      + (cs (-guardK1 k1) l).c * Mcy i j + (cs (-guardK1 k1) l).s * Msy (-guardK1 k1) i j
      + l * Ml (guardK1 k1 + hx * hx) hx (relFactors E m).beta (relFactors E m).igamma2 i j
      + M0 (guardK1 k1 + hx * hx) hx (relFactors E m).beta i j := by
    funext l; exact baseR0_decomp l k1 hx E m hβ hk i j
  rw [e]
  have d1 := (cs_c_hasDeriv _ 0 hk).mul_const (Mcx (guardK1 k1 + hx * hx) hx (relFactors E m).beta i j)
  have d2 := (cs_s_hasDeriv _ 0 hk).mul_const (Msx (guardK1 k1 + hx * hx) hx (relFactors E m).beta i j)
  have d3 := (cs_c_hasDeriv _ 0 hky).mul_const (Mcy i j)
  have d4 := (cs_s_hasDeriv _ 0 hky).mul_const (Msy (-guardK1 k1) i j)
  have d5 := (hasDerivAt_id (0:ℝ)).mul_const
    (Ml (guardK1 k1 + hx * hx) hx (relFactors E m).beta (relFactors E m).igamma2 i j)
  have d := ((((d1.add d2).add d3).add d4).add d5).add_const
    (M0 (guardK1 k1 + hx * hx) hx (relFactors E m).beta i j)
  refine d.congr_deriv ?_
  simp only [(cs_zero _).1, (cs_zero _).2]
  fin_cases i <;> fin_cases j <;>
    simp [genBase, Mcx, Msx, Mcy, Msy, Ml, M0] <;> (try field_simp) <;> (try ring)

/-- **C02**: `base_rmatrix` solves the linearised equations of motion, `dR/dL = A·R`, at every length -/
theorem baseR0_flow (k1 hx E m : ℝ) (hm : 0 < m) (hE : m < E) (hk : guardK1 k1 + hx * hx ≠ 0)
    (L : ℝ) (i j : Fin 7) :
    HasDerivAt (fun l => (baseR0 l k1 hx E m).toM i j)
      ((genBase (guardK1 k1 + hx * hx) (-guardK1 k1) hx (relFactors E m).beta (relFactors E m).igamma2
        * (baseR0 L k1 hx E m).toM) i j) L :=
  flow_of_group (fun l => (baseR0 l k1 hx E m).toM) _
    (fun a b => baseR0_add a b k1 hx E m hm hE hk)
    (fun i j => baseR0_deriv0 k1 hx E m hm hE hk i j) L i j
