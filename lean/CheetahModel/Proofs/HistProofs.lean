import CheetahModel.Proofs.DiagProofs
import CheetahModel.Proofs.Survival
import Mathlib.Algebra.BigOperators.Ring.Finset
/-!
# The histogram image sums to the weight that falls inside the screen (C20)
-/
open Scalar

/-- one particle contributes its weight to exactly one pixel if it is inside the screen, and to none otherwise -/
theorem hist_single (s : ScreenP ℝ) (x y w : ℝ) :
    ∑ r ∈ Finset.range s.effH, ∑ c ∈ Finset.range s.effW, (if pixelOf s x y == some (r, c) then w else 0)
      = if (pixelOf s x y).isSome then w else 0 := by
  cases h : pixelOf s x y with
  | none => simp
  | some rc =>
      obtain ⟨r0, c0⟩ := rc
      obtain ⟨hr, hc, _⟩ := pixelOf_spec s x y r0 c0 h
      simp only [Option.isSome_some, if_true]
      rw [Finset.sum_eq_single r0]
      · rw [Finset.sum_eq_single c0]
        · simp
        · intro c _ hne
          have : ¬ ((some (r0, c0) : Option (ℕ × ℕ)) == some (r0, c)) = true := by
            simp; exact fun h => hne h.symm
          rw [if_neg this]
        · intro hn; exact absurd (Finset.mem_range.mpr hc) hn
      · intro r _ hne
        apply Finset.sum_eq_zero
        intro c _
        have : ¬ ((some (r0, c0) : Option (ℕ × ℕ)) == some (r, c)) = true := by
          simp; exact fun h _ => hne h.symm
        rw [if_neg this]
      · intro hn; exact absurd (Finset.mem_range.mpr hr) hn

/-- **C20**: the histogram image sums to the weight (charge × survival) of the particles inside the screen -/
theorem histImage_total (s : ScreenP ℝ) : ∀ (pts : List (ℝ × ℝ × ℝ)),
    ∑ r ∈ Finset.range s.effH, ∑ c ∈ Finset.range s.effW, histImage s pts r c = histTotal s pts
  | [] => by simp [histImage, histTotal, listSum_eq]
  | p :: ps => by
      have ih := histImage_total s ps
      have split : ∀ r c, histImage s (p :: ps) r c
          = (if pixelOf s p.1 p.2.1 == some (r, c) then p.2.2 else 0) + histImage s ps r c := by
        intro r c
        unfold histImage
        rw [listSum_eq, listSum_eq, List.map_cons, List.sum_cons]
        norm_num
      simp only [split, Finset.sum_add_distrib, ih, hist_single]
      unfold histTotal
      rw [listSum_eq, listSum_eq, List.map_cons, List.sum_cons]
      norm_num

/-- every pixel value is a sum of non-negative weights -/
theorem histImage_nonneg (s : ScreenP ℝ) (pts : List (ℝ × ℝ × ℝ)) (h : ∀ p ∈ pts, 0 ≤ p.2.2) (r c : ℕ) :
    0 ≤ histImage s pts r c := by
  unfold histImage
  rw [listSum_eq]
  apply List.sum_nonneg
  intro v hv
  obtain ⟨p, hp, rfl⟩ := List.mem_map.mp hv
  split
  · exact h p hp
  · norm_num
