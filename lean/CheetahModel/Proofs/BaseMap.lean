import CheetahModel.Proofs.Symplectic
/-!
# Facts about `relFactors`, `cs`, `baseE` at ℝ (bridges from the executable definitions to Mathlib terms)
-/
open Scalar

theorem cs_pos (k2 L : ℝ) (h : 0 < k2) :
    cs k2 L = ⟨Real.cos (√k2 * L), Real.sin (√k2 * L) / √k2⟩ := by
  have : Scalar.ltb (0.0:ℝ) k2 = true := by rw [Scalar.real_ltb]; norm_num; exact h
  simp [cs, this]

theorem cs_nonpos (k2 L : ℝ) (h : ¬ 0 < k2) :
    cs k2 L = ⟨Real.cosh (√(-k2) * L), Real.sinh (√(-k2) * L) / √(-k2)⟩ := by
  have : Scalar.ltb (0.0:ℝ) k2 = false := by rw [Scalar.real_ltb_false]; norm_num; exact not_lt.mp h
  simp [cs, this]

/-- the Pythagorean identity of the focusing functions, for either sign of `k2` -/
theorem cs_identity (k2 L : ℝ) (hk : k2 ≠ 0) : (cs k2 L).c ^ 2 + k2 * (cs k2 L).s ^ 2 = 1 := by
  by_cases h : 0 < k2
  · rw [cs_pos k2 L h]
    have hs : √k2 ≠ 0 := (Real.sqrt_pos.mpr h).ne'
    have hsq : √k2 ^ 2 = k2 := Real.sq_sqrt h.le
    simp only
    field_simp
    rw [hsq]
    nlinarith [Real.cos_sq_add_sin_sq (√k2 * L)]
  · rw [cs_nonpos k2 L h]
    have hneg : 0 < -k2 := by
      rcases lt_or_gt_of_ne hk with h' | h'
      · linarith
      · exact absurd h' h
    have hs : √(-k2) ≠ 0 := (Real.sqrt_pos.mpr hneg).ne'
    have hsq : √(-k2) ^ 2 = -k2 := Real.sq_sqrt hneg.le
    simp only
    field_simp
    have := Real.cosh_sq (√(-k2) * L)
    nlinarith [this, hsq]

theorem relFactors_eq (E m : ℝ) (hm : 0 < m) (hE : m < E) :
    relFactors E m = ⟨E / m, 1 / ((E / m) * (E / m)), √(1 - 1 / ((E / m) * (E / m)))⟩ := by
  have hg : E / m ≠ 0 := by
    have : 0 < E / m := div_pos (by linarith) hm
    exact this.ne'
  have : Scalar.eqb (E / m) (0.0:ℝ) = false := by rw [Scalar.real_eqb_false]; norm_num; exact ⟨by linarith, hm.ne'⟩
  unfold relFactors
  simp only [this]
  norm_num

theorem gamma_gt_one (E m : ℝ) (hm : 0 < m) (hE : m < E) : 1 < E / m := by
  rw [lt_div_iff₀ hm]; linarith

theorem relFactors_beta_pos (E m : ℝ) (hm : 0 < m) (hE : m < E) : 0 < (relFactors E m).beta := by
  rw [relFactors_eq E m hm hE]
  simp only
  apply Real.sqrt_pos.mpr
  have hg := gamma_gt_one E m hm hE
  have : 1 / ((E / m) * (E / m)) < 1 := by
    rw [div_lt_one (by nlinarith)]; nlinarith
  linarith

/-- β² = 1 − 1/γ² -/
theorem relFactors_beta_sq (E m : ℝ) (hm : 0 < m) (hE : m < E) :
    (relFactors E m).beta ^ 2 = 1 - 1 / ((E / m) * (E / m)) := by
  rw [relFactors_eq E m hm hE]
  simp only
  apply Real.sq_sqrt
  have hg := gamma_gt_one E m hm hE
  have : 1 / ((E / m) * (E / m)) < 1 := by
    rw [div_lt_one (by nlinarith)]; nlinarith
  linarith

/-- β²γ² = γ² − 1 -/
theorem beta_gamma_sq (E m : ℝ) (hm : 0 < m) (hE : m < E) :
    (relFactors E m).beta ^ 2 * (relFactors E m).gamma ^ 2 = (relFactors E m).gamma ^ 2 - 1 := by
  rw [relFactors_beta_sq E m hm hE, relFactors_eq E m hm hE]
  have hg := gamma_gt_one E m hm hE
  have hE0 : E ≠ 0 := by linarith
  have hm0 : m ≠ 0 := hm.ne'
  simp only
  field_simp

/-- the guarded strength `k1[k1 == 0] = 1e-12` -/
noncomputable def guardK1 (k1 : ℝ) : ℝ := if k1 = 0 then 1e-12 else k1

theorem guardK1_ne_zero (k1 : ℝ) : guardK1 k1 ≠ 0 := by
  unfold guardK1; split
  · norm_num
  · assumption

theorem baseE_fields (L k1 hx E m : ℝ) :
    (baseE L k1 hx E m).kx2 = guardK1 k1 + hx * hx ∧ (baseE L k1 hx E m).ky2 = -guardK1 k1 ∧
    (baseE L k1 hx E m).hx = hx ∧ (baseE L k1 hx E m).beta = (relFactors E m).beta ∧
    (baseE L k1 hx E m).cx = (cs (guardK1 k1 + hx * hx) L).c ∧
    (baseE L k1 hx E m).sx = (cs (guardK1 k1 + hx * hx) L).s ∧
    (baseE L k1 hx E m).cy = (cs (-guardK1 k1) L).c ∧
    (baseE L k1 hx E m).sy = (cs (-guardK1 k1) L).s ∧
    (baseE L k1 hx E m).dx = hx / (guardK1 k1 + hx * hx) * (1 - (cs (guardK1 k1 + hx * hx) L).c) := by
  have hg : (if Scalar.eqb k1 (0.0:ℝ) = true then (1e-12:ℝ) else k1) = guardK1 k1 := by
    unfold guardK1
    by_cases h : k1 = 0
    · have : Scalar.eqb k1 (0.0:ℝ) = true := by rw [Scalar.real_eqb]; norm_num; exact h
      simp only [if_true, h]; norm_num
    · have : Scalar.eqb k1 (0.0:ℝ) = false := by rw [Scalar.real_eqb_false]; norm_num; exact h
      simp [this, h]
  unfold baseE
  simp only [hg]
  norm_num

/-- **C03 (body maps)**: the 6×6 block of `base_rmatrix` (quadrupole of either sign, sector bend with
gradient, drift limit through the 1e-12 guard) is symplectic, for every length, strength, curvature
and every reference energy above the rest energy, provided `k1 + hx² ≠ 0` (where the code divides). -/
theorem baseR0_symplectic (L k1 hx E m : ℝ) (hm : 0 < m) (hE : m < E)
    (hk : guardK1 k1 + hx * hx ≠ 0) : Symp6 (block6 (baseR0 L k1 hx E m)) := by
  obtain ⟨h1, h2, h3, h4, h5, h6, h7, h8, h9⟩ := baseE_fields L k1 hx E m
  unfold baseR0
  apply baseRof_symplectic
  · rw [h4]; exact (relFactors_beta_pos E m hm hE).ne'
  · rw [h1]; exact hk
  · rw [h5, h6, h1]; exact cs_identity _ L hk
  · rw [h7, h8, h2]; exact cs_identity _ L (neg_ne_zero.mpr (guardK1_ne_zero k1))
  · rw [h9, h3, h1, h5]
