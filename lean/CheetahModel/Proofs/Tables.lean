import CheetahModel.Generated.Features
import CheetahModel.Generated.Predicates
import CheetahModel.Generated.DtypeSites
import CheetahModel.Generated.ConverterTables
import CheetahModel.Generated.Pinned
/-!
# Decidable predicates over the tables regenerated from /repo by tools/extract.py
-/
namespace Gen

/-- constructor parameters that are not element attributes -/
def nonFeatureParams : List String := ["name", "device", "dtype"]

/-- `defining_features` cover exactly the constructor-settable attributes (+ "name") -/
def coversCtor (c : ClassInfo) : Bool :=
  (c.ctor.filter fun p => !(nonFeatureParams.contains p)).all (fun p => c.features.contains p) &&
  (c.features.filter fun p => p != "name").all (fun p => c.ctor.contains p) &&
  c.features.contains "name"

/-- a class whose `split` builds pieces forwards every constructor parameter except the name
(so pieces keep dtype, device, tracking method, number of steps, tilt, misalignment …) -/
def splitForwardsAll (c : ClassInfo) : Bool :=
  match c.splitForwards with
  | none => true              -- inherits split (RBend)
  | some [] => true           -- returns [self]
  | some fw => (c.ctor.filter fun p => p != "name").all (fun p => fw.contains p)

/-- subset test on sorted string lists (linear) -/
def subsetSorted : List String → List String → Bool
  | [], _ => true
  | _ :: _, [] => false
  | a :: as, b :: bs => if a = b then subsetSorted as bs else if b < a then subsetSorted (a :: as) bs else false

def findPred (n : String) : Option PredInfo := predicates.find? fun p => p.name == n

end Gen
