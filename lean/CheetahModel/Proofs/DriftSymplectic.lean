import CheetahModel.Proofs.BmadxProofs
import CheetahModel.BmadxJac
import Mathlib.Analysis.SpecialFunctions.Sqrt
import Mathlib.Analysis.Calculus.Deriv.Mul
import Mathlib.Analysis.Calculus.Deriv.Inv
import Mathlib.Analysis.Calculus.Deriv.Add
import Mathlib.LinearAlgebra.Matrix.Notation
import Mathlib.Tactic.FinCases
/-!
# The Bmad-X drift kernel is symplectic at every transportable point (C03, C07)

`trackADrift` (Bmad coordinates `x, px, y, py, z, pz`) is a shear `q ↦ q + L·u(p)`, `p ↦ p`, with
`u = (px/r, py/r, G(pz) − P/r)`, `P = 1 + pz`, `r = √(P² − px² − py²)`.  Its Jacobian at a point is computed here
entry by entry (`HasDerivAt` of every output coordinate along every input coordinate, `jacobian_entries`), the gradient
of `u` turns out symmetric, and therefore `Jᵀ S J = S` for the canonical form `S = blockdiag(J₂, J₂, J₂)` — at every
point with `P > 0` and `px² + py² < P²`, any length, any reference momentum (`jacobian_symplectic`).
-/
open Scalar

namespace DriftSympl

/-- `P² − px² − py²` -/
def sq (px py pz : ℝ) : ℝ := (1 + pz) * (1 + pz) - px * px - py * py
/-- `(p0c·P)² + m²` (squared particle energy) -/
def en (p0c m pz : ℝ) : ℝ := p0c * (1 + pz) * (p0c * (1 + pz)) + m * m

theorem en_pos (p0c m pz : ℝ) (hm : 0 < m) : 0 < en p0c m pz := by
  unfold en; nlinarith [mul_self_nonneg (p0c * (1 + pz)), mul_pos hm hm]

/-- `sqrt_one x = x / (√(1+x) + 1) = √(1+x) − 1` -/
theorem sqrtOne_eq (x : ℝ) (h : 0 ≤ 1 + x) : sqrtOne x = √(1 + x) - 1 := by
  have h10 : (1.0:ℝ) = 1 := by norm_num
  unfold sqrtOne; simp only [h10, Scalar.real_sqrt]
  have hs : 0 ≤ √(1 + x) := Real.sqrt_nonneg _
  have hsq : √(1 + x) * √(1 + x) = 1 + x := Real.mul_self_sqrt h
  have hne : √(1 + x) + 1 ≠ 0 := by linarith
  field_simp
  linear_combination -hsq

/-- closed form of the kernel on the transportable set -/
theorem closed (L : ℝ) (p : BP ℝ) (p0c m : ℝ) (hP : 0 < 1 + p.pz) (hT : 0 < sq p.px p.py p.pz) (hm : 0 < m) :
    trackADrift L p p0c m =
      { p with x := p.x + L * (p.px / √(sq p.px p.py p.pz)),
               y := p.y + L * (p.py / √(sq p.px p.py p.pz)),
               z := p.z + L * ((1 + p.pz) * √(p0c * p0c + m * m) / √(en p0c m p.pz)
                                - (1 + p.pz) / √(sq p.px p.py p.pz)) } := by
  have h10 : (1.0:ℝ) = 1 := by norm_num
  have h20 : (2.0:ℝ) = 2 := by norm_num
  have hPne : (1 + p.pz) ≠ 0 := hP.ne'
  have hr : 0 < √(sq p.px p.py p.pz) := Real.sqrt_pos.mpr hT
  have key : √(1 - (p.px / (1 + p.pz) * (p.px / (1 + p.pz)) + p.py / (1 + p.pz) * (p.py / (1 + p.pz)))) =
      √(sq p.px p.py p.pz) / (1 + p.pz) := by
    rw [show 1 - (p.px / (1 + p.pz) * (p.px / (1 + p.pz)) + p.py / (1 + p.pz) * (p.py / (1 + p.pz)))
        = (sq p.px p.py p.pz) / ((1 + p.pz) * (1 + p.pz)) by unfold sq; field_simp; ring]
    rw [Real.sqrt_div' _ (by positivity), Real.sqrt_mul_self hP.le]
  have hrad : 0 ≤ 1 + -(p.px / (1 + p.pz) * (p.px / (1 + p.pz)) + p.py / (1 + p.pz) * (p.py / (1 + p.pz))) := by
    rw [show 1 + -(p.px / (1 + p.pz) * (p.px / (1 + p.pz)) + p.py / (1 + p.pz) * (p.py / (1 + p.pz)))
        = (sq p.px p.py p.pz) / ((1 + p.pz) * (1 + p.pz)) by unfold sq; field_simp; ring]
    positivity
  have hen : 0 < en p0c m p.pz := en_pos p0c m p.pz hm
  have hA : 1 + m * m * (2 * p.pz + p.pz * p.pz) / (p0c * (1 + p.pz) * (p0c * (1 + p.pz)) + m * m)
      = (1 + p.pz) * (1 + p.pz) * (p0c * p0c + m * m) / en p0c m p.pz := by
    unfold en at hen ⊢; field_simp; ring
  have hA0 : 0 ≤ 1 + m * m * (2 * p.pz + p.pz * p.pz) / (p0c * (1 + p.pz) * (p0c * (1 + p.pz)) + m * m) := by
    rw [hA]; exact div_nonneg (mul_nonneg (mul_self_nonneg _) (by nlinarith [mul_self_nonneg p0c, mul_pos hm hm])) hen.le
  have hsA : √(1 + m * m * (2 * p.pz + p.pz * p.pz) / (p0c * (1 + p.pz) * (p0c * (1 + p.pz)) + m * m))
      = (1 + p.pz) * √(p0c * p0c + m * m) / √(en p0c m p.pz) := by
    rw [hA, Real.sqrt_div' _ hen.le, Real.sqrt_mul (by positivity), Real.sqrt_mul_self hP.le]
  unfold trackADrift
  simp only [h10, h20, Scalar.real_sqrt]
  rw [sqrtOne_eq _ hA0, sqrtOne_eq _ hrad, hsA]
  rw [show 1 + -(p.px / (1 + p.pz) * (p.px / (1 + p.pz)) + p.py / (1 + p.pz) * (p.py / (1 + p.pz)))
      = 1 - (p.px / (1 + p.pz) * (p.px / (1 + p.pz)) + p.py / (1 + p.pz) * (p.py / (1 + p.pz))) by ring]
  rw [key]
  have hrne := hr.ne'
  congr 1 <;> field_simp <;> ring

/-- derivative of `a / √s` -/
theorem hasDerivAt_div_sqrt {a s : ℝ → ℝ} {a' s' t : ℝ} (ha : HasDerivAt a a' t) (hs : HasDerivAt s s' t)
    (hpos : 0 < s t) :
    HasDerivAt (fun u => a u / √(s u)) (a' / √(s t) - a t * s' / (2 * s t * √(s t))) t := by
  have hq : 0 < √(s t) := Real.sqrt_pos.mpr hpos
  have hqq : √(s t) * √(s t) = s t := Real.mul_self_sqrt hpos.le
  refine (ha.div (hs.sqrt hpos.ne') hq.ne').congr_deriv ?_
  set q := √(s t) with hqdef
  have hst : s t = q * q := hqq.symm
  rw [hst]
  have hqne : q ≠ 0 := hq.ne'
  field_simp

/-! ## the shift functions and their gradients -/

noncomputable def cx (px py pz : ℝ) : ℝ := px / √(sq px py pz)
noncomputable def cy (px py pz : ℝ) : ℝ := py / √(sq px py pz)
noncomputable def cz (p0c m px py pz : ℝ) : ℝ :=
  (1 + pz) * √(p0c * p0c + m * m) / √(en p0c m pz) - (1 + pz) / √(sq px py pz)

theorem quad_deriv (c0 c1 c2 t : ℝ) : HasDerivAt (fun u => c0 + c1 * u + c2 * (u * u)) (c1 + 2 * c2 * t) t := by
  have h1 : HasDerivAt (fun u : ℝ => c1 * u) c1 t := by simpa using (hasDerivAt_id t).const_mul c1
  have h2 : HasDerivAt (fun u : ℝ => c2 * (u * u)) (c2 * (1 * t + t * 1)) t :=
    ((hasDerivAt_id t).mul (hasDerivAt_id t)).const_mul c2
  exact (((hasDerivAt_const t c0).add h1).add h2).congr_deriv (by ring)

theorem sq_dpx (px py pz : ℝ) : HasDerivAt (fun u => sq u py pz) (-2 * px) px := by
  have := quad_deriv ((1 + pz) * (1 + pz) - py * py) 0 (-1) px
  have hf : (fun u => sq u py pz) = fun u => ((1 + pz) * (1 + pz) - py * py) + 0 * u + (-1) * (u * u) := by
    funext u; unfold sq; ring
  rw [hf]; exact this.congr_deriv (by ring)

theorem sq_dpy (px py pz : ℝ) : HasDerivAt (fun u => sq px u pz) (-2 * py) py := by
  have := quad_deriv ((1 + pz) * (1 + pz) - px * px) 0 (-1) py
  have hf : (fun u => sq px u pz) = fun u => ((1 + pz) * (1 + pz) - px * px) + 0 * u + (-1) * (u * u) := by
    funext u; unfold sq; ring
  rw [hf]; exact this.congr_deriv (by ring)

theorem sq_dpz (px py pz : ℝ) : HasDerivAt (fun u => sq px py u) (2 * (1 + pz)) pz := by
  have := quad_deriv (1 - px * px - py * py) 2 1 pz
  have hf : (fun u => sq px py u) = fun u => (1 - px * px - py * py) + 2 * u + 1 * (u * u) := by
    funext u; unfold sq; ring
  rw [hf]; exact this.congr_deriv (by ring)

theorem en_dpz (p0c m pz : ℝ) : HasDerivAt (fun u => en p0c m u) (2 * (p0c * p0c) * (1 + pz)) pz := by
  have := quad_deriv (p0c * p0c + m * m) (2 * (p0c * p0c)) (p0c * p0c) pz
  have hf : (fun u => en p0c m u) = fun u => (p0c * p0c + m * m) + 2 * (p0c * p0c) * u + p0c * p0c * (u * u) := by
    funext u; unfold en; ring
  rw [hf]; exact this.congr_deriv (by ring)

/-- the (symmetric) gradient of the shift `(cx, cy, cz)` with respect to `(px, py, pz)`: the executable model's
`driftHess` read over ℝ -/
abbrev Hess := DriftHess ℝ

noncomputable def hess (p0c m px py pz : ℝ) : Hess := driftHess p0c m px py pz

theorem hess_eq (p0c m px py pz : ℝ) : hess p0c m px py pz =
    { xx := 1 / √(sq px py pz) + px * px / (sq px py pz * √(sq px py pz)),
      xy := px * py / (sq px py pz * √(sq px py pz)),
      xz := -(px * (1 + pz)) / (sq px py pz * √(sq px py pz)),
      yy := 1 / √(sq px py pz) + py * py / (sq px py pz * √(sq px py pz)),
      yz := -(py * (1 + pz)) / (sq px py pz * √(sq px py pz)),
      zz := (√(p0c * p0c + m * m) / √(en p0c m pz)
              - (1 + pz) * √(p0c * p0c + m * m) * (p0c * p0c * (1 + pz)) / (en p0c m pz * √(en p0c m pz)))
            - (1 / √(sq px py pz) - (1 + pz) * (1 + pz) / (sq px py pz * √(sq px py pz))) } := by
  have h10 : (1.0:ℝ) = 1 := by norm_num
  simp only [hess, driftHess, sq, en, h10, Scalar.real_sqrt]

section grads
variable (p0c m px py pz : ℝ) (hT : 0 < sq px py pz)
include hT

theorem cx_dpx : HasDerivAt (fun u => cx u py pz) (hess p0c m px py pz).xx px := by
  have := hasDerivAt_div_sqrt (a := fun u => u) (s := fun u => sq u py pz) (hasDerivAt_id px) (sq_dpx px py pz) hT
  refine this.congr_deriv ?_
  have hr : √(sq px py pz) ≠ 0 := (Real.sqrt_pos.mpr hT).ne'
  simp only [hess_eq]; field_simp; ring

theorem cx_dpy : HasDerivAt (fun u => cx px u pz) (hess p0c m px py pz).xy py := by
  have := hasDerivAt_div_sqrt (a := fun _ => px) (s := fun u => sq px u pz) (hasDerivAt_const py px) (sq_dpy px py pz) hT
  refine this.congr_deriv ?_
  have hr : √(sq px py pz) ≠ 0 := (Real.sqrt_pos.mpr hT).ne'
  simp only [hess_eq]; field_simp; ring

theorem cx_dpz : HasDerivAt (fun u => cx px py u) (hess p0c m px py pz).xz pz := by
  have := hasDerivAt_div_sqrt (a := fun _ => px) (s := fun u => sq px py u) (hasDerivAt_const pz px) (sq_dpz px py pz) hT
  refine this.congr_deriv ?_
  have hr : √(sq px py pz) ≠ 0 := (Real.sqrt_pos.mpr hT).ne'
  simp only [hess_eq]; field_simp; ring

theorem cy_dpx : HasDerivAt (fun u => cy u py pz) (hess p0c m px py pz).xy px := by
  have := hasDerivAt_div_sqrt (a := fun _ => py) (s := fun u => sq u py pz) (hasDerivAt_const px py) (sq_dpx px py pz) hT
  refine this.congr_deriv ?_
  have hr : √(sq px py pz) ≠ 0 := (Real.sqrt_pos.mpr hT).ne'
  simp only [hess_eq]; field_simp; ring

theorem cy_dpy : HasDerivAt (fun u => cy px u pz) (hess p0c m px py pz).yy py := by
  have := hasDerivAt_div_sqrt (a := fun u => u) (s := fun u => sq px u pz) (hasDerivAt_id py) (sq_dpy px py pz) hT
  refine this.congr_deriv ?_
  have hr : √(sq px py pz) ≠ 0 := (Real.sqrt_pos.mpr hT).ne'
  simp only [hess_eq]; field_simp; ring

theorem cy_dpz : HasDerivAt (fun u => cy px py u) (hess p0c m px py pz).yz pz := by
  have := hasDerivAt_div_sqrt (a := fun _ => py) (s := fun u => sq px py u) (hasDerivAt_const pz py) (sq_dpz px py pz) hT
  refine this.congr_deriv ?_
  have hr : √(sq px py pz) ≠ 0 := (Real.sqrt_pos.mpr hT).ne'
  simp only [hess_eq]; field_simp; ring

theorem cz_dpx : HasDerivAt (fun u => cz p0c m u py pz) (hess p0c m px py pz).xz px := by
  have h2 := hasDerivAt_div_sqrt (a := fun _ => 1 + pz) (s := fun u => sq u py pz) (hasDerivAt_const px (1 + pz)) (sq_dpx px py pz) hT
  have := (hasDerivAt_const px ((1 + pz) * √(p0c * p0c + m * m) / √(en p0c m pz))).sub h2
  refine this.congr_deriv ?_
  have hr : √(sq px py pz) ≠ 0 := (Real.sqrt_pos.mpr hT).ne'
  simp only [hess_eq]; field_simp; ring

theorem cz_dpy : HasDerivAt (fun u => cz p0c m px u pz) (hess p0c m px py pz).yz py := by
  have h2 := hasDerivAt_div_sqrt (a := fun _ => 1 + pz) (s := fun u => sq px u pz) (hasDerivAt_const py (1 + pz)) (sq_dpy px py pz) hT
  have := (hasDerivAt_const py ((1 + pz) * √(p0c * p0c + m * m) / √(en p0c m pz))).sub h2
  refine this.congr_deriv ?_
  have hr : √(sq px py pz) ≠ 0 := (Real.sqrt_pos.mpr hT).ne'
  simp only [hess_eq]; field_simp; ring

theorem cz_dpz (hm : 0 < m) : HasDerivAt (fun u => cz p0c m px py u) (hess p0c m px py pz).zz pz := by
  have ha : HasDerivAt (fun u : ℝ => (1 + u) * √(p0c * p0c + m * m)) (√(p0c * p0c + m * m)) pz := by
    simpa using ((hasDerivAt_id pz).const_add 1).mul_const (√(p0c * p0c + m * m))
  have h1 := hasDerivAt_div_sqrt (a := fun u => (1 + u) * √(p0c * p0c + m * m)) (s := fun u => en p0c m u) ha
    (en_dpz p0c m pz) (en_pos p0c m pz hm)
  have hb : HasDerivAt (fun u : ℝ => 1 + u) 1 pz := by simpa using (hasDerivAt_id pz).const_add 1
  have h2 := hasDerivAt_div_sqrt (a := fun u => 1 + u) (s := fun u => sq px py u) hb (sq_dpz px py pz) hT
  refine (h1.sub h2).congr_deriv ?_
  have hr : √(sq px py pz) ≠ 0 := (Real.sqrt_pos.mpr hT).ne'
  have he : √(en p0c m pz) ≠ 0 := (Real.sqrt_pos.mpr (en_pos p0c m pz hm)).ne'
  have hen : en p0c m pz ≠ 0 := (en_pos p0c m pz hm).ne'
  simp only [hess_eq]; field_simp

end grads

/-! ## the Jacobian and its symplecticity -/

/-- coordinates of a Bmad particle in the order `x, px, y, py, z, pz` -/
def coord (p : BP ℝ) : Fin 6 → ℝ := ![p.x, p.px, p.y, p.py, p.z, p.pz]

/-- the particle with coordinate `j` replaced by `t` -/
def setCoord (p : BP ℝ) (j : Fin 6) (t : ℝ) : BP ℝ :=
  match j with
  | 0 => { p with x := t }
  | 1 => { p with px := t }
  | 2 => { p with y := t }
  | 3 => { p with py := t }
  | 4 => { p with z := t }
  | 5 => { p with pz := t }

/-- the canonical symplectic form of Bmad's coordinates -/
def S3 : Matrix (Fin 6) (Fin 6) ℝ :=
  !![0, 1, 0, 0, 0, 0; -1, 0, 0, 0, 0, 0; 0, 0, 0, 1, 0, 0; 0, 0, -1, 0, 0, 0; 0, 0, 0, 0, 0, 1; 0, 0, 0, 0, -1, 0]

/-- a shear `q ↦ q + H p` in interleaved coordinates -/
def shear (h : Hess) (L : ℝ) : Matrix (Fin 6) (Fin 6) ℝ :=
  !![1, L * h.xx, 0, L * h.xy, 0, L * h.xz;
     0, 1, 0, 0, 0, 0;
     0, L * h.xy, 1, L * h.yy, 0, L * h.yz;
     0, 0, 0, 1, 0, 0;
     0, L * h.xz, 0, L * h.yz, 1, L * h.zz;
     0, 0, 0, 0, 0, 1]

/-- a shear with a symmetric gradient is symplectic -/
theorem shear_symplectic (h : Hess) (L : ℝ) : (shear h L).transpose * S3 * shear h L = S3 := by
  ext i j
  fin_cases i <;> fin_cases j <;>
    simp [shear, S3, Matrix.mul_apply, Fin.sum_univ_succ, Matrix.transpose_apply] <;> ring

/-- the Jacobian of the Bmad-X drift kernel at the particle `p` -/
noncomputable def jac (L : ℝ) (p : BP ℝ) (p0c m : ℝ) : Matrix (Fin 6) (Fin 6) ℝ :=
  shear (hess p0c m p.px p.py p.pz) L

/-- the matrix of the theorems is the list the driver prints (row-major), read over ℝ -/
theorem jac_eq_list (L : ℝ) (p : BP ℝ) (p0c m : ℝ) (i j : Fin 6) :
    (driftJacList L p0c m p.px p.py p.pz)[6 * i.val + j.val]? = some (jac L p p0c m i j) := by
  have h10 : (1.0:ℝ) = 1 := by norm_num
  have h00 : (0.0:ℝ) = 0 := by norm_num
  fin_cases i <;> fin_cases j <;> simp [driftJacList, jac, shear, hess, h10, h00]

/-- coordinates of the tracked particle in closed form -/
theorem kernel_coord (L : ℝ) (p : BP ℝ) (p0c m : ℝ) (hP : 0 < 1 + p.pz) (hT : 0 < sq p.px p.py p.pz) (hm : 0 < m) :
    coord (trackADrift L p p0c m) =
      ![p.x + L * cx p.px p.py p.pz, p.px, p.y + L * cy p.px p.py p.pz, p.py,
        p.z + L * cz p0c m p.px p.py p.pz, p.pz] := by
  rw [closed L p p0c m hP hT hm]; rfl

section entries
variable (L : ℝ) (p : BP ℝ) (p0c m : ℝ) (hP : 0 < 1 + p.pz) (hT : 0 < sq p.px p.py p.pz) (hm : 0 < m)
include hP hT

theorem ev_closed (j : Fin 6) : ∀ᶠ t in nhds (coord p j),
    0 < 1 + (setCoord p j t).pz ∧ 0 < sq (setCoord p j t).px (setCoord p j t).py (setCoord p j t).pz := by
  fin_cases j
  · exact Filter.Eventually.of_forall fun t => ⟨hP, hT⟩
  · have := (sq_dpx p.px p.py p.pz).continuousAt.eventually (lt_mem_nhds hT)
    filter_upwards [this] with t ht using ⟨hP, ht⟩
  · exact Filter.Eventually.of_forall fun t => ⟨hP, hT⟩
  · have := (sq_dpy p.px p.py p.pz).continuousAt.eventually (lt_mem_nhds hT)
    filter_upwards [this] with t ht using ⟨hP, ht⟩
  · exact Filter.Eventually.of_forall fun t => ⟨hP, hT⟩
  · have hb : HasDerivAt (fun u : ℝ => 1 + u) 1 p.pz := by simpa using (hasDerivAt_id p.pz).const_add 1
    have h1 := hb.continuousAt.eventually (lt_mem_nhds hP)
    have h2 := (sq_dpz p.px p.py p.pz).continuousAt.eventually (lt_mem_nhds hT)
    filter_upwards [h1, h2] with t ht1 ht2 using ⟨ht1, ht2⟩

include hm
/-- **every entry of the Jacobian**: the partial derivative of output coordinate `i` of the Bmad-X drift kernel with
respect to input coordinate `j`, at the particle `p`, is `jac i j` -/
theorem jacobian_entries (i j : Fin 6) :
    HasDerivAt (fun t => coord (trackADrift L (setCoord p j t) p0c m) i) (jac L p p0c m i j) (coord p j) := by
  have hcl : (fun t => coord (trackADrift L (setCoord p j t) p0c m) i) =ᶠ[nhds (coord p j)]
      (fun t => (![(setCoord p j t).x + L * cx (setCoord p j t).px (setCoord p j t).py (setCoord p j t).pz,
                   (setCoord p j t).px,
                   (setCoord p j t).y + L * cy (setCoord p j t).px (setCoord p j t).py (setCoord p j t).pz,
                   (setCoord p j t).py,
                   (setCoord p j t).z + L * cz p0c m (setCoord p j t).px (setCoord p j t).py (setCoord p j t).pz,
                   (setCoord p j t).pz] : Fin 6 → ℝ) i) := by
    filter_upwards [ev_closed p hP hT j] with t ht
    rw [kernel_coord L _ p0c m ht.1 ht.2 hm]
  refine HasDerivAt.congr_of_eventuallyEq ?_ hcl
  fin_cases i <;> fin_cases j <;> simp [setCoord, coord, jac, shear]
  all_goals first
    | exact hasDerivAt_const _ _
    | exact hasDerivAt_id _
    | exact (cx_dpx p0c m p.px p.py p.pz hT).const_mul L
    | exact (cx_dpy p0c m p.px p.py p.pz hT).const_mul L
    | exact (cx_dpz p0c m p.px p.py p.pz hT).const_mul L
    | exact (cy_dpx p0c m p.px p.py p.pz hT).const_mul L
    | exact (cy_dpy p0c m p.px p.py p.pz hT).const_mul L
    | exact (cy_dpz p0c m p.px p.py p.pz hT).const_mul L
    | exact (cz_dpx p0c m p.px p.py p.pz hT).const_mul L
    | exact (cz_dpy p0c m p.px p.py p.pz hT).const_mul L
    | exact (cz_dpz p0c m p.px p.py p.pz hT hm).const_mul L

omit hP hT hm in
/-- **the Bmad-X drift kernel is symplectic at every transportable point** -/
theorem jacobian_symplectic : (jac L p p0c m).transpose * S3 * jac L p p0c m = S3 :=
  shear_symplectic _ L

end entries

end DriftSympl
