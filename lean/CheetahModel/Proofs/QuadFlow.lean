import CheetahModel.Proofs.BmadxProofs
/-!
# The Bmad-X quadrupole body is an exact flow (C07)

`Quadrupole._track_bmadx` advances a particle by `num_steps` identical steps; each step acts in each transverse
plane by the matrix and the quadratic path-length form of `calculate_quadrupole_coefficients`.  With the
regularisation `eps = 0` (the code uses `eps = 2.2e-16` to keep `sqrt` differentiable at `k1 = 0`; the model keeps it
as a parameter) a step of length `a` followed by a step of length `b` **is** the step of length `a + b` — for either
sign of `k1`, every momentum deviation and every amplitude: the quadrupole body is a genuine flow, so the result does
not depend on `num_steps`.

The proof goes through a sign-agnostic polynomial core: with `C = cx`, `S = sx` one has `C² − k·S² = 1`,
`C(a+b) = C_a C_b + k S_a S_b`, `S(a+b) = S_a C_b + C_a S_b` for `k < 0` (cos / sin) and `k > 0` (cosh / sinh) alike.
-/
open Scalar

namespace QuadFlow

/-- path-length increment of one plane in the variables `(x, P = px / rel_p)` -/
noncomputable def inc (k C S L x P : ℝ) : ℝ := k * (L - C * S) / 4 * (x * x) + (-(k * (S * S)) / 2) * (x * P) + (-(C * S + L) / 4) * (P * P)

/-- polynomial core: the path-length increments of two consecutive pieces add up to the increment of the whole -/
theorem inc_add (k Ca Sa Cb Sb a b x P : ℝ) (h1 : Ca * Ca - k * (Sa * Sa) = 1) (h2 : Cb * Cb - k * (Sb * Sb) = 1) :
    inc k Ca Sa a x P + inc k Cb Sb b (Ca * x + Sa * P) (k * Sa * x + Ca * P)
      = inc k (Ca * Cb + k * (Sa * Sb)) (Sa * Cb + Ca * Sb) (a + b) x P := by
  unfold inc
  linear_combination (-(P * P * b) / 4 + b * k * (x * x) / 4) * h1
    + (Ca * (P * P) * Sa / 4 + Ca * Sa * k * (x * x) / 4 + P * (Sa * Sa) * k * x / 2) * h2

/-- the cos-like and sin-like functions of `calculate_quadrupole_coefficients` at `eps = 0` -/
noncomputable def cx (k L : ℝ) : ℝ := (quadCoef k L 1 0).a11
noncomputable def sx (k L : ℝ) : ℝ := (quadCoef k L 1 0).a12

theorem cx_neg (k L : ℝ) (hk : k < 0) : cx k L = Real.cos (√(-k) * L) := by
  unfold cx quadCoef
  have h1 : (k ≤ 0) := hk.le
  have h2 : ¬ (0 < k) := not_lt.mpr hk.le
  simp [mulMask, h1, h2, abs_of_neg hk]
  norm_num [h1, h2]

theorem cx_pos (k L : ℝ) (hk : 0 < k) : cx k L = Real.cosh (√k * L) := by
  unfold cx quadCoef
  have h1 : ¬ (k ≤ 0) := not_le.mpr hk
  simp [mulMask, h1, hk, abs_of_pos hk]
  norm_num [h1, hk]

theorem sx_neg (k L : ℝ) (hk : k < 0) : sx k L = Real.sin (√(-k) * L) / √(-k) := by
  unfold sx quadCoef
  have h1 : (k ≤ 0) := hk.le
  have h2 : ¬ (0 < k) := not_lt.mpr hk.le
  simp [mulMask, h1, h2, abs_of_neg hk]
  norm_num [h1, h2]

theorem sx_pos (k L : ℝ) (hk : 0 < k) : sx k L = Real.sinh (√k * L) / √k := by
  unfold sx quadCoef
  have h1 : ¬ (k ≤ 0) := not_le.mpr hk
  simp [mulMask, h1, hk, abs_of_pos hk]
  norm_num [h1, hk]


/-- `cx² − k·sx² = 1` for either sign of `k` -/
theorem pyth (k L : ℝ) (hk : k ≠ 0) : cx k L * cx k L - k * (sx k L * sx k L) = 1 := by
  rcases lt_or_gt_of_ne hk with h | h
  · rw [cx_neg k L h, sx_neg k L h]
    have hs : √(-k) ≠ 0 := (Real.sqrt_pos.mpr (by linarith)).ne'
    have hsq : √(-k) * √(-k) = -k := Real.mul_self_sqrt (by linarith)
    have := Real.cos_sq_add_sin_sq (√(-k) * L)
    field_simp
    nlinarith [this, hsq]
  · rw [cx_pos k L h, sx_pos k L h]
    have hs : √k ≠ 0 := (Real.sqrt_pos.mpr h).ne'
    have hsq : √k * √k = k := Real.mul_self_sqrt h.le
    have := Real.cosh_sq (√k * L)
    field_simp
    nlinarith [this, hsq]

/-- addition formulas, sign-agnostic -/
theorem cx_add (k a b : ℝ) (hk : k ≠ 0) : cx k (a + b) = cx k a * cx k b + k * (sx k a * sx k b) := by
  rcases lt_or_gt_of_ne hk with h | h
  · simp only [cx_neg _ _ h, sx_neg _ _ h]
    have hs : √(-k) ≠ 0 := (Real.sqrt_pos.mpr (by linarith)).ne'
    have hsq : √(-k) * √(-k) = -k := Real.mul_self_sqrt (by linarith)
    rw [mul_add, Real.cos_add]
    field_simp
    rw [Real.sq_sqrt (by linarith)]
    ring
  · simp only [cx_pos _ _ h, sx_pos _ _ h]
    have hs : √k ≠ 0 := (Real.sqrt_pos.mpr h).ne'
    have hsq : √k * √k = k := Real.mul_self_sqrt h.le
    rw [mul_add, Real.cosh_add]
    field_simp
    rw [Real.sq_sqrt h.le]
    ring

theorem sx_add (k a b : ℝ) (hk : k ≠ 0) : sx k (a + b) = sx k a * cx k b + cx k a * sx k b := by
  rcases lt_or_gt_of_ne hk with h | h
  · simp only [cx_neg _ _ h, sx_neg _ _ h]
    rw [mul_add, Real.sin_add]
    ring
  · simp only [cx_pos _ _ h, sx_pos _ _ h]
    rw [mul_add, Real.sinh_add]
    ring


/-- the seven coefficients in terms of `cx`, `sx` -/
theorem coef_fields (k L r : ℝ) :
    quadCoef k L r 0 =
      { a11 := cx k L, a12 := sx k L / r, a21 := k * sx k L * r, a22 := cx k L,
        c1 := k * (-(cx k L) * sx k L + L) / 4, c2 := -k * (sx k L * sx k L) / (2 * r),
        c3 := -(cx k L * sx k L + L) / (4 * (r * r)) } := by
  simp only [cx, sx, quadCoef, div_one]
  congr 1 <;> norm_num

/-- action of one plane's coefficients on `(x, px, accumulated path length)` -/
noncomputable def planeAct (q : QCoef ℝ) (v : ℝ × ℝ × ℝ) : ℝ × ℝ × ℝ :=
  (q.a11 * v.1 + q.a12 * v.2.1, q.a21 * v.1 + q.a22 * v.2.1,
   v.2.2 + q.c1 * (v.1 * v.1) + q.c2 * v.1 * v.2.1 + q.c3 * (v.2.1 * v.2.1))

/-- **one plane of the quadrupole body is a flow** (either sign of `k`, any momentum factor `r ≠ 0`) -/
theorem planeAct_add (k a b r : ℝ) (hk : k ≠ 0) (hr : r ≠ 0) (v : ℝ × ℝ × ℝ) :
    planeAct (quadCoef k b r 0) (planeAct (quadCoef k a r 0) v) = planeAct (quadCoef k (a + b) r 0) v := by
  obtain ⟨x, px, z⟩ := v
  simp only [coef_fields, planeAct]
  rw [cx_add k a b hk, sx_add k a b hk]
  have h1 := pyth k a hk
  have h2 := pyth k b hk
  set Ca := cx k a
  set Sa := sx k a
  set Cb := cx k b
  set Sb := sx k b
  have hz := inc_add k Ca Sa Cb Sb a b x (px / r) h1 h2
  unfold inc at hz
  refine Prod.ext ?_ (Prod.ext ?_ ?_)
  · simp only; field_simp; ring
  · simp only; field_simp; ring
  · simp only
    have e : ∀ (C S L X PX : ℝ), k * (-C * S + L) / 4 * (X * X) + -k * (S * S) / (2 * r) * X * PX
          + -(C * S + L) / (4 * (r * r)) * (PX * PX)
        = k * (L - C * S) / 4 * (X * X) + -(k * (S * S)) / 2 * (X * (PX / r)) + -(C * S + L) / 4 * (PX / r * (PX / r)) := by
      intro C S L X PX; field_simp; ring
    have e1 := e Ca Sa a x px
    have e2 := e Cb Sb b (Ca * x + Sa / r * px) (k * Sa * r * x + Ca * px)
    have e3 := e (Ca * Cb + k * (Sa * Sb)) (Sa * Cb + Ca * Sb) (a + b) x px
    have p1 : Ca * x + Sa / r * px = Ca * x + Sa * (px / r) := by ring
    have p2 : (k * Sa * r * x + Ca * px) / r = k * Sa * x + Ca * (px / r) := by field_simp
    rw [p2, p1] at e2
    linear_combination e1 + e2 - e3 + hz


/-- the low-energy path-length correction is proportional to the step length -/
theorem lowEnergyZ_add (pz p0c mc2 a b : ℝ) :
    lowEnergyZ pz p0c mc2 a + lowEnergyZ pz p0c mc2 b = lowEnergyZ pz p0c mc2 (a + b) := by
  unfold lowEnergyZ mulMask
  simp only
  split_ifs <;> norm_num <;> ring

/-- a step of the quadrupole body through the plane actions -/
theorem step_eq (L k1 s : ℝ) (p : BP ℝ) (p0c mc2 : ℝ) :
    bmadxQuadStep L k1 s 0 p p0c mc2 =
      let r := 1 + p.pz
      let tx := planeAct (quadCoef (-(k1 / r)) s r 0) (p.x, p.px, 0)
      let ty := planeAct (quadCoef (k1 / r) s r 0) (p.y, p.py, 0)
      { x := tx.1, px := tx.2.1, y := ty.1, py := ty.2.1,
        z := p.z + tx.2.2 + ty.2.2 + lowEnergyZ p.pz p0c mc2 s, pz := p.pz } := by
  unfold bmadxQuadStep planeAct
  have h10 : (1.0 : ℝ) = 1 := by norm_num
  simp only [h10]
  congr 1
  ring

/-- **C07**: tracking through two consecutive pieces of a Bmad-X quadrupole body equals tracking through the whole
(`eps = 0`, `k1 ≠ 0`, positive momentum `1 + pz`): all six coordinates, either sign of `k1` -/
theorem bmadxQuadStep_add (L k1 a b : ℝ) (p : BP ℝ) (p0c mc2 : ℝ) (hk : k1 ≠ 0) (hr : 0 < 1 + p.pz) :
    bmadxQuadStep L k1 b 0 (bmadxQuadStep L k1 a 0 p p0c mc2) p0c mc2 = bmadxQuadStep L k1 (a + b) 0 p p0c mc2 := by
  have hrne : (1 + p.pz) ≠ 0 := hr.ne'
  have hkr : k1 / (1 + p.pz) ≠ 0 := div_ne_zero hk hrne
  have hkr' : -(k1 / (1 + p.pz)) ≠ 0 := neg_ne_zero.mpr hkr
  rw [step_eq L k1 a, step_eq L k1 (a + b)]
  rw [step_eq L k1 b]
  simp only
  have ex := planeAct_add (-(k1 / (1 + p.pz))) a b (1 + p.pz) hkr' hrne (p.x, p.px, 0)
  have ey := planeAct_add (k1 / (1 + p.pz)) a b (1 + p.pz) hkr hrne (p.y, p.py, 0)
  -- the second step starts from the (x, px) of the first one with a fresh path-length accumulator
  have shift : ∀ (q : QCoef ℝ) (u v z : ℝ), planeAct q (u, v, z) = ((planeAct q (u, v, 0)).1, (planeAct q (u, v, 0)).2.1,
      z + (planeAct q (u, v, 0)).2.2) := by
    intro q u v z; simp [planeAct]; ring
  set A := planeAct (quadCoef (-(k1 / (1 + p.pz))) a (1 + p.pz) 0) (p.x, p.px, 0) with hA
  set B := planeAct (quadCoef (k1 / (1 + p.pz)) a (1 + p.pz) 0) (p.y, p.py, 0) with hB
  have ex' := ex
  have ey' := ey
  rw [show A = (A.1, A.2.1, A.2.2) from rfl, shift] at ex'
  rw [show B = (B.1, B.2.1, B.2.2) from rfl, shift] at ey'
  have ex1 := congrArg Prod.fst ex'
  have ex2 := congrArg (fun t => t.2.1) ex'
  have ex3 := congrArg (fun t => t.2.2) ex'
  have ey1 := congrArg Prod.fst ey'
  have ey2 := congrArg (fun t => t.2.1) ey'
  have ey3 := congrArg (fun t => t.2.2) ey'
  simp only at ex1 ex2 ex3 ey1 ey2 ey3
  have hl := lowEnergyZ_add p.pz p0c mc2 a b
  rw [BP.mk.injEq]
  refine ⟨ex1, ex2, ey1, ey2, ?_, rfl⟩
  linarith [ex3, ey3, hl]


theorem step_pz (L k1 s eps : ℝ) (p : BP ℝ) (p0c mc2 : ℝ) : (bmadxQuadStep L k1 s eps p p0c mc2).pz = p.pz := rfl

/-- `n + 1` equal steps are one step of the total length -/
theorem iter_steps (L k1 s : ℝ) (p0c mc2 : ℝ) (hk : k1 ≠ 0) :
    ∀ (n : ℕ) (p : BP ℝ), 0 < 1 + p.pz →
      iter (fun q => bmadxQuadStep L k1 s 0 q p0c mc2) (n + 1) p = bmadxQuadStep L k1 (((n : ℝ) + 1) * s) 0 p p0c mc2
  | 0, p, _ => by simp [iter]
  | n + 1, p, hp => by
      have ih := iter_steps L k1 s p0c mc2 hk n (bmadxQuadStep L k1 s 0 p p0c mc2) (by rw [step_pz]; exact hp)
      show iter _ (n + 1) (bmadxQuadStep L k1 s 0 p p0c mc2) = _
      rw [ih, bmadxQuadStep_add L k1 s _ p p0c mc2 hk hp]
      congr 1
      push_cast
      ring

/-- **C07**: the result of the Bmad-X quadrupole does not depend on `num_steps` (model at `eps = 0`, `k1 ≠ 0`) -/
theorem bmadxQuad_num_steps (L k1 mx my tilt : ℝ) (n : ℕ) (v : Vec7 ℝ) (E0 mc2 : ℝ) (hk : k1 ≠ 0)
    (hp : 0 < 1 + (vecToBP v E0 mc2).1.pz) :
    bmadxQuad L k1 mx my tilt (n + 1) 0 v E0 mc2 = bmadxQuad L k1 mx my tilt 1 0 v E0 mc2 := by
  unfold bmadxQuad
  simp only
  have hp' : 0 < 1 + (offsetSet mx my tilt (vecToBP v E0 mc2).1).pz := hp
  rw [iter_steps L k1 _ _ mc2 hk n _ hp', iter_steps L k1 _ _ mc2 hk 0 _ hp']
  have e1 : ((n : ℝ) + 1) * (L / Scalar.ofNat (n + 1)) = L := by
    simp only [Scalar.real_ofNat]; push_cast; field_simp
  have e2 : (((0 : ℕ) : ℝ) + 1) * (L / Scalar.ofNat 1) = L := by
    simp only [Scalar.real_ofNat]; push_cast; ring
  rw [e1, e2]

end QuadFlow
