import CheetahModel.Proofs.DualProofs
import Mathlib.Analysis.SpecialFunctions.Trigonometric.ArctanDeriv
import Mathlib.Analysis.SpecialFunctions.Trigonometric.InverseDeriv
import Mathlib.Analysis.SpecialFunctions.ExpDeriv
import Mathlib.Analysis.SpecialFunctions.Log.Deriv
/-!
# Soundness of forward-mode differentiation over the model's scalar operations (C05)

`Tracks a f x`: the dual number `a` carries the value `f x` and the derivative `f'(x)`.  Every differentiable operation of
`Scalar (Dual ℝ)` preserves `Tracks` at every point where the real operation is differentiable (side conditions: a
non-zero denominator, a positive radicand, a non-zero argument of `abs` / `log`, …).  Hence: the tangent that the dual
evaluation of *any* model expression produces is the true derivative, as long as evaluation stays away from those
points — and comparisons (`ltb`, `leb`, `eqb`) only look at values, so the executed branch is the one the real
evaluation takes.  The points excluded by the side conditions are exactly where C05's recorded findings live (0/0
branches under `torch.where`, `sqrt` at 0, the `k1 == 0` overwrite).
-/
open Scalar

/-- `a` is the (value, derivative) pair of `f` at `x` -/
def Tracks (a : Dual ℝ) (f : ℝ → ℝ) (x : ℝ) : Prop := a.v = f x ∧ HasDerivAt f a.d x

namespace Tracks
variable {a b : Dual ℝ} {f g : ℝ → ℝ} {x : ℝ}

theorem var (x : ℝ) : Tracks (Dual.var x) (fun t => t) x := by
  refine ⟨rfl, ?_⟩
  have : (Dual.var x).d = 1 := by simp; norm_num
  rw [this]; exact hasDerivAt_id x

theorem const (c x : ℝ) : Tracks (Dual.const c) (fun _ => c) x := by
  refine ⟨rfl, ?_⟩
  have : (Dual.const c).d = 0 := by simp; norm_num
  rw [this]; exact hasDerivAt_const x c

theorem lit (m : ℕ) (s : Bool) (e : ℕ) (x : ℝ) :
    Tracks (OfScientific.ofScientific m s e : Dual ℝ) (fun _ => (OfScientific.ofScientific m s e : ℝ)) x := by
  refine ⟨rfl, ?_⟩
  have : (OfScientific.ofScientific m s e : Dual ℝ).d = 0 := by rw [Dual.lit_d]; norm_num
  rw [this]; exact hasDerivAt_const x _

theorem add (ha : Tracks a f x) (hb : Tracks b g x) : Tracks (a + b) (fun t => f t + g t) x :=
  ⟨by simp [ha.1, hb.1], ha.2.add hb.2⟩

theorem sub (ha : Tracks a f x) (hb : Tracks b g x) : Tracks (a - b) (fun t => f t - g t) x :=
  ⟨by simp [ha.1, hb.1], ha.2.sub hb.2⟩

theorem neg (ha : Tracks a f x) : Tracks (-a) (fun t => -f t) x :=
  ⟨by simp [ha.1], ha.2.neg⟩

theorem mul (ha : Tracks a f x) (hb : Tracks b g x) : Tracks (a * b) (fun t => f t * g t) x := by
  refine ⟨by simp [ha.1, hb.1], ?_⟩
  have := ha.2.mul hb.2
  rw [Dual.mul_d, ha.1, hb.1]
  exact this

theorem div (ha : Tracks a f x) (hb : Tracks b g x) (h0 : g x ≠ 0) : Tracks (a / b) (fun t => f t / g t) x := by
  refine ⟨by simp [ha.1, hb.1], ?_⟩
  have := ha.2.div hb.2 h0
  rw [Dual.div_d, ha.1, hb.1]
  refine this.congr_deriv ?_
  rw [pow_two]

theorem sin (ha : Tracks a f x) : Tracks (Scalar.sin a) (fun t => Real.sin (f t)) x := by
  refine ⟨by simp [ha.1], ?_⟩
  rw [Dual.sin_d, ha.1]; exact ha.2.sin

theorem cos (ha : Tracks a f x) : Tracks (Scalar.cos a) (fun t => Real.cos (f t)) x := by
  refine ⟨by simp [ha.1], ?_⟩
  rw [Dual.cos_d, ha.1]; exact ha.2.cos

theorem sinh (ha : Tracks a f x) : Tracks (Scalar.sinh a) (fun t => Real.sinh (f t)) x := by
  refine ⟨by show _ = _; simp only []; rw [← ha.1]; rfl, ?_⟩
  have : (Scalar.sinh a).d = Real.cosh a.v * a.d := rfl
  rw [this, ha.1]; exact ha.2.sinh

theorem cosh (ha : Tracks a f x) : Tracks (Scalar.cosh a) (fun t => Real.cosh (f t)) x := by
  refine ⟨by show _ = _; simp only []; rw [← ha.1]; rfl, ?_⟩
  have : (Scalar.cosh a).d = Real.sinh a.v * a.d := rfl
  rw [this, ha.1]; exact ha.2.cosh

theorem exp (ha : Tracks a f x) : Tracks (Scalar.exp a) (fun t => Real.exp (f t)) x := by
  refine ⟨by show _ = _; simp only []; rw [← ha.1]; rfl, ?_⟩
  have : (Scalar.exp a).d = Real.exp a.v * a.d := rfl
  rw [this, ha.1]; exact ha.2.exp

theorem sqrt (ha : Tracks a f x) (h0 : f x ≠ 0) : Tracks (Scalar.sqrt a) (fun t => √(f t)) x := by
  refine ⟨by simp [ha.1], ?_⟩
  rw [Dual.sqrt_d, ha.1]
  refine (ha.2.sqrt h0).congr_deriv ?_
  norm_num

theorem log (ha : Tracks a f x) (h0 : f x ≠ 0) : Tracks (Scalar.log a) (fun t => Real.log (f t)) x := by
  refine ⟨by show _ = _; simp only []; rw [← ha.1]; rfl, ?_⟩
  have : (Scalar.log a).d = a.d / a.v := rfl
  rw [this, ha.1]; exact ha.2.log h0

theorem atan (ha : Tracks a f x) : Tracks (Scalar.atan a) (fun t => Real.arctan (f t)) x := by
  refine ⟨by show _ = _; simp only []; rw [← ha.1]; rfl, ?_⟩
  have : (Scalar.atan a).d = a.d / ((1.0:ℝ) + a.v * a.v) := rfl
  rw [this, ha.1]
  refine ha.2.arctan.congr_deriv ?_
  norm_num; ring

theorem abs (ha : Tracks a f x) (h0 : f x ≠ 0) : Tracks (Scalar.abs a) (fun t => |f t|) x := by
  refine ⟨by show _ = _; simp only []; rw [← ha.1]; rfl, ?_⟩
  have hd : (Scalar.abs a).d = if Scalar.ltb a.v (0.0:ℝ) then -a.d else a.d := rfl
  rw [hd, ha.1]
  rcases lt_or_gt_of_ne h0 with h | h
  · have : Scalar.ltb (f x) (0.0:ℝ) = true := by rw [Scalar.real_ltb]; norm_num; exact h
    rw [this, if_pos rfl]
    have e : (fun t => |f t|) =ᶠ[nhds x] fun t => -f t := by
      have : ∀ᶠ t in nhds x, f t < 0 := ha.2.continuousAt.eventually (gt_mem_nhds h)
      filter_upwards [this] with t ht using abs_of_neg ht
    exact (ha.2.neg).congr_of_eventuallyEq e
  · have : Scalar.ltb (f x) (0.0:ℝ) = false := by rw [Scalar.real_ltb_false]; norm_num; exact h.le
    rw [this]
    have e : (fun t => |f t|) =ᶠ[nhds x] fun t => f t := by
      have : ∀ᶠ t in nhds x, 0 < f t := ha.2.continuousAt.eventually (lt_mem_nhds h)
      filter_upwards [this] with t ht using abs_of_pos ht
    exact ha.2.congr_of_eventuallyEq e

end Tracks

/-! ## an application: the gradient of the drift's R56 with respect to the beam energy -/

/-- the smooth branch of `driftR56` as a function of the energy -/
noncomputable def r56Smooth (L m : ℝ) (e : ℝ) : ℝ :=
  -L / (√(1.0 - 1.0 / (e / m * (e / m))) * √(1.0 - 1.0 / (e / m * (e / m)))) * (1.0 / (e / m * (e / m)))

theorem driftR56_eq_smooth (L m e : ℝ) (he : e / m ≠ 0) : driftR56 L e m = r56Smooth L m e := by
  have hb : Scalar.eqb (e / m) (0.0:ℝ) = false := by
    have z : (0.0:ℝ) = 0 := by norm_num
    rw [Scalar.real_eqb_false, z]; exact he
  unfold driftR56 relFactors r56Smooth
  simp only [hb]
  rfl

/-- **C05**: forward-mode differentiation of the model's `driftR56` w.r.t. the beam energy returns the value and the true
derivative, for every energy above the rest energy (proved compositionally from the soundness lemmas) -/
theorem driftR56_energy_gradient (L E m : ℝ) (hm : 0 < m) (hE : m < E) :
    Tracks (driftR56 (Dual.const L) (Dual.var E) (Dual.const m)) (fun e => driftR56 L e m) E := by
  have hg : E / m ≠ 0 := (div_pos (by linarith) hm).ne'
  have hg1 : 1 < E / m := by rw [lt_div_iff₀ hm]; linarith
  have hgg : E / m * (E / m) ≠ 0 := mul_ne_zero hg hg
  have hlt : 1.0 / (E / m * (E / m)) < (1:ℝ) := by
    have : (1:ℝ) < E / m * (E / m) := by nlinarith
    have h10 : (1.0:ℝ) = 1 := by norm_num
    rw [h10, div_lt_one (by positivity)]; exact this
  have hrad : (1.0:ℝ) - 1.0 / (E / m * (E / m)) ≠ 0 := by
    have h10 : (1.0:ℝ) = 1 := by norm_num
    rw [h10] at hlt ⊢; linarith
  have hs : √((1.0:ℝ) - 1.0 / (E / m * (E / m))) ≠ 0 := by
    have h10 : (1.0:ℝ) = 1 := by norm_num
    have : 0 < (1.0:ℝ) - 1.0 / (E / m * (E / m)) := by rw [h10] at hlt ⊢; linarith
    exact (Real.sqrt_pos.mpr this).ne'
  -- the dual evaluation, operation by operation
  have tg := (Tracks.var E).div (Tracks.const m E) hm.ne'
  have tgg := tg.mul tg
  have tig := (Tracks.lit 10 true 1 E).div tgg hgg
  have trad := (Tracks.lit 10 true 1 E).sub tig
  have tb := trad.sqrt hrad
  have tbb := tb.mul tb
  have tnum := (Tracks.const L E).neg
  have tq := (tnum.div tbb (mul_ne_zero hs hs)).mul tig
  -- the dual expression is the one just built (the guard `gamma == 0` looks at the value only)
  have hb : Scalar.eqb ((Dual.var E / Dual.const m : Dual ℝ)) (0.0 : Dual ℝ) = false := by
    have z : (0.0:ℝ) = 0 := by norm_num
    rw [Dual.eqb_eq, Dual.div_v, Dual.var_v, Dual.const_v, Dual.lit_v, Scalar.real_eqb_false, z]; exact hg
  have hd : driftR56 (Dual.const L) (Dual.var E) (Dual.const m) =
      -Dual.const L / (Scalar.sqrt ((1.0 : Dual ℝ) - 1.0 / (Dual.var E / Dual.const m * (Dual.var E / Dual.const m)))
        * Scalar.sqrt ((1.0 : Dual ℝ) - 1.0 / (Dual.var E / Dual.const m * (Dual.var E / Dual.const m))))
        * ((1.0 : Dual ℝ) / (Dual.var E / Dual.const m * (Dual.var E / Dual.const m))) := by
    unfold driftR56 relFactors
    simp only [hb]
    rfl
  rw [hd]
  refine ⟨?_, ?_⟩
  · rw [tq.1]; show _ = driftR56 L E m; rw [driftR56_eq_smooth L m E hg]; rfl
  · -- near E the function is its smooth branch
    have ev : (fun e => driftR56 L e m) =ᶠ[nhds E] r56Smooth L m := by
      have : ∀ᶠ e in nhds E, e / m ≠ 0 :=
        (continuousAt_id.div_const m).eventually_ne hg
      filter_upwards [this] with e he using driftR56_eq_smooth L m e he
    exact tq.2.congr_of_eventuallyEq ev
