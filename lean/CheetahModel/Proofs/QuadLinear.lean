import CheetahModel.Proofs.QuadFlow
import CheetahModel.Proofs.BaseMap
import CheetahModel.Proofs.DualSound
/-!
# On-momentum particles: the Bmad-X quadrupole acts transversally exactly like the linear map (C07)

For a particle on the design momentum (`δ = 0`) the Bmad-X quadrupole (`eps = 0`, aligned, any `num_steps`) moves
`(x, px, y, py)` exactly by the transverse block of `Quadrupole.transfer_map` and keeps `δ = 0` — for every amplitude,
either sign of `k1`.  In particular the transverse Jacobian at the design orbit is the linear map's.
-/
open Scalar

namespace QuadLinear
open QuadFlow

/-- the Bmad-X focusing functions are the linear map's `cs` functions of the opposite-sign argument -/
theorem cx_cs (k s : ℝ) (hk : k ≠ 0) : cx k s = (cs (-k) s).c ∧ sx k s = (cs (-k) s).s := by
  rcases lt_or_gt_of_ne hk with h | h
  · rw [cx_neg k s h, sx_neg k s h, cs_pos (-k) s (by linarith)]
    exact ⟨rfl, rfl⟩
  · rw [cx_pos k s h, sx_pos k s h, cs_nonpos (-k) s (by linarith)]
    simp

/-- one on-momentum step of the quadrupole body -/
theorem step_onmomentum (L k1 s : ℝ) (p : BP ℝ) (p0c mc2 : ℝ) (hk : k1 ≠ 0) (hpz : p.pz = 0) :
    (bmadxQuadStep L k1 s 0 p p0c mc2).x = (cs k1 s).c * p.x + (cs k1 s).s * p.px ∧
    (bmadxQuadStep L k1 s 0 p p0c mc2).px = -k1 * (cs k1 s).s * p.x + (cs k1 s).c * p.px ∧
    (bmadxQuadStep L k1 s 0 p p0c mc2).y = (cs (-k1) s).c * p.y + (cs (-k1) s).s * p.py ∧
    (bmadxQuadStep L k1 s 0 p p0c mc2).py = k1 * (cs (-k1) s).s * p.y + (cs (-k1) s).c * p.py ∧
    (bmadxQuadStep L k1 s 0 p p0c mc2).pz = 0 := by
  have hx := cx_cs (-k1) s (neg_ne_zero.mpr hk)
  have hy := cx_cs k1 s hk
  rw [neg_neg] at hx
  rw [step_eq]
  simp only [hpz, add_zero, div_one, coef_fields, planeAct, hx.1, hx.2, hy.1, hy.2]
  refine ⟨?_, ?_, ?_, ?_, ?_⟩
  all_goals first | trivial | ring

/-- a particle with `δ = 0` has `pz = 0` -/
theorem pz_onmomentum (tau E0 m : ℝ) (hm : 0 < m) (hE : m < E0) : (toBmad tau 0 E0 m).pz = 0 := by
  have hp : 0 < E0 * E0 - m * m := by nlinarith
  have hs : √(E0 * E0 - m * m) ≠ 0 := (Real.sqrt_pos.mpr hp).ne'
  rw [toBmad_eq]
  simp [hs]

/-- **C07**: for an on-momentum particle the Bmad-X quadrupole (aligned, `eps = 0`, any `num_steps ≥ 1`) gives exactly
the transverse coordinates of the linear transfer map, and keeps `δ = 0` -/
theorem quad_onmomentum (L k1 : ℝ) (n : ℕ) (x px y py tau E0 m : ℝ) (hm : 0 < m) (hE : m < E0) (hk : k1 ≠ 0) :
    let v : Vec7 ℝ := ⟨x, px, y, py, tau, 0, 1⟩
    let out := (bmadxQuad L k1 0 0 0 (n + 1) 0 v E0 m).1
    let lin := (quadMap L k1 0 0 0 E0 m).mulVec v
    out.a0 = lin.a0 ∧ out.a1 = lin.a1 ∧ out.a2 = lin.a2 ∧ out.a3 = lin.a3 ∧ out.a5 = 0 := by
  intro v out lin
  have hpz : (vecToBP v E0 m).1.pz = 0 := pz_onmomentum tau E0 m hm hE
  have hnum := bmadxQuad_num_steps L k1 0 0 0 n v E0 m hk (by rw [hpz]; norm_num)
  have hout : out = (bmadxQuad L k1 0 0 0 1 0 v E0 m).1 := by simp only [out, hnum]
  -- the linear side
  have hg : guardK1 k1 = k1 := by unfold guardK1; simp [hk]
  obtain ⟨f1, f2, f3, f4, f5, f6, f7, f8, f9⟩ := baseE_fields L k1 0 E0 m
  have e00 : Scalar.eqb (0:ℝ) (0.0:ℝ) = true := by rw [Scalar.real_eqb]; norm_num
  have h00 : (0.0:ℝ) = 0 := by norm_num
  have h10 : (1.0:ℝ) = 1 := by norm_num
  have hlin : lin.a0 = (cs k1 L).c * x + (cs k1 L).s * px ∧ lin.a1 = -k1 * (cs k1 L).s * x + (cs k1 L).c * px ∧
      lin.a2 = (cs (-k1) L).c * y + (cs (-k1) L).s * py ∧ lin.a3 = k1 * (cs (-k1) L).s * y + (cs (-k1) L).c * py := by
    simp only [lin, v, quadMap, baseR, baseR0, baseRof, Mat7.mulVec, Mat7.dot, Mat7.ofRows, row7]
    rw [h00] at *
    simp only [Scalar.real_eqb, Bool.and_eq_true, and_self, if_true, f1, f2, f3, f4, f5, f6, f7, f8, f9, hg, mul_zero,
      zero_mul, add_zero, zero_div, neg_neg]
    refine ⟨?_, ?_, ?_, ?_⟩
    all_goals first | trivial | ring
  -- the Bmad-X side: one step of length L on the on-momentum particle
  set p0 := (vecToBP v E0 m).1 with hp0
  have hoff : offsetSet (0:ℝ) 0 0 p0 = p0 := by
    simp [offsetSet, Scalar.sin, Scalar.cos]
  obtain ⟨s1, s2, s3, s4, s5⟩ := step_onmomentum L k1 L p0 (vecToBP v E0 m).2 m hk hpz
  have hone : (L / Scalar.ofNat 1 : ℝ) = L := by simp [Scalar.real_ofNat]
  have hb : (bmadxQuad L k1 0 0 0 1 0 v E0 m).1 =
      (bpToVec (offsetUnset (0:ℝ) 0 0 (bmadxQuadStep L k1 L 0 p0 (vecToBP v E0 m).2 m)) (vecToBP v E0 m).2 m).1 := by
    unfold bmadxQuad
    simp only [iter, hone, hoff, ← hp0]
  rw [hout, hb]
  obtain ⟨l0, l1, l2, l3⟩ := hlin
  rw [l0, l1, l2, l3]
  have hpx : p0.x = x ∧ p0.px = px ∧ p0.y = y ∧ p0.py = py := ⟨rfl, rfl, rfl, rfl⟩
  simp only [bpToVec, offsetUnset, Scalar.sin, Scalar.cos, Real.sin_zero, Real.cos_zero, mul_one, mul_zero, sub_zero,
    add_zero, zero_add, s1, s2, s3, s4, s5, hpx.1, hpx.2.1, hpx.2.2.1, hpx.2.2.2, toCheetah_eq]
  refine ⟨trivial, trivial, trivial, trivial, ?_⟩
  simp [h10]

/-- derivative of an affine function, in the shape used below -/
theorem hasDerivAt_affine (c d x : ℝ) : HasDerivAt (fun t => c * t + d) c x := by
  simpa using ((hasDerivAt_id x).const_mul c).add_const d

section Jacobian
variable (L k1 : ℝ) (n : ℕ) (x px y py tau E0 m : ℝ)

/-- **transverse Jacobian = linear map**, at every on-momentum point: `∂x'/∂x = R₀₀` -/
theorem dx_dx (hm : 0 < m) (hE : m < E0) (hk : k1 ≠ 0) :
    HasDerivAt (fun t => (bmadxQuad L k1 0 0 0 (n + 1) 0 ⟨t, px, y, py, tau, 0, 1⟩ E0 m).1.a0)
      (quadMap L k1 0 0 0 E0 m).r0.a0 x := by
  have h : (fun t => (bmadxQuad L k1 0 0 0 (n + 1) 0 ⟨t, px, y, py, tau, 0, 1⟩ E0 m).1.a0) =
      fun t => (quadMap L k1 0 0 0 E0 m).r0.a0 * t + ((quadMap L k1 0 0 0 E0 m).r0.a1 * px +
        (quadMap L k1 0 0 0 E0 m).r0.a2 * y + (quadMap L k1 0 0 0 E0 m).r0.a3 * py +
        (quadMap L k1 0 0 0 E0 m).r0.a4 * tau + (quadMap L k1 0 0 0 E0 m).r0.a5 * 0 + (quadMap L k1 0 0 0 E0 m).r0.a6 * 1) := by
    funext t
    rw [(quad_onmomentum L k1 n t px y py tau E0 m hm hE hk).1]
    simp only [Mat7.mulVec, Mat7.dot]; ring
  rw [h]; exact hasDerivAt_affine _ _ _

/-- `∂x'/∂px = R₀₁` -/
theorem dx_dpx (hm : 0 < m) (hE : m < E0) (hk : k1 ≠ 0) :
    HasDerivAt (fun t => (bmadxQuad L k1 0 0 0 (n + 1) 0 ⟨x, t, y, py, tau, 0, 1⟩ E0 m).1.a0)
      (quadMap L k1 0 0 0 E0 m).r0.a1 px := by
  have h : (fun t => (bmadxQuad L k1 0 0 0 (n + 1) 0 ⟨x, t, y, py, tau, 0, 1⟩ E0 m).1.a0) =
      fun t => (quadMap L k1 0 0 0 E0 m).r0.a1 * t + ((quadMap L k1 0 0 0 E0 m).r0.a0 * x +
        (quadMap L k1 0 0 0 E0 m).r0.a2 * y + (quadMap L k1 0 0 0 E0 m).r0.a3 * py +
        (quadMap L k1 0 0 0 E0 m).r0.a4 * tau + (quadMap L k1 0 0 0 E0 m).r0.a5 * 0 + (quadMap L k1 0 0 0 E0 m).r0.a6 * 1) := by
    funext t
    rw [(quad_onmomentum L k1 n x t y py tau E0 m hm hE hk).1]
    simp only [Mat7.mulVec, Mat7.dot]; ring
  rw [h]; exact hasDerivAt_affine _ _ _

/-- `∂px'/∂x = R₁₀` (the focusing term `−k1·s`) -/
theorem dpx_dx (hm : 0 < m) (hE : m < E0) (hk : k1 ≠ 0) :
    HasDerivAt (fun t => (bmadxQuad L k1 0 0 0 (n + 1) 0 ⟨t, px, y, py, tau, 0, 1⟩ E0 m).1.a1)
      (quadMap L k1 0 0 0 E0 m).r1.a0 x := by
  have h : (fun t => (bmadxQuad L k1 0 0 0 (n + 1) 0 ⟨t, px, y, py, tau, 0, 1⟩ E0 m).1.a1) =
      fun t => (quadMap L k1 0 0 0 E0 m).r1.a0 * t + ((quadMap L k1 0 0 0 E0 m).r1.a1 * px +
        (quadMap L k1 0 0 0 E0 m).r1.a2 * y + (quadMap L k1 0 0 0 E0 m).r1.a3 * py +
        (quadMap L k1 0 0 0 E0 m).r1.a4 * tau + (quadMap L k1 0 0 0 E0 m).r1.a5 * 0 + (quadMap L k1 0 0 0 E0 m).r1.a6 * 1) := by
    funext t
    rw [(quad_onmomentum L k1 n t px y py tau E0 m hm hE hk).2.1]
    simp only [Mat7.mulVec, Mat7.dot]; ring
  rw [h]; exact hasDerivAt_affine _ _ _

/-- `∂py'/∂y = R₃₂` (defocusing plane) -/
theorem dpy_dy (hm : 0 < m) (hE : m < E0) (hk : k1 ≠ 0) :
    HasDerivAt (fun t => (bmadxQuad L k1 0 0 0 (n + 1) 0 ⟨x, px, t, py, tau, 0, 1⟩ E0 m).1.a3)
      (quadMap L k1 0 0 0 E0 m).r3.a2 y := by
  have h : (fun t => (bmadxQuad L k1 0 0 0 (n + 1) 0 ⟨x, px, t, py, tau, 0, 1⟩ E0 m).1.a3) =
      fun t => (quadMap L k1 0 0 0 E0 m).r3.a2 * t + ((quadMap L k1 0 0 0 E0 m).r3.a0 * x +
        (quadMap L k1 0 0 0 E0 m).r3.a1 * px + (quadMap L k1 0 0 0 E0 m).r3.a3 * py +
        (quadMap L k1 0 0 0 E0 m).r3.a4 * tau + (quadMap L k1 0 0 0 E0 m).r3.a5 * 0 + (quadMap L k1 0 0 0 E0 m).r3.a6 * 1) := by
    funext t
    rw [(quad_onmomentum L k1 n x px t py tau E0 m hm hE hk).2.2.2.1]
    simp only [Mat7.mulVec, Mat7.dot]; ring
  rw [h]; exact hasDerivAt_affine _ _ _

end Jacobian

end QuadLinear
