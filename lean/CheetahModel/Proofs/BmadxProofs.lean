import CheetahModel.Proofs.RealInst
import CheetahModel.Bmadx
import CheetahModel.Beam
import Mathlib.Tactic.FieldSimp
import Mathlib.Tactic.Linarith
import Mathlib.Tactic.Ring
import Mathlib.Tactic.NormNum
import Mathlib.Tactic.Positivity
/-!
# Coordinate conversions and Bmad-X drift kernels at ℝ (C18, C07, C09)
-/
open Scalar

theorem toBmad_eq (tau delta E0 m : ℝ) :
    toBmad tau delta E0 m =
      ⟨-(√((E0 + delta * √(E0 * E0 - m * m)) * (E0 + delta * √(E0 * E0 - m * m)) - m * m)
          / (E0 + delta * √(E0 * E0 - m * m))) * tau,
       (√((E0 + delta * √(E0 * E0 - m * m)) * (E0 + delta * √(E0 * E0 - m * m)) - m * m) - √(E0 * E0 - m * m))
          / √(E0 * E0 - m * m),
       √(E0 * E0 - m * m)⟩ := rfl

theorem toCheetah_eq (z pz p0c m : ℝ) :
    toCheetah z pz p0c m =
      ⟨-z / (((1.0:ℝ) + pz) * p0c / √(((1.0:ℝ) + pz) * p0c * (((1.0:ℝ) + pz) * p0c) + m * m)),
       (√(((1.0:ℝ) + pz) * p0c * (((1.0:ℝ) + pz) * p0c) + m * m) - √(p0c * p0c + m * m)) / p0c,
       √(p0c * p0c + m * m)⟩ := rfl

/-- **C18**: (τ, δ) → (z, pz) → (τ, δ) is the identity, and the reference energy is recovered, for
physical particles (reference and particle energy above the rest energy) -/
theorem zpz_roundtrip (tau delta E0 m : ℝ) (hE0 : 0 < E0) (h0 : m * m < E0 * E0)
    (hE : 0 < E0 + delta * √(E0 * E0 - m * m))
    (h1 : m * m < (E0 + delta * √(E0 * E0 - m * m)) * (E0 + delta * √(E0 * E0 - m * m))) :
    let b := toBmad tau delta E0 m
    toCheetah b.z b.pz b.p0c m = ⟨tau, delta, E0⟩ := by
  intro b
  simp only [b, toBmad_eq, toCheetah_eq]
  have h10 : (1.0:ℝ) = 1 := by norm_num
  rw [h10]
  set p0c := √(E0 * E0 - m * m) with hp0c
  set E := E0 + delta * p0c with hEdef
  set p := √(E * E - m * m) with hp
  have hp0pos : 0 < p0c := Real.sqrt_pos.mpr (by linarith)
  have hppos : 0 < p := Real.sqrt_pos.mpr (by linarith)
  have hp0sq : p0c * p0c = E0 * E0 - m * m := Real.mul_self_sqrt (by linarith)
  have hpsq : p * p = E * E - m * m := Real.mul_self_sqrt (by linarith)
  have e1 : (1 + (p - p0c) / p0c) * p0c = p := by field_simp; ring
  have e2 : √(p * p + m * m) = E := by
    rw [hpsq]; rw [show E * E - m * m + m * m = E * E by ring]; exact Real.sqrt_mul_self hE.le
  have e3 : √(p0c * p0c + m * m) = E0 := by
    rw [hp0sq]; rw [show E0 * E0 - m * m + m * m = E0 * E0 by ring]; exact Real.sqrt_mul_self hE0.le
  rw [e1, e2, e3]
  have hEne : E ≠ 0 := hE.ne'
  congr 1
  · field_simp
  · rw [hEdef]; field_simp; ring

/-- **C18** the documented definitions: `z = −β·τ`, `pz = (p − p0)/p0`, `δ = (E − E0)/(p0 c)` -/
theorem zpz_definitions (tau delta E0 m : ℝ) :
    let p0c := √(E0 * E0 - m * m)
    let E := E0 + delta * p0c
    let p := √(E * E - m * m)
    (toBmad tau delta E0 m).z = -(p / E) * tau ∧ (toBmad tau delta E0 m).pz = (p - p0c) / p0c ∧
    (toBmad tau delta E0 m).p0c = p0c ∧ delta = (E - E0) / p0c ∨ p0c = 0 := by
  intro p0c E p
  by_cases h : p0c = 0
  · right; exact h
  · left
    refine ⟨rfl, rfl, rfl, ?_⟩
    simp only [E]; field_simp; ring

/-! ## the exact drift -/

theorem trackADrift_fields (L : ℝ) (p : BP ℝ) (p0c m : ℝ) :
    (trackADrift L p p0c m).px = p.px ∧ (trackADrift L p p0c m).py = p.py ∧
    (trackADrift L p p0c m).pz = p.pz := ⟨rfl, rfl, rfl⟩

/-- **C07**: the Bmad-X drift is a flow: two consecutive pieces equal the whole -/
theorem trackADrift_add (a b : ℝ) (p : BP ℝ) (p0c m : ℝ) :
    trackADrift b (trackADrift a p p0c m) p0c m = trackADrift (a + b) p p0c m := by
  unfold trackADrift
  simp only
  congr 1 <;> ring

theorem trackADrift_zero (p : BP ℝ) (p0c m : ℝ) : trackADrift 0 p p0c m = p := by
  unfold trackADrift
  simp

/-- **C07**: straight-line motion: the transverse displacement is `L·(px, py)/√((1+pz)² − px² − py²)` -/
theorem drift_straight_line (L : ℝ) (p : BP ℝ) (p0c m : ℝ) (hP : 0 < 1 + p.pz)
    (hT : p.px * p.px + p.py * p.py < (1 + p.pz) * (1 + p.pz)) :
    (trackADrift L p p0c m).x - p.x = L * p.px / √((1 + p.pz) * (1 + p.pz) - p.px * p.px - p.py * p.py) ∧
    (trackADrift L p p0c m).y - p.y = L * p.py / √((1 + p.pz) * (1 + p.pz) - p.px * p.px - p.py * p.py) := by
  have h10 : (1.0:ℝ) = 1 := by norm_num
  have hPne : (1 + p.pz) ≠ 0 := hP.ne'
  have key : √(1 - (p.px / (1 + p.pz) * (p.px / (1 + p.pz)) + p.py / (1 + p.pz) * (p.py / (1 + p.pz)))) =
      √((1 + p.pz) * (1 + p.pz) - p.px * p.px - p.py * p.py) / (1 + p.pz) := by
    rw [show 1 - (p.px / (1 + p.pz) * (p.px / (1 + p.pz)) + p.py / (1 + p.pz) * (p.py / (1 + p.pz)))
        = ((1 + p.pz) * (1 + p.pz) - p.px * p.px - p.py * p.py) / ((1 + p.pz) * (1 + p.pz)) by field_simp; ring]
    rw [Real.sqrt_div' _ (by positivity), Real.sqrt_mul_self hP.le]
  have hs : 0 < √((1 + p.pz) * (1 + p.pz) - p.px * p.px - p.py * p.py) := Real.sqrt_pos.mpr (by linarith)
  unfold trackADrift
  simp only [h10, Scalar.real_sqrt]
  rw [key]
  have hsne := hs.ne'
  constructor <;> field_simp <;> ring

/-! ## transverse deflecting cavity at zero voltage -/

/-- the momentum-kick part of the TDC, isolated (what happens between the two half drifts) -/
noncomputable def tdcKick (k : Consts ℝ) (V phase freq p0c : ℝ) (p : BP ℝ) : BP ℝ :=
  let mc2 := k.mc2
  let voltage := V / p0c
  let k_rf := 2.0 * k.pi * freq / k.c
  let ph := 2.0 * k.pi * (phase - rfTime k.c p.z p.pz p0c mc2 * freq)
  let px := p.px + voltage * Real.sin ph
  let beta_old := (1.0 + p.pz) * p0c / √(((1.0 + p.pz) * p0c) * ((1.0 + p.pz) * p0c) + mc2 * mc2)
  let E_old := (1.0 + p.pz) * p0c / beta_old
  let E_new := E_old + voltage * Real.cos ph * k_rf * p.x * p0c
  let pc := √(E_new * E_new - mc2 * mc2)
  let beta := pc / E_new
  let pz := (pc - p0c) / p0c
  let z := p.z * beta / beta_old
  { p with px := px, pz := pz, z := z }

theorem bmadxTDC_eq (k : Consts ℝ) (L V phase freq mx my tilt : ℝ) (v : Vec7 ℝ) (E0 : ℝ) :
    bmadxTDC k L V phase freq mx my tilt v E0 =
      bpToVec (offsetUnset mx my tilt (trackADrift (L / 2.0)
        (tdcKick k V phase freq (vecToBP v E0 k.mc2).2
          (trackADrift (L / 2.0) (offsetSet mx my tilt (vecToBP v E0 k.mc2).1) (vecToBP v E0 k.mc2).2 k.mc2))
        (vecToBP v E0 k.mc2).2 k.mc2)) (vecToBP v E0 k.mc2).2 k.mc2 := rfl

/-- at zero voltage the kick is the identity (for a particle moving forward, `(1+pz)·p0c > 0`) -/
theorem tdcKick_zero (k : Consts ℝ) (phase freq p0c : ℝ) (p : BP ℝ) (hp0 : 0 < p0c) (hP : 0 < 1 + p.pz) :
    tdcKick k 0 phase freq p0c p = p := by
  have h10 : (1.0:ℝ) = 1 := by norm_num
  unfold tdcKick
  simp only [h10, zero_div, zero_mul, add_zero]
  set q := (1 + p.pz) * p0c with hq
  have hqpos : 0 < q := mul_pos hP hp0
  have hqq : 0 < q * q + k.mc2 * k.mc2 := by nlinarith [mul_self_nonneg k.mc2]
  have hs : 0 < √(q * q + k.mc2 * k.mc2) := Real.sqrt_pos.mpr hqq
  have hEold : q / (q / √(q * q + k.mc2 * k.mc2)) = √(q * q + k.mc2 * k.mc2) := by
    field_simp
  rw [hEold]
  have hpc : √(√(q * q + k.mc2 * k.mc2) * √(q * q + k.mc2 * k.mc2) - k.mc2 * k.mc2) = q := by
    rw [Real.mul_self_sqrt hqq.le]
    rw [show q * q + k.mc2 * k.mc2 - k.mc2 * k.mc2 = q * q by ring]
    exact Real.sqrt_mul_self hqpos.le
  rw [hpc]
  have e1 : (q - p0c) / p0c = p.pz := by rw [hq]; field_simp; ring
  have e2 : p.z * (q / √(q * q + k.mc2 * k.mc2)) / (q / √(q * q + k.mc2 * k.mc2)) = p.z := by
    field_simp
  rw [e1, e2]

/-- **C07 / C09**: a transverse deflecting cavity at zero voltage is exactly the Bmad-X drift of the same
length, in the element's (offset, tilted) frame -/
theorem tdc_zero_voltage (k : Consts ℝ) (L phase freq mx my tilt : ℝ) (v : Vec7 ℝ) (E0 : ℝ)
    (hp0 : 0 < (vecToBP v E0 k.mc2).2) (hP : 0 < 1 + (vecToBP v E0 k.mc2).1.pz) :
    bmadxTDC k L 0 phase freq mx my tilt v E0 =
      bpToVec (offsetUnset mx my tilt (trackADrift L (offsetSet mx my tilt (vecToBP v E0 k.mc2).1)
        (vecToBP v E0 k.mc2).2 k.mc2)) (vecToBP v E0 k.mc2).2 k.mc2 := by
  rw [bmadxTDC_eq]
  have hpz : (trackADrift (L / 2.0) (offsetSet mx my tilt (vecToBP v E0 k.mc2).1) (vecToBP v E0 k.mc2).2 k.mc2).pz
      = (vecToBP v E0 k.mc2).1.pz := rfl
  rw [tdcKick_zero k phase freq _ _ hp0 (by rw [hpz]; exact hP), trackADrift_add]
  congr 3
  norm_num

/-! ## SI coordinates round trip -/

/-- **C18**: Cheetah coordinates → SI positions and momenta → Cheetah coordinates is the identity, provided the
constants are consistent (`mec = me·c`; the code on this tree forms the product in float32) -/
theorem xyz_roundtrip (s : SIConsts ℝ) (E0 mc2 : ℝ) (v : Vec7 ℝ) (hm : 0 < mc2) (hE : mc2 < E0)
    (hme : 0 < s.me) (hc : 0 < s.c) (hmec : s.mec = s.me * s.c)
    (hg : 1 < E0 / mc2 * (1 + v.a5 * relBeta (E0 / mc2)))
    (hT : (v.a1 * (E0 / mc2 * relBeta (E0 / mc2) * s.me * s.c)) ^ 2 + (v.a3 * (E0 / mc2 * relBeta (E0 / mc2) * s.me * s.c)) ^ 2
            ≤ (E0 / mc2 * (1 + v.a5 * relBeta (E0 / mc2)) * s.me *
                √(1 - 1 / ((E0 / mc2 * (1 + v.a5 * relBeta (E0 / mc2))) * (E0 / mc2 * (1 + v.a5 * relBeta (E0 / mc2))))) * s.c) ^ 2) :
    fromXyz s E0 mc2 (toXyz s E0 mc2 v) = v := by
  have h10 : (1.0:ℝ) = 1 := by norm_num
  set g0 := E0 / mc2 with hg0
  have hg0pos : 1 < g0 := by rw [hg0, lt_div_iff₀ hm]; linarith
  set b0 := relBeta g0 with hb0
  have hb0pos : 0 < b0 := by
    rw [hb0]; unfold relBeta
    have : Scalar.ltb (0.0:ℝ) (Scalar.abs g0) = true := by
      rw [Scalar.real_ltb]; norm_num; linarith
    simp only [this, if_true, h10]
    apply Real.sqrt_pos.mpr
    have : 1 / (g0 * g0) < 1 := by rw [div_lt_one (by nlinarith)]; nlinarith
    linarith
  unfold fromXyz toXyz
  simp only [h10, ← hg0, ← hb0, Scalar.real_sqrt]
  set gam := g0 * (1 + v.a5 * b0) with hgam
  set bet := √(1 - 1 / (gam * gam)) with hbet
  have hgampos : 0 < gam := by linarith
  have hbetsq : bet * bet = 1 - 1 / (gam * gam) := by
    rw [hbet]; apply Real.mul_self_sqrt
    have : 1 / (gam * gam) < 1 := by rw [div_lt_one (by nlinarith)]; nlinarith
    linarith
  set p0 := g0 * b0 * s.me * s.c with hp0
  have hp0pos : 0 < p0 := by rw [hp0]; positivity
  have hmom : (gam * s.me * bet * s.c) * (gam * s.me * bet * s.c) - v.a1 * p0 * (v.a1 * p0) - v.a3 * p0 * (v.a3 * p0) ≥ 0 := by
    have := hT
    nlinarith [this]
  have hpp : v.a1 * p0 * (v.a1 * p0) + v.a3 * p0 * (v.a3 * p0)
      + √((gam * s.me * bet * s.c) * (gam * s.me * bet * s.c) - v.a1 * p0 * (v.a1 * p0) - v.a3 * p0 * (v.a3 * p0))
        * √((gam * s.me * bet * s.c) * (gam * s.me * bet * s.c) - v.a1 * p0 * (v.a1 * p0) - v.a3 * p0 * (v.a3 * p0))
      = (gam * s.me * bet * s.c) * (gam * s.me * bet * s.c) := by
    rw [Real.mul_self_sqrt hmom]; ring
  rw [hpp, hmec]
  have hsq : √(gam * s.me * bet * s.c * (gam * s.me * bet * s.c)) = gam * s.me * bet * s.c := by
    apply Real.sqrt_mul_self
    have : 0 ≤ bet := Real.sqrt_nonneg _
    positivity
  rw [hsq]
  have hgamma : √(1 + gam * s.me * bet * s.c / (s.me * s.c) * (gam * s.me * bet * s.c / (s.me * s.c))) = gam := by
    have h1 : gam * s.me * bet * s.c / (s.me * s.c) = gam * bet := by field_simp
    rw [h1, show 1 + gam * bet * (gam * bet) = 1 + gam * gam * (bet * bet) by ring, hbetsq]
    rw [show 1 + gam * gam * (1 - 1 / (gam * gam)) = gam * gam by field_simp; ring]
    exact Real.sqrt_mul_self hgampos.le
  rw [hgamma]
  have hg0ne : g0 ≠ 0 := by linarith
  cases v
  simp only [Vec7.mk.injEq]
  refine ⟨trivial, ?_, trivial, ?_, ?_, ?_, trivial⟩
  · field_simp
  · field_simp
  · field_simp
  · rw [hgam]; field_simp; ring

/-- **C18**: (z, pz) → (τ, δ) → (z, pz) is the identity too (reference momentum recovered) -/
theorem pzz_roundtrip (z pz p0c m : ℝ) (hp0 : 0 < p0c) (hP : 0 < 1 + pz) (hm : 0 < m) :
    let c := toCheetah z pz p0c m
    toBmad c.tau c.delta c.refE m = ⟨z, pz, p0c⟩ := by
  intro c
  simp only [c, toBmad_eq, toCheetah_eq]
  have h10 : (1.0:ℝ) = 1 := by norm_num
  rw [h10]
  set q := (1 + pz) * p0c with hq
  have hqpos : 0 < q := mul_pos hP hp0
  have hE0sq : 0 < p0c * p0c + m * m := by nlinarith
  have hEsq : 0 < q * q + m * m := by nlinarith
  set E0 := √(p0c * p0c + m * m) with hE0
  set E := √(q * q + m * m) with hE
  have hE0pos : 0 < E0 := Real.sqrt_pos.mpr hE0sq
  have hEpos : 0 < E := Real.sqrt_pos.mpr hEsq
  have e1 : √(E0 * E0 - m * m) = p0c := by
    rw [hE0, Real.mul_self_sqrt hE0sq.le, show p0c * p0c + m * m - m * m = p0c * p0c by ring]
    exact Real.sqrt_mul_self hp0.le
  rw [e1]
  have e2 : E0 + (E - E0) / p0c * p0c = E := by field_simp; ring
  rw [e2]
  have e3 : √(E * E - m * m) = q := by
    rw [hE, Real.mul_self_sqrt hEsq.le, show q * q + m * m - m * m = q * q by ring]
    exact Real.sqrt_mul_self hqpos.le
  rw [e3]
  congr 1
  · field_simp
  · rw [hq]; field_simp; ring

theorem bmadxDrift_eq (L : ℝ) (v : Vec7 ℝ) (E0 m : ℝ) :
    bmadxDrift L v E0 m = bpToVec (trackADrift L (vecToBP v E0 m).1 (vecToBP v E0 m).2 m) (vecToBP v E0 m).2 m := rfl

/-- **C07**: two consecutive Bmad-X `Drift` elements track like one of the summed length (including the
conversions Cheetah → Bmad → Cheetah in between), for forward-moving particles -/
theorem bmadxDrift_add (a b : ℝ) (v : Vec7 ℝ) (E0 m : ℝ) (hm : 0 < m)
    (hp0 : 0 < (vecToBP v E0 m).2) (hP : 0 < 1 + (vecToBP v E0 m).1.pz) :
    bmadxDrift b (bmadxDrift a v E0 m).1 (bmadxDrift a v E0 m).2 m = bmadxDrift (a + b) v E0 m := by
  rw [bmadxDrift_eq a, bmadxDrift_eq (a + b), ← trackADrift_add a b]
  set p := trackADrift a (vecToBP v E0 m).1 (vecToBP v E0 m).2 m with hp
  have hpz : p.pz = (vecToBP v E0 m).1.pz := rfl
  have rt := pzz_roundtrip p.z p.pz (vecToBP v E0 m).2 m hp0 (by rw [hpz]; exact hP) hm
  simp only at rt
  rw [bmadxDrift_eq b]
  have h1 : vecToBP (bpToVec p (vecToBP v E0 m).2 m).1 (bpToVec p (vecToBP v E0 m).2 m).2 m
      = (p, (vecToBP v E0 m).2) := by
    have rt' : toBmad (toCheetah p.z p.pz (toBmad v.a4 v.a5 E0 m).p0c m).tau
        (toCheetah p.z p.pz (toBmad v.a4 v.a5 E0 m).p0c m).delta
        (toCheetah p.z p.pz (toBmad v.a4 v.a5 E0 m).p0c m).refE m
        = { z := p.z, pz := p.pz, p0c := (toBmad v.a4 v.a5 E0 m).p0c } := rt
    unfold vecToBP bpToVec
    simp only
    rw [rt']
  rw [h1]
