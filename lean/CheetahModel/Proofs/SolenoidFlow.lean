import CheetahModel.Proofs.Flow
import CheetahModel.Proofs.ElementMaps
/-!
# The solenoid map is the exact flow of the solenoid's linearised equations of motion (C02)

`Solenoid.transfer_map` (hard-edge solenoid in the canonical variables `(x, px, y, py)`, `k = B/(2 Bρ)`):
`R(a + b) = R(a) R(b)` and `dR/dL = A·R(L)` at every length, with the generator `genSol`, i.e.

  x' = px + k·y,  px' = −k²·x + k·py,  y' = −k·x + py,  py' = −k·px − k²·y,  τ' = δ/(1−γ²)

(rotation with the Larmor frequency combined with focusing of strength k² in both planes).  Both branches of the code
(`k = 0`: `s_k = L`; `k ≠ 0`: `s_k = sin(kL)/k`) are covered.
-/
open Scalar

/-- the body map as a literal in terms of c, s, s_k -/
def solM (c s sk k r : ℝ) : Matrix (Fin 7) (Fin 7) ℝ :=
  !![c * c, c * sk, s * c, s * sk, 0, 0, 0;
     -k * s * c, c * c, -k * (s * s), s * c, 0, 0, 0;
     -s * c, -s * sk, c * c, c * sk, 0, 0, 0;
     k * (s * s), -s * c, -k * s * c, c * c, 0, 0, 0;
     0, 0, 0, 0, 1, r, 0;
     0, 0, 0, 0, 0, 1, 0;
     0, 0, 0, 0, 0, 0, 1]

/-- `sin(kL)/k` with the code's `k = 0` branch -/
noncomputable def solSk (k L : ℝ) : ℝ := if k = 0 then L else Real.sin (L * k) / k

/-- the longitudinal slip per unit length, `1/(1−γ²)` with the code's `γ = 0` guard -/
noncomputable def solSlip (E m : ℝ) : ℝ := if E / m = 0 then 0 else 1 / (1 - E / m * (E / m))

/-- the (4,5) entry of the body map: the longitudinal slip, linear in the length -/
theorem solenoid_r56 (L k E m : ℝ) : (solenoidBody L k E m).get 4 5 = L * solSlip E m := by
  have hgam : (relFactors E m).gamma = E / m := by unfold relFactors; rfl
  unfold solSlip
  by_cases hg : E / m = 0
  · have e : Scalar.eqb (relFactors E m).gamma (0.0:ℝ) = true := by
      rw [Scalar.real_eqb, hgam, hg]; norm_num
    rw [if_pos hg]
    simp only [solenoidBody, e, Mat7.get, Mat7.row, Vec7.get, Mat7.ofRows, row7, if_true]
    norm_num
  · have e : Scalar.eqb (relFactors E m).gamma (0.0:ℝ) = false := by
      have z : (0.0:ℝ) = 0 := by norm_num
      rw [Scalar.real_eqb_false, hgam, z]; exact hg
    rw [if_neg hg]
    simp only [solenoidBody, e, Mat7.get, Mat7.row, Vec7.get, Mat7.ofRows, row7]
    rw [hgam]
    norm_num
    ring

theorem toM_solenoidBody (L k E m : ℝ) :
    (solenoidBody L k E m).toM = solM (Real.cos (L * k)) (Real.sin (L * k)) (solSk k L) k (L * solSlip E m) := by
  have h45 := solenoid_r56 L k E m
  unfold solSk
  by_cases hk : k = 0
  · have e : Scalar.eqb k (0.0:ℝ) = true := by rw [Scalar.real_eqb]; norm_num; exact hk
    ext i j
    fin_cases i <;> fin_cases j <;>
      first
        | (simp only [Mat7.toM]; exact h45)
        | (simp [Mat7.toM, solenoidBody, solM, e, hk, Mat7.get, Mat7.row, Vec7.get] <;> norm_num)
  · have e : Scalar.eqb k (0.0:ℝ) = false := by rw [Scalar.real_eqb_false]; norm_num; exact hk
    ext i j
    fin_cases i <;> fin_cases j <;>
      first
        | (simp only [Mat7.toM]; exact h45)
        | (simp [Mat7.toM, solenoidBody, solM, e, hk, Mat7.get, Mat7.row, Vec7.get] <;> norm_num)

/-- generator of the solenoid -/
noncomputable def genSol (k slip : ℝ) : Matrix (Fin 7) (Fin 7) ℝ :=
  !![0, 1, k, 0, 0, 0, 0;
     -(k * k), 0, 0, k, 0, 0, 0;
     -k, 0, 0, 1, 0, 0, 0;
     0, -k, -(k * k), 0, 0, 0, 0;
     0, 0, 0, 0, 0, slip, 0;
     0, 0, 0, 0, 0, 0, 0;
     0, 0, 0, 0, 0, 0, 0]

theorem solSk_mul (k L : ℝ) : k * solSk k L = Real.sin (L * k) := by
  unfold solSk; split
  · next h => simp [h]
  · next h => field_simp

/-- **group law**: two consecutive pieces of a solenoid are the whole -/
theorem solenoid_add (a b k E m : ℝ) :
    (solenoidBody (a + b) k E m).toM = (solenoidBody a k E m).toM * (solenoidBody b k E m).toM := by
  simp only [toM_solenoidBody]
  have hs : ∀ L, Real.sin (L * k) = k * solSk k L := fun L => (solSk_mul k L).symm
  by_cases hk : k = 0
  · subst hk
    simp only [solSk, if_true, mul_zero, Real.cos_zero, Real.sin_zero, solM]
    ext i j
    fin_cases i <;> fin_cases j <;> simp [Matrix.mul_apply, Fin.sum_univ_succ] <;> ring
  · have ska : solSk k (a + b) = solSk k a * Real.cos (b * k) + Real.cos (a * k) * solSk k b := by
      simp only [solSk, if_neg hk]; rw [add_mul, Real.sin_add]; field_simp
    rw [ska, add_mul a b k, Real.cos_add, Real.sin_add]
    simp only [hs a, hs b]
    unfold solM
    ext i j
    fin_cases i <;> fin_cases j <;> simp [Matrix.mul_apply, Fin.sum_univ_succ] <;> ring

/-! ## derivative at length 0 and the flow equation -/

theorem solSk_hasDeriv0 (k : ℝ) : HasDerivAt (solSk k) 1 0 := by
  unfold solSk
  by_cases hk : k = 0
  · simp only [hk, if_true]; exact hasDerivAt_id 0
  · simp only [if_neg hk]
    have h1 : HasDerivAt (fun l : ℝ => l * k) k 0 := by simpa using (hasDerivAt_id (0:ℝ)).mul_const k
    refine ((h1.sin).div_const k).congr_deriv ?_
    simp [hk]

private def sA1 : Matrix (Fin 7) (Fin 7) ℝ :=
  !![1,0,0,0,0,0,0; 0,1,0,0,0,0,0; 0,0,1,0,0,0,0; 0,0,0,1,0,0,0; 0,0,0,0,0,0,0; 0,0,0,0,0,0,0; 0,0,0,0,0,0,0]
private def sA2 : Matrix (Fin 7) (Fin 7) ℝ :=
  !![0,1,0,0,0,0,0; 0,0,0,0,0,0,0; 0,0,0,1,0,0,0; 0,0,0,0,0,0,0; 0,0,0,0,0,0,0; 0,0,0,0,0,0,0; 0,0,0,0,0,0,0]
private def sA3 (k : ℝ) : Matrix (Fin 7) (Fin 7) ℝ :=
  !![0,0,1,0,0,0,0; -k,0,0,1,0,0,0; -1,0,0,0,0,0,0; 0,-1,-k,0,0,0,0; 0,0,0,0,0,0,0; 0,0,0,0,0,0,0; 0,0,0,0,0,0,0]
private def sA4 : Matrix (Fin 7) (Fin 7) ℝ :=
  !![0,0,0,1,0,0,0; 0,0,0,0,0,0,0; 0,-1,0,0,0,0,0; 0,0,0,0,0,0,0; 0,0,0,0,0,0,0; 0,0,0,0,0,0,0; 0,0,0,0,0,0,0]
private def sA5 (k : ℝ) : Matrix (Fin 7) (Fin 7) ℝ :=
  !![0,0,0,0,0,0,0; 0,0,-k,0,0,0,0; 0,0,0,0,0,0,0; k,0,0,0,0,0,0; 0,0,0,0,0,0,0; 0,0,0,0,0,0,0; 0,0,0,0,0,0,0]
private def sA6 (slip : ℝ) : Matrix (Fin 7) (Fin 7) ℝ :=
  !![0,0,0,0,0,0,0; 0,0,0,0,0,0,0; 0,0,0,0,0,0,0; 0,0,0,0,0,0,0; 0,0,0,0,0,slip,0; 0,0,0,0,0,0,0; 0,0,0,0,0,0,0]
private def sA7 : Matrix (Fin 7) (Fin 7) ℝ :=
  !![0,0,0,0,0,0,0; 0,0,0,0,0,0,0; 0,0,0,0,0,0,0; 0,0,0,0,0,0,0; 0,0,0,0,1,0,0; 0,0,0,0,0,1,0; 0,0,0,0,0,0,1]

private theorem solM_decomp (c s sk k l slip : ℝ) (i j : Fin 7) :
    solM c s sk k (l * slip) i j = c * c * sA1 i j + c * sk * sA2 i j + s * c * sA3 k i j + s * sk * sA4 i j
      + s * s * sA5 k i j + l * sA6 slip i j + sA7 i j := by
  fin_cases i <;> fin_cases j <;> simp [solM, sA1, sA2, sA3, sA4, sA5, sA6, sA7] <;> ring

theorem solenoid_deriv0 (k E m : ℝ) (i j : Fin 7) :
    HasDerivAt (fun l => (solenoidBody l k E m).toM i j) (genSol k (solSlip E m) i j) 0 := by
  have e : (fun l => (solenoidBody l k E m).toM i j) = fun l =>
      Real.cos (l * k) * Real.cos (l * k) * sA1 i j + Real.cos (l * k) * solSk k l * sA2 i j
        + Real.sin (l * k) * Real.cos (l * k) * sA3 k i j + Real.sin (l * k) * solSk k l * sA4 i j
        + Real.sin (l * k) * Real.sin (l * k) * sA5 k i j + l * sA6 (solSlip E m) i j + sA7 i j := by
    funext l; rw [toM_solenoidBody, solM_decomp]
  rw [e]
  have h1 : HasDerivAt (fun l : ℝ => l * k) k 0 := by simpa using (hasDerivAt_id (0:ℝ)).mul_const k
  have hc := h1.cos
  have hs := h1.sin
  have hk := solSk_hasDeriv0 k
  have d := (((((((hc.mul hc).mul_const (sA1 i j)).add ((hc.mul hk).mul_const (sA2 i j))).add
    ((hs.mul hc).mul_const (sA3 k i j))).add ((hs.mul hk).mul_const (sA4 i j))).add
    ((hs.mul hs).mul_const (sA5 k i j))).add ((hasDerivAt_id (0:ℝ)).mul_const (sA6 (solSlip E m) i j))).add_const (sA7 i j)
  refine d.congr_deriv ?_
  have sk0 : solSk k 0 = 0 := by unfold solSk; split <;> simp
  fin_cases i <;> fin_cases j <;>
    simp [genSol, sA1, sA2, sA3, sA4, sA5, sA6, sA7, sk0] <;> (try ring)

/-- **C02**: the solenoid map solves the solenoid's linearised equations of motion at every length -/
theorem solenoid_flow (k E m L : ℝ) (i j : Fin 7) :
    HasDerivAt (fun l => (solenoidBody l k E m).toM i j)
      ((genSol k (solSlip E m) * (solenoidBody L k E m).toM) i j) L :=
  flow_of_group (fun l => (solenoidBody l k E m).toM) _ (fun a b => solenoid_add a b k E m)
    (fun i j => solenoid_deriv0 k E m i j) L i j

/-- the solenoid of zero length is the identity -/
theorem solenoid_zero (k E m : ℝ) : (solenoidBody 0 k E m).toM = 1 := by
  rw [toM_solenoidBody]
  have sk0 : solSk k 0 = 0 := by unfold solSk; split <;> simp
  ext i j
  fin_cases i <;> fin_cases j <;> simp [solM, sk0]
