import CheetahModel.Namelist
/-!
# Theorems about the statement-level model of the lattice-file parsers (C13) — core Lean only
-/
namespace Nml

/-! ## dictionaries -/

theorem dget_dset_same {β : Type} (l : List (String × β)) (k : String) (v : β) : dget (dset l k v) k = some v := by
  induction l with
  | nil => simp [dset, dget]
  | cons a l ih =>
    obtain ⟨k', v'⟩ := a
    unfold dset
    by_cases h : (k' == k) = true
    · simp [h, dget]
    · simp only [h, Bool.false_eq_true, if_false, dget]; exact ih

theorem dget_dset_other {β : Type} (l : List (String × β)) (k x : String) (v : β) (hx : x ≠ k) :
    dget (dset l k v) x = dget l x := by
  induction l with
  | nil =>
    have : (k == x) = false := by simpa using fun h => hx h.symm
    simp [dset, dget, this]
  | cons a l ih =>
    obtain ⟨k', v'⟩ := a
    unfold dset
    by_cases h : (k' == k) = true
    · have hk : k' = k := by simpa using h
      have h1 : (k == x) = false := by simpa using fun h => hx h.symm
      simp only [h, if_true, dget, h1, Bool.false_eq_true, if_false]
      rw [hk, h1]; simp
    · simp only [h, Bool.false_eq_true, if_false, dget, ih]

theorem lookup_set_same (c : Ctx) (k : String) (v : Entry) : lookup (set c k v) k = some v := dget_dset_same c k v

theorem lookup_set_other (c : Ctx) (k k' : String) (v : Entry) (hk : k' ≠ k) :
    lookup (set c k v) k' = lookup c k' := dget_dset_other c k k' v hk

theorem getProp_setProp_same (ps : List (String × Int)) (k : String) (v : Int) :
    getProp (setProp ps k v) k = some v := dget_dset_same ps k v

/-! ## property assignment: one value, computed before anything is written -/

/-- after `context[name][prop] = v`, `name` is a dictionary whose `prop` is `v` … -/
theorem writeProp_sets (c c' : Ctx) (name prop : String) (v : Int) (h : writeProp c name prop v = some c') :
    ∃ t ps, lookup c' name = some (.elem t ps) ∧ getProp ps prop = some v := by
  unfold writeProp at h
  split at h
  · cases h; exact ⟨"", [(prop, v)], lookup_set_same _ _ _, by simp [getProp, dget]⟩
  · rename_i t ps _
    cases h; exact ⟨t, setProp ps prop v, lookup_set_same _ _ _, getProp_setProp_same _ _ _⟩
  · cases h

/-- … and every other name is left alone -/
theorem writeProp_other (c c' : Ctx) (name prop k : String) (v : Int) (h : writeProp c name prop v = some c')
    (hk : k ≠ name) : lookup c' k = lookup c k := by
  unfold writeProp at h
  split at h <;> first | (cases h; exact lookup_set_other _ _ _ _ hk) | cases h

/-- writing the same property with the same value again keeps it -/
theorem writeProp_keeps (c c' : Ctx) (name prop n : String) (v : Int) (h : writeProp c name prop v = some c')
    (hn : ∃ t ps, lookup c n = some (.elem t ps) ∧ getProp ps prop = some v) :
    ∃ t ps, lookup c' n = some (.elem t ps) ∧ getProp ps prop = some v := by
  by_cases e : n = name
  · subst e; exact writeProp_sets c c' n prop v h
  · rw [writeProp_other c c' name prop n v h e]; exact hn

/-- `n` is a dictionary whose `prop` is `v` -/
def Has (c : Ctx) (prop : String) (v : Int) (n : String) : Prop :=
  ∃ t ps, lookup c n = some (.elem t ps) ∧ getProp ps prop = some v

theorem foldlM_writeProp (names : List String) (prop : String) (v : Int) :
    ∀ (c c' : Ctx), names.foldlM (fun c' n => writeProp c' n prop v) c = some c' →
      (∀ n, (n ∈ names ∨ Has c prop v n) → Has c' prop v n) ∧
      (∀ k, k ∉ names → lookup c' k = lookup c k) := by
  induction names with
  | nil =>
    intro c c' h
    simp only [List.foldlM_nil, Option.pure_def, Option.some.injEq] at h
    subst h
    refine ⟨fun n h3 => ?_, fun _ _ => rfl⟩
    rcases h3 with h3 | h3
    · simp at h3
    · exact h3
  | cons a rest ih =>
    intro c c' h
    simp only [List.foldlM_cons, Option.bind_eq_bind] at h
    cases h1 : writeProp c a prop v with
    | none => simp [h1] at h
    | some c1 =>
      simp only [h1, Option.bind_some] at h
      obtain ⟨ihA, ihB⟩ := ih c1 c' h
      refine ⟨fun n h3 => ?_, fun k hk => ?_⟩
      · by_cases hr : n ∈ rest
        · exact ihA n (Or.inl hr)
        · have : Has c1 prop v n := by
            rcases h3 with h3 | h3
            · have : n = a := by
                rcases List.mem_cons.mp h3 with h | h
                · exact h
                · exact absurd h hr
              subst this; exact writeProp_sets c c1 n prop v h1
            · exact writeProp_keeps c c1 a prop n v h1 h3
          exact ihA n (Or.inr this)
      · have hka : k ≠ a := fun e => hk (e ▸ List.mem_cons_self)
        have hkr : k ∉ rest := fun e => hk (List.mem_cons_of_mem _ e)
        rw [ihB k hkr, writeProp_other c c1 a prop k v h1 hka]

/-- **`assign_property`**: the right-hand side is evaluated once in the context *before* the statement; every addressed
element — the named one, or every element the wild card matches — ends up with exactly that value; nothing else changes -/
theorem assign_property_once (c c' : Ctx) (wild : Option String) (name prop : String) (e : Ex)
    (h : step c (.assignProp wild name prop e) = some c') :
    ∃ v, eval c e = some v ∧
      (∀ n ∈ (match wild with | some etype => resolve c etype name | none => [name]),
          ∃ t ps, lookup c' n = some (.elem t ps) ∧ getProp ps prop = some v) ∧
      (∀ k, k ∉ (match wild with | some etype => resolve c etype name | none => [name]) → lookup c' k = lookup c k) := by
  unfold step at h
  simp only at h
  cases hv : eval c e with
  | none => simp [hv] at h
  | some v =>
    simp only [hv] at h
    obtain ⟨hA, hB⟩ := foldlM_writeProp _ prop v c c' h
    exact ⟨v, rfl, fun n hn => hA n (Or.inl hn), hB⟩

/-- `use, name`: the name is recorded, whatever was recorded before -/
theorem use_records (c c' : Ctx) (n : String) (h : step c (.use n) = some c') : useName c' = some n := by
  unfold step at h; cases h
  unfold useName; rw [lookup_set_same]

/-- the last `use` of a file wins -/
theorem last_use_wins (c c' : Ctx) (ss : List Stmt) (n : String) (h : run c (ss ++ [.use n]) = some c') :
    useName c' = some n := by
  induction ss generalizing c with
  | nil =>
    simp only [List.nil_append, run] at h
    cases h1 : step c (.use n) with
    | none => simp [h1] at h
    | some c1 => simp [h1, run] at h; subst h; exact use_records c c1 n h1
  | cons s rest ih =>
    simp only [List.cons_append, run] at h
    cases h1 : step c s with
    | none => simp [h1] at h
    | some c1 => simp only [h1, Option.bind_some] at h; exact ih c1 h

/-! ## expansion of lines -/

/-- a line becomes a segment of that name holding its items, in order, each expanded recursively against the same (final)
context; an element becomes a leaf with its final type and properties -/
theorem expand_line (c : Ctx) (f : Nat) (name : String) (items : List String) (t : Tree)
    (hl : lookup c name = some (.line items)) (h : expand c (f + 1) name = some t) :
    ∃ ts, expandList c f items = some ts ∧ t = .seg name ts ∧ t.flat = flatList ts := by
  unfold expand at h
  simp only [hl] at h
  cases hts : expandList c f items with
  | none => simp [hts] at h
  | some ts => simp [hts] at h; subst h; exact ⟨ts, rfl, rfl, by simp [Tree.flat]⟩

/-- item by item: `ts` are the expansions of `items` -/
inductive Each (c : Ctx) (f : Nat) : List String → List Tree → Prop
  | nil : Each c f [] []
  | cons {n t rest ts} (h : expand c f n = some t) (r : Each c f rest ts) : Each c f (n :: rest) (t :: ts)

theorem expandList_each (c : Ctx) (f : Nat) : ∀ (items : List String) (ts : List Tree),
    expandList c f items = some ts ↔ Each c f items ts := by
  intro items
  induction items with
  | nil => intro ts; unfold expandList; constructor
           · intro h; cases h; exact Each.nil
           · intro h; cases h; rfl
  | cons n rest ih =>
    intro ts
    unfold expandList
    constructor
    · intro h
      cases h1 : expand c f n with
      | none => simp [h1] at h
      | some t =>
        cases h2 : expandList c f rest with
        | none => simp [h1, h2] at h
        | some ts' =>
          simp [h1, h2] at h; subst h
          exact Each.cons h1 ((ih ts').mp h2)
    · intro h
      cases h with
      | cons h1 h2 => simp [h1, (ih _).mpr h2]

/-- the element names of a segment in beam order are the concatenation of those of its items -/
theorem flatList_eq_flatMap : ∀ ts : List Tree, flatList ts = ts.flatMap Tree.flat
  | [] => rfl
  | t :: ts => by simp [flatList, flatList_eq_flatMap ts]

/-- late binding: a line holds *names*; an element re-defined after the line was written is the one that is built -/
example :
    (run [] [.defElem "q1" "quadrupole" [("k1", .lit 1)], .defLine "cell" ["q1", "q1"],
             .defElem "q1" "quadrupole" [("k1", .lit 5)], .use "cell"]).bind (fun c => expand c 8 "cell")
      = some (.seg "cell" [.leaf "q1" "quadrupole" [("k1", 5)], .leaf "q1" "quadrupole" [("k1", 5)]]) := by
  simp [run, step, evalProps, eval, set, setProp, dset, lookup, dget, expand, expandList]

/-- a wild-card assignment whose right-hand side mentions one of the matched elements: all get the value from before -/
example :
    ((run [] [.defElem "q1" "quadrupole" [("k1", .lit 1)], .defElem "q2" "quadrupole" [("k1", .lit 3)],
              .assignProp (some "quadrupole") "q*" "k1" (.mul (.lit 2) (.ref "q1" "k1"))]).map
        fun c => (lookup c "q1", lookup c "q2"))
      = some (some (.elem "quadrupole" [("k1", 2)]), some (.elem "quadrupole" [("k1", 2)])) := by
  decide

/-! ## wild cards -/

theorem glob_nil (s : List Char) : glob [] s = true ↔ s = [] := by
  cases s <;> simp [glob]

theorem anySuffix_iff (f : List Char → Bool) : ∀ s : List Char,
    anySuffix f s = true ↔ ∃ k, k ≤ s.length ∧ f (s.drop k) = true := by
  intro s
  induction s with
  | nil => simp [anySuffix]
  | cons ch t ih =>
    simp only [anySuffix, Bool.or_eq_true, ih]
    constructor
    · rintro (h | ⟨k, hk, h⟩)
      · exact ⟨0, Nat.zero_le _, h⟩
      · exact ⟨k + 1, by simp; omega, by simpa using h⟩
    · rintro ⟨k, hk, h⟩
      cases k with
      | zero => exact Or.inl (by simpa using h)
      | succ k => exact Or.inr ⟨k, by simp at hk; omega, by simpa using h⟩

/-- `*` stands for any (possibly empty) run of characters -/
theorem glob_star (p s : List Char) :
    glob ('*' :: p) s = true ↔ ∃ k, k ≤ s.length ∧ glob p (s.drop k) = true := by
  simp only [glob, beq_self_eq_true, if_true]; exact anySuffix_iff _ s

/-- `%` stands for exactly one character -/
theorem glob_percent (p s : List Char) : glob ('%' :: p) s = true ↔ ∃ ch t, s = ch :: t ∧ glob p t = true := by
  have : ('%' == '*') = false := by decide
  cases s with
  | nil => simp [glob, this]
  | cons ch t =>
    simp only [glob, this, Bool.false_eq_true, if_false, beq_self_eq_true, Bool.true_or, Bool.true_and]
    constructor
    · intro h; exact ⟨ch, t, rfl, h⟩
    · rintro ⟨_, _, h1, h⟩; cases h1; exact h

/-- a pattern without wild cards matches exactly itself -/
theorem glob_literal : ∀ (p s : List Char), (∀ ch ∈ p, ch ≠ '*' ∧ ch ≠ '%') → (glob p s = true ↔ s = p) := by
  intro p
  induction p with
  | nil => intro s _; exact glob_nil s
  | cons a p ih =>
    intro s hp
    have ha := hp a List.mem_cons_self
    have hp' : ∀ ch ∈ p, ch ≠ '*' ∧ ch ≠ '%' := fun ch h => hp ch (List.mem_cons_of_mem _ h)
    have h1 : (a == '*') = false := by simpa using ha.1
    have h2 : (a == '%') = false := by simpa using ha.2
    cases s with
    | nil => simp [glob, h1]
    | cons ch t =>
      simp only [glob, h1, Bool.false_eq_true, if_false, h2, Bool.false_or, Bool.and_eq_true, beq_iff_eq, ih t hp',
        List.cons.injEq]
      constructor
      · rintro ⟨h1, h2⟩; exact ⟨h1.symm, h2⟩
      · rintro ⟨h1, h2⟩; exact ⟨h1.symm, h2⟩

end Nml
