import CheetahModel.Dual
/-!
# Reverse-mode differentiation over expression programs: the model of what `torch.autograd` does (C05)

`Ex α` is a first-order program over the scalar operations Cheetah's tracking code is made of, including the two
selections the code uses as guards (`torch.where(p < q, x, y)`, `torch.where(p == q, x, y)`).  It is evaluated three
ways by the *same* definitions:

* `val`  — the forward pass (values),
* `fwd`  — forward-mode tangents: `eval` at `Dual α` with one variable seeded (what `Dual.lean` does for the maps),
* `back` — the backward pass of a tape: the output cotangent is pushed to the operands, multiplied by the local partial
  derivatives PyTorch's `derivatives.yaml` uses, and accumulated at the leaves.  Both arms of a `where` are evaluated and
  both receive a cotangent (the unselected one receives `0`) — which is why, in floating point, a `0/0` or `∞` local
  derivative in the *unselected* arm turns the leaf gradient into NaN (`0·∞`), the mechanism behind C05's recorded
  findings.  Over ℝ that product is `0`.

No Mathlib import: the driver executes `back` at `Float` (op `rev`) against `torch.autograd.grad`.
-/
open Scalar

inductive Ex (α : Type) where
  | var (i : Nat)
  | const (c : α)
  | add (a b : Ex α)
  | sub (a b : Ex α)
  | mul (a b : Ex α)
  | div (a b : Ex α)
  | neg (a : Ex α)
  | sin (a : Ex α)
  | cos (a : Ex α)
  | sinh (a : Ex α)
  | cosh (a : Ex α)
  | sqrt (a : Ex α)
  | exp (a : Ex α)
  | log (a : Ex α)
  | atan (a : Ex α)
  | whereLt (p q x y : Ex α)
  | whereEq (p q x y : Ex α)

namespace Ex
variable {α β : Type}

/-- evaluation over any scalar type `β`; constants are embedded by `cst` -/
def eval [Scalar β] (cst : α → β) (env : Nat → β) : Ex α → β
  | var i => env i
  | const c => cst c
  | add a b => a.eval cst env + b.eval cst env
  | sub a b => a.eval cst env - b.eval cst env
  | mul a b => a.eval cst env * b.eval cst env
  | div a b => a.eval cst env / b.eval cst env
  | neg a => -(a.eval cst env)
  | sin a => Scalar.sin (a.eval cst env)
  | cos a => Scalar.cos (a.eval cst env)
  | sinh a => Scalar.sinh (a.eval cst env)
  | cosh a => Scalar.cosh (a.eval cst env)
  | sqrt a => Scalar.sqrt (a.eval cst env)
  | exp a => Scalar.exp (a.eval cst env)
  | log a => Scalar.log (a.eval cst env)
  | atan a => Scalar.atan (a.eval cst env)
  | whereLt p q x y => sel (ltb (p.eval cst env) (q.eval cst env)) (x.eval cst env) (y.eval cst env)
  | whereEq p q x y => sel (eqb (p.eval cst env) (q.eval cst env)) (x.eval cst env) (y.eval cst env)

/-- the forward pass -/
def val [Scalar α] (env : Nat → α) (e : Ex α) : α := e.eval id env

/-- the seeded environment of forward mode: variable `i` carries tangent 1, every other variable tangent 0 -/
def seed [Scalar α] (env : Nat → α) (i : Nat) : Nat → Dual α :=
  fun j => if j = i then Dual.var (env j) else Dual.const (env j)

/-- forward-mode: the same program on dual numbers -/
def fwd [Scalar α] (env : Nat → α) (i : Nat) (e : Ex α) : Dual α := e.eval Dual.const (seed env i)

/-- the backward pass: `back env e ct acc` adds to the accumulator `acc` the contribution of the output cotangent `ct`
to every leaf of `e` (local partials as in PyTorch's `derivatives.yaml`) -/
def back [Scalar α] (env : Nat → α) : Ex α → α → (Nat → α) → (Nat → α)
  | var i, ct, acc => fun j => if j = i then acc j + ct else acc j
  | const _, _, acc => acc
  | add a b, ct, acc => b.back env ct (a.back env ct acc)
  | sub a b, ct, acc => b.back env (-ct) (a.back env ct acc)
  | mul a b, ct, acc => b.back env (ct * a.val env) (a.back env (ct * b.val env) acc)
  | div a b, ct, acc =>
      b.back env (-ct * ((a.val env / b.val env) / b.val env)) (a.back env (ct / b.val env) acc)
  | neg a, ct, acc => a.back env (-ct) acc
  | sin a, ct, acc => a.back env (ct * Scalar.cos (a.val env)) acc
  | cos a, ct, acc => a.back env (ct * -(Scalar.sin (a.val env))) acc
  | sinh a, ct, acc => a.back env (ct * Scalar.cosh (a.val env)) acc
  | cosh a, ct, acc => a.back env (ct * Scalar.sinh (a.val env)) acc
  | sqrt a, ct, acc => a.back env (ct / (2.0 * Scalar.sqrt (a.val env))) acc
  | exp a, ct, acc => a.back env (ct * Scalar.exp (a.val env)) acc
  | log a, ct, acc => a.back env (ct / a.val env) acc
  | atan a, ct, acc => a.back env (ct / (1.0 + a.val env * a.val env)) acc
  | whereLt p q x y, ct, acc =>
      let c := ltb (p.val env) (q.val env)
      y.back env (sel c 0.0 ct) (x.back env (sel c ct 0.0) acc)
  | whereEq p q x y, ct, acc =>
      let c := eqb (p.val env) (q.val env)
      y.back env (sel c 0.0 ct) (x.back env (sel c ct 0.0) acc)

/-- the gradient reverse mode returns for variable `i`: one backward pass from cotangent 1 -/
def grad [Scalar α] (env : Nat → α) (e : Ex α) (i : Nat) : α := e.back env 1.0 (fun _ => 0.0) i

/-- the environment with variable `i` replaced -/
def upd (env : Nat → α) (i : Nat) (t : α) : Nat → α := fun j => if j = i then t else env j

end Ex
