import CheetahModel.Text
/-!
Driver ops for the textual front end: `txt <sub> <args…>`; every line crosses the pipe as the hexadecimal codes of
its (ASCII) characters, the empty line as `-`.

* `txt merge <mark> <0|1> <line>…`  → `T none` | `T <line>…`
* `txt all <line>…`                 → the three passes of the converters
* `txt clean <line>…`               → `read_clean_lines` without inclusion
* `txt rpnv <line>` / `txt rpni <line>`
-/
namespace DrvText
open Text

def hexVal (c : Char) : Option Nat :=
  if '0' ≤ c ∧ c ≤ '9' then some (c.toNat - '0'.toNat)
  else if 'a' ≤ c ∧ c ≤ 'f' then some (c.toNat - 'a'.toNat + 10)
  else none

def decChars : List Char → Option Line
  | [] => some []
  | a :: b :: rest => do
      let x ← hexVal a
      let y ← hexVal b
      let r ← decChars rest
      pure (Char.ofNat (16 * x + y) :: r)
  | _ => none

def dec (s : String) : Option Line := if s == "-" then some [] else decChars s.toList

def hexDigit (n : Nat) : Char := if n < 10 then Char.ofNat ('0'.toNat + n) else Char.ofNat ('a'.toNat + n - 10)

def enc (l : Line) : String :=
  if l.isEmpty then "-" else String.ofList (l.flatMap fun c => [hexDigit (c.toNat / 16 % 16), hexDigit (c.toNat % 16)])

def showLines : Option (List Line) → String
  | none => "T none"
  | some ls => "T" ++ String.join (ls.map fun l => " " ++ enc l)

def run : List String → Option String
  | "merge" :: d :: rm :: ls => do
      let dl ← dec d
      let dc ← dl.head?
      let lines ← ls.mapM dec
      pure (showLines (merge dc (rm == "1") lines))
  | "all" :: ls => do
      let lines ← ls.mapM dec
      pure (showLines (mergeAll lines))
  | "clean" :: ls => do
      let lines ← ls.mapM dec
      pure (showLines (some (cleanLines lines)))
  | ["rpnv", e] => do
      let l ← dec e
      pure (match rpnValid l with | none => "T none" | some b => if b then "T 1" else "T 0")
  | ["rpni", e] => do
      let l ← dec e
      pure (showLines ((rpnInfix l).map fun x => [x]))
  | _ => none

end DrvText
