import CheetahModel.Reverse
/-! Driver op `rev`: a program in prefix form is evaluated and differentiated by the reverse-mode model at `Float`.
`rev <n> <x_0> … <x_{n-1}> <tokens…>`; tokens: `v<i>`, `c<bits>`, `add sub mul div neg sin cos sinh cosh sqrt exp log atan`,
`wlt p q x y`, `weq p q x y`.  Reply: value, then the gradient w.r.t. each of the `n` variables (bit patterns). -/
namespace DrvRev

def parseBits (s : String) : Option Float := s.toNat?.map fun n => Float.ofBits n.toUInt64

partial def parse : List String → Option (Ex Float × List String)
  | [] => none
  | t :: rest =>
    let un (k : Ex Float → Ex Float) := do let (a, r) ← parse rest; pure (k a, r)
    let bin (k : Ex Float → Ex Float → Ex Float) := do
      let (a, r) ← parse rest; let (b, r) ← parse r; pure (k a b, r)
    let quad (k : Ex Float → Ex Float → Ex Float → Ex Float → Ex Float) := do
      let (p, r) ← parse rest; let (q, r) ← parse r; let (x, r) ← parse r; let (y, r) ← parse r; pure (k p q x y, r)
    match t with
    | "add" => bin .add | "sub" => bin .sub | "mul" => bin .mul | "div" => bin .div
    | "neg" => un .neg | "sin" => un .sin | "cos" => un .cos | "sinh" => un .sinh | "cosh" => un .cosh
    | "sqrt" => un .sqrt | "exp" => un .exp | "log" => un .log | "atan" => un .atan
    | "wlt" => quad .whereLt | "weq" => quad .whereEq
    | _ =>
      if t.startsWith "v" then (t.drop 1).toString.toNat?.map fun i => (Ex.var i, rest)
      else if t.startsWith "c" then (parseBits (t.drop 1).toString).map fun c => (Ex.const c, rest)
      else none

def fmt (x : Float) : String := toString x.toBits.toNat

def run (args : List String) : Option String := do
  let n ← args.head? >>= String.toNat?
  let xs ← (args.drop 1 |>.take n).mapM parseBits
  if xs.length ≠ n then none
  let (e, r) ← parse (args.drop (n + 1))
  if !r.isEmpty then none
  let arr := xs.toArray
  let env : Nat → Float := fun i => arr.getD i 0.0
  let g := e.back env 1.0 (fun _ => 0.0)
  pure (" ".intercalate ((fmt (e.val env)) :: (List.range n).map fun i => fmt (g i)))
end DrvRev
