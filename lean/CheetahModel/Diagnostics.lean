import CheetahModel.Beam
/-!
# Diagnostics: screen binning / pixel index / histogram image, BPM centroid, the screen's reading cache
(`screen.py`, `bpm.py`)
-/
open Scalar
variable {α : Type} [Scalar α]

/-- `torch.linspace(lo, hi, n+1)[i]` as torch computes it: from the start for the first half, from the end for
the second half -/
def linspaceAt (lo hi : α) (n i : Nat) : α :=
  let step := (hi - lo) / ofNat n
  if i < (n + 1) / 2 then lo + step * ofNat i else hi - step * ofNat (n - i)

/-- bin index of `x` among `n` bins with edges `linspaceAt lo hi n ·` as `torch.histogramdd` assigns it:
`edges[i] ≤ x < edges[i+1]`, the last bin closed on the right; `none` outside -/
def binIndex (lo hi : α) (n : Nat) (x : α) : Option Nat :=
  let rec go (i : Nat) (fuel : Nat) : Option Nat :=
    match fuel with
    | 0 => none
    | fuel + 1 =>
        let a := linspaceAt lo hi n i
        let b := linspaceAt lo hi n (i + 1)
        if leb a x && (ltb x b || (i + 1 == n && leb x b)) then some i else go (i + 1) fuel
  go 0 n

structure ScreenP (α : Type) where
  resW : Nat
  resH : Nat
  binning : Nat
  pxW : α
  pxH : α
  dx : α
  dy : α

/-- `effective_resolution` -/
def ScreenP.effW (s : ScreenP α) : Nat := s.resW / s.binning
def ScreenP.effH (s : ScreenP α) : Nat := s.resH / s.binning

/-- pixel `(row, col)` of `Screen.reading` (histogram method) that a particle at `(x, y)` falls into: the
misalignment is subtracted, `histogramdd` bins x and y, the image is `flipud(image.T)` (row 0 = top) -/
def pixelOf (s : ScreenP α) (x y : α) : Option (Nat × Nat) :=
  let xs := x - s.dx
  let ys := y - s.dy
  let hw := ofNat s.resW * s.pxW / 2.0
  let hh := ofNat s.resH * s.pxH / 2.0
  match binIndex (-hw) hw s.effW xs, binIndex (-hh) hh s.effH ys with
  | some ix, some iy => some (s.effH - 1 - iy, ix)
  | _, _ => none

/-- histogram image: entry `(row, col)` = sum of the weights (charge × survival) of the particles in that pixel -/
def histImage (s : ScreenP α) (pts : List (α × α × α)) (row col : Nat) : α :=
  listSum (pts.map fun p => if pixelOf s p.1 p.2.1 == some (row, col) then p.2.2 else 0.0)

/-- total of the histogram image -/
def histTotal (s : ScreenP α) (pts : List (α × α × α)) : α :=
  listSum (pts.map fun p => if (pixelOf s p.1 p.2.1).isSome then p.2.2 else 0.0)

/-- `BPM.reading` = (mu_x, mu_y) of the passing beam -/
def bpmReading (b : MBeam α) : α × α := (b.mu.a0, b.mu.a2)

/-! ## the screen's read-beam / cached-reading state machine (`set_read_beam`, `reading`) -/

/-- abstract screen state: the beam stored by the last active `track` and the cached image (if computed) -/
structure ScreenState (B I : Type) where
  readBeam : Option B
  cached : Option I

inductive ScreenOp (B : Type) where
  | track (active : Bool) (b : B)     -- `track(incoming)`
  | read                              -- `.reading`

/-- one step; `img` renders a stored beam (`none` → the empty image) -/
def screenStep {B I : Type} (img : Option B → I) (st : ScreenState B I) : ScreenOp B → ScreenState B I × Option I
  | .track active b =>
      if active then ({ readBeam := some b, cached := none }, none)   -- `set_read_beam` clears the cache
      else (st, none)
  | .read =>
      match st.cached with
      | some i => (st, some i)
      | none => let i := img st.readBeam; ({ st with cached := some i }, some i)

def screenRun {B I : Type} (img : Option B → I) (st : ScreenState B I) : List (ScreenOp B) → ScreenState B I
  | [] => st
  | op :: ops => screenRun img (screenStep img st op).1 ops
