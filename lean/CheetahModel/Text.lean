/-!
# Textual front end shared by the Elegant and Bmad importers

Model of `cheetah/converters/utils/fortran_namelist.py`
(`read_clean_lines` without the `call, file =` inclusion, `merge_delimiter_continued_lines`) and of
`cheetah/converters/utils/rpn.py`.  Lines are `List Char`; the driver converts from and to `String`.

Python's `IndexError` (a continuation mark on the last physical line that is reached by an absorption) is `none`.
-/
namespace Text

abbrev Line := List Char

/-- `str.endswith(d)` for a one-character `d` -/
def endsWith (l : Line) (d : Char) : Bool := l.getLast? == some d

/-- the characters `str.strip()` removes, restricted to ASCII -/
def isWs (c : Char) : Bool :=
  c == ' ' || c == '\t' || c == '\n' || c == '\r' || c == '\x0b' || c == '\x0c' ||
  c == '\x1c' || c == '\x1d' || c == '\x1e' || c == '\x1f'

def stripL (l : Line) : Line := l.dropWhile isWs
/-- remove trailing white space -/
def stripR : Line → Line
  | [] => []
  | c :: cs =>
    match stripR cs with
    | [] => if isWs c then [] else [c]
    | r => c :: r
/-- `str.strip()` -/
def strip (l : Line) : Line := stripR (stripL l)

/-- `re.sub(r"!.*", "", line)` on a line without line break -/
def dropComment (l : Line) : Line := l.takeWhile (· != '!')

/-- `read_clean_lines` on a file without `call, file =` lines: strip, drop the comment, drop empty lines,
lower-case, strip again -/
def cleanLines (ls : List Line) : List Line :=
  (((ls.map strip).map dropComment).filter (· != [])).map fun l => strip (l.map Char.toLower)

/-- one absorption step of `merge_delimiter_continued_lines`: `cur` ends with the mark and swallows `r` -/
def glue (rm : Bool) (cur r : Line) : Line := (if rm then cur.dropLast else cur) ++ r

/--
`merge_delimiter_continued_lines` before the final `strip`.  `acc = some cur`: line `cur` ends with the mark and is
absorbing; `acc = none`: between statements.  The last physical line never starts an absorption
(`for i in range(len(lines) - 1)`); an absorption that runs past the last line is Python's `IndexError`.
-/
def mergeGo (d : Char) (rm : Bool) : Option Line → List Line → Option (List Line)
  | none, [] => some []
  | none, [l] => some [l]
  | none, l :: r :: rs =>
      if endsWith l d then mergeGo d rm (some l) (r :: rs)
      else (mergeGo d rm none (r :: rs)).map (l :: ·)
  | some _, [] => none
  | some cur, r :: rs =>
      if endsWith (glue rm cur r) d then mergeGo d rm (some (glue rm cur r)) rs
      else (mergeGo d rm none rs).map (glue rm cur r :: ·)

/-- `merge_delimiter_continued_lines(lines, delimiter=d, remove_delimiter=rm)` -/
def merge (d : Char) (rm : Bool) (ls : List Line) : Option (List Line) :=
  (mergeGo d rm none ls).map (·.map strip)

/-- the three passes both converters run: `&` (removed), `,` and `{` (kept) -/
def contPasses : List (Char × Bool) := [('&', true), (',', false), ('{', false)]

def mergeAll (ls : List Line) : Option (List Line) :=
  contPasses.foldlM (fun acc (p : Char × Bool) => merge p.1 p.2 acc) ls

/-! ## reverse Polish notation (`rpn.py`) -/

/-- `s.split(" ")` -/
def splitSp : Line → List Line
  | [] => [[]]
  | c :: cs =>
    match splitSp cs with
    | [] => [[]]              -- unreachable: `splitSp` never returns `[]`
    | w :: ws => if c == ' ' then [] :: w :: ws else (c :: w) :: ws

/-- `is_valid_expression`; `none` is Python's `IndexError` on an all-blank expression -/
def rpnValid (e : Line) : Option Bool :=
  let s := strip e
  match s.getLast? with
  | none => none
  | some c => some ((c == '+' || c == '-' || c == '/' || c == '*') && (splitSp s).length == 3)

/-- the infix text `eval_expression` hands to `eval`: `a b op ↦ a op b`; `none` is `IndexError` -/
def rpnInfix (e : Line) : Option Line :=
  match splitSp (strip e) with
  | a :: b :: op :: _ => some (a ++ ' ' :: op ++ ' ' :: b)
  | _ => none

end Text
