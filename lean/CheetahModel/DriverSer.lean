import CheetahModel.Serialise
/-!
Driver op for the LatticeJSON model: `ser <tree tokens> Q <name> <name> …`

tree tokens: `L name cls k key val …` (leaf with k parameters) | `S name n <n trees>` (segment).
Reply (one line, starts with `T `): for every queried name the entry of the `elements` and of the `lattices`
dictionary written by `NLat.conv`, then the tree `NLat.parse` reads back from the root name (`none` if it fails).
-/
namespace DrvSer
open NLat

def takePairs : Nat → List String → Option (List (String × String) × List String)
  | 0, rest => some ([], rest)
  | k + 1, a :: b :: rest => (takePairs k rest).map fun (ps, r) => ((a, b) :: ps, r)
  | _, _ => none

mutual
def parseTree : Nat → List String → Option (NLat × List String)
  | 0, _ => none
  | _ + 1, "L" :: n :: cls :: k :: rest =>
      match k.toNat? with
      | none => none
      | some k => (takePairs k rest).map fun (ps, r) => (.leaf n ⟨cls, ps⟩, r)
  | f + 1, "S" :: n :: k :: rest =>
      match k.toNat? with
      | none => none
      | some k => (parseMany f k rest).map fun (items, r) => (.seg n items, r)
  | _, _ => none
def parseMany : Nat → Nat → List String → Option (List NLat × List String)
  | _, 0, rest => some ([], rest)
  | 0, _, _ => none
  | f + 1, k + 1, rest =>
      match parseTree f rest with
      | none => none
      | some (t, r) => (parseMany f k r).map fun (ts, r') => (t :: ts, r')
end

mutual
def showT : NLat → String
  | .leaf n e => s!"L {n} {e.cls} {e.params.length}" ++ String.join (e.params.map fun (k, v) => s!" {k} {v}")
  | .seg n items => s!"S {n} {items.length}" ++ showL items
def showL : List NLat → String
  | [] => ""
  | t :: ts => " " ++ showT t ++ showL ts
end

def showERec (e : ERec) : String := e.cls ++ String.join (e.params.map fun (k, v) => s!",{k}={v}")

def run (toks : List String) : Option String :=
  match parseTree 200 toks with
  | some (t, "Q" :: qs) =>
      let d := conv t Dict.empty
      let es := qs.map fun q => match d.elements q with | some e => s!"{q}:{showERec e}" | none => s!"{q}:-"
      let ls := qs.map fun q => match d.lattices q with | some c => s!"{q}:[{",".intercalate c}]" | none => s!"{q}:-"
      let p := match parse d 64 t.name with | some t' => showT t' | none => "none"
      some s!"T E {" ".intercalate es} | L {" ".intercalate ls} | P {p}"
  | _ => none
end DrvSer
