import CheetahModel.Properties.C05
#print axioms C05.focusing_cos_gradient
#print axioms C05.focusing_sin_gradient
#print axioms C05.quad_r10_gradient
#print axioms C05.guard_transparent
#print axioms C05.guard_kills_gradient_at_zero
#print axioms C05.ad_sound_arith
#print axioms C05.ad_sound_functions
#print axioms C05.ad_sound_leaves
#print axioms C05.drift_r56_energy_gradient
#print axioms C05.reverse_eq_forward
#print axioms C05.forward_is_derivative
#print axioms C05.reverse_is_gradient
#print axioms C05.reverse_gradient_at_guard
#print axioms C05.focusing_reverse_gradient
