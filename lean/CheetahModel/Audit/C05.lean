import CheetahModel.Properties.C05
#print axioms C05.focusing_cos_gradient
#print axioms C05.focusing_sin_gradient
#print axioms C05.quad_r10_gradient
#print axioms C05.guard_transparent
#print axioms C05.guard_kills_gradient_at_zero
