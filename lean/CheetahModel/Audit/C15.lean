import CheetahModel.Properties.C15
#print axioms C15.clone_attrs_covered
#print axioms C15.flags_are_features
