import CheetahModel.Properties.C11
#print axioms C11.run_eq_final
#print axioms C11.history_eq_fresh
#print axioms C11.track_pure
#print axioms C11.reading_is_last_beam
#print axioms C11.cache_coherent
#print axioms C11.merged_probe_beam_is_the_tracked_beam
