import CheetahModel.Properties.C09
#print axioms C09.hcor_off
#print axioms C09.vcor_off
#print axioms C09.undulator_is_drift
#print axioms C09.solenoid_off
#print axioms C09.cavity_off_map
#print axioms C09.cavity_off_track
#print axioms C09.tdc_off
#print axioms C09.zero_length_identity
#print axioms C09.guard_bound_cos
#print axioms C09.bmadx_quad_off_bound
