import CheetahModel.Properties.C07
#print axioms C07.drift_kernel_flow
#print axioms C07.drift_kernel_zero
#print axioms C07.drift_element_flow
#print axioms C07.drift_straight_line
#print axioms C07.drift_momenta
#print axioms C07.tdc_zero_voltage_is_drift
#print axioms C07.quad_body_flow
#print axioms C07.quad_num_steps_independent
#print axioms C07.drift_r56_closed
#print axioms C07.drift_jacobian_is_linear_map
#print axioms C07.quad_onmomentum_is_linear_map
#print axioms C07.quad_transverse_jacobian
