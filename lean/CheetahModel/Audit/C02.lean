import CheetahModel.Properties.C02
