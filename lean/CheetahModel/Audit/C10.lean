import CheetahModel.Properties.C10
#print axioms C10.element
#print axioms C10.lattice
#print axioms C10.survival_unit_interval
#print axioms C10.aperture_exact
#print axioms C10.aperture_rect_mask
#print axioms C10.aperture_ellipse_mask
#print axioms C10.aperture_inactive
#print axioms C10.energy_bookkeeping
#print axioms C10.blocking_screen
#print axioms C10.zero_stays_zero
#print axioms C10.mean_of_survivors
#print axioms C10.variance_of_survivors
#print axioms C10.charge_of_survivors
#print axioms C10.wmean_model
