import CheetahModel.Properties.C13
#print axioms C13.converter_table_eq_spec
#print axioms C13.elegant_cavity_convention
