import CheetahModel.Properties.C13
#print axioms C13.converter_table_eq_spec
#print axioms C13.elegant_cavity_convention
#print axioms C13.continuation_passes_are_modelled
#print axioms C13.continuation_blocks
#print axioms C13.continuation_keeps_text
#print axioms C13.continuation_removes_only_marks
#print axioms C13.continuation_identity
#print axioms C13.continuation_never_grows
#print axioms C13.cleaned_lines
#print axioms C13.rpn_is_infix
#print axioms C13.nx_centres_at_tabulated_positions
#print axioms C13.nx_accepts_iff_no_overlap
#print axioms C13.statement_assign_property_once
#print axioms C13.statement_last_use_wins
#print axioms C13.line_expansion
#print axioms C13.wildcard_semantics
#print axioms C13.statement_define_element
