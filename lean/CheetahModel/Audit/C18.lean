import CheetahModel.Properties.C18
#print axioms C18.tau_delta_roundtrip
#print axioms C18.z_pz_roundtrip
#print axioms C18.definitions
#print axioms C18.si_roundtrip
#print axioms C18.energy_momentum
