import CheetahModel.Properties.C20
#print axioms C20.pixel_spec
#print axioms C20.bin_spec
#print axioms C20.bpm_centroid
#print axioms C20.reading_is_last_beam
#print axioms C20.inactive_pass
#print axioms C20.histogram_sums_to_charge_inside
#print axioms C20.histogram_nonneg
