import CheetahModel.Properties.C08
#print axioms C08.merge_track
#print axioms C08.merge_keeps
#print axioms C08.drop_identity_track
#print axioms C08.replace_equal_track
#print axioms C08.filter_keeps
#print axioms C08.merge_track_particle_beam
#print axioms C08.marker_identity
#print axioms C08.skippability_table
#print axioms C08.energy_changing_or_nonlinear_not_skippable
#print axioms C08.merge_arrivals
