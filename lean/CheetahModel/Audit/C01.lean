import CheetahModel.Properties.C01
#print axioms C01.track_seg_eq_fold
#print axioms C01.seq_is_fold
#print axioms C01.track_nest
#print axioms C01.track_flatten
#print axioms C01.track_cut
#print axioms C01.subcell_spec
#print axioms C01.length_flatten
#print axioms C01.length_append
#print axioms C01.particle_beam_semantics_lawful
#print axioms C01.parameter_beam_semantics_lawful
#print axioms C01.particle_beam
#print axioms C01.parameter_beam
#print axioms C01.skippability_table
#print axioms C01.energy_changing_or_nonlinear_not_skippable
