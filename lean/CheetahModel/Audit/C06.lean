import CheetahModel.Properties.C06
#print axioms C06.moments_commute
#print axioms C06.linear_elements
#print axioms C06.linear_segments
#print axioms C06.cov_psd
#print axioms C06.cov_symm
#print axioms C06.energy_agree
#print axioms C06.cavity_transverse_linear
