import CheetahModel.Properties.C12
#print axioms C12.no_new_default_dtype_sites
#print axioms C12.split_forwards_dtype
#print axioms C12.f32_speed_of_light_error
#print axioms C12.f32_roundtrip_tenth
