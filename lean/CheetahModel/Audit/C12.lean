import CheetahModel.Properties.C12
#print axioms C12.no_new_default_dtype_sites
#print axioms C12.split_forwards_dtype
#print axioms C12.f32_speed_of_light_error
#print axioms C12.f32_roundtrip_tenth
#print axioms C12.f64_in_f64_out
#print axioms C12.f64_independent_of_default
#print axioms C12.promotion_commutes
#print axioms C12.promotion_traps
