import CheetahModel.Properties.C14
#print axioms C14.features_cover_ctor
#print axioms C14.features_accepted
#print axioms C14.table_nonvacuous
#print axioms C14.roundtrip
