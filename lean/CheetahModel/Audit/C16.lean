import CheetahModel.Properties.C16
#print axioms C16.lengths_add_up
#print axioms C16.piece_le_resolution
#print axioms C16.at_least_one_piece
#print axioms C16.split_shape
#print axioms C16.quad_pieces_matrix
#print axioms C16.quad_pieces_track
#print axioms C16.drift_pieces_track
#print axioms C16.bmadx_drift_pieces
#print axioms C16.corrector_pieces
#print axioms C16.unsplittable
#print axioms C16.split_forwards_everything
#print axioms C16.vector_lengths
#print axioms C16.vector_at_least_one_piece
