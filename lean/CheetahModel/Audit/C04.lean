import CheetahModel.Properties.C04
#print axioms C04.base_batched_eq_map
#print axioms C04.quad_batched_eq_map
#print axioms C04.quad_no_crosstalk
#print axioms C04.dipole_batched_eq_map
#print axioms C04.dipole_code_refines_model
#print axioms C04.dipole_no_crosstalk
#print axioms C04.cavity_T566_crosstalk
