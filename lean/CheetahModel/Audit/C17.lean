import CheetahModel.Properties.C17
#print axioms C17.emittance_pos
#print axioms C17.beta_positive
#print axioms C17.beta_gamma_alpha
#print axioms C17.from_twiss_round_trip
#print axioms C17.moment_law
#print axioms C17.emittance_invariant
#print axioms C17.mean_perm
#print axioms C17.var_perm
#print axioms C17.mean_translate
#print axioms C17.mean_scale
#print axioms C17.var_translate
#print axioms C17.var_scale
#print axioms C17.mean_all_survive
#print axioms C17.var_all_survive
