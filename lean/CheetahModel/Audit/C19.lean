import CheetahModel.Properties.C19
#print axioms C19.kick_proportional_to_charge
#print axioms C19.kick_proportional_to_length
#print axioms C19.kick_vanishes_for_zero_charge
#print axioms C19.lost_particles_are_not_sources
#print axioms C19.deposit_linear_in_charge
#print axioms C19.positions_unchanged
#print axioms C19.deposit_order_independent
#print axioms C19.kick_order_independent
#print axioms C19.weights_partition_of_unity
#print axioms C19.deposit_conserves_charge
