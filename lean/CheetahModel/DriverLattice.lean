import CheetahModel.Lattice
import CheetahModel.Beam
/-!
# Driver ops for the segment algorithms on integer stub elements (exact correspondence, C01/C08)

Request: `lat <op> <stubs> <tree> <op-specific…>`; all tokens are decimal integers or brackets.
-/
open Scalar

namespace DrvLat

/-- a stub element: programmable skippability, two integer maps selected by the parity of the
energy (so that a map evaluated at the wrong energy is visible), an energy change, a length -/
structure Stub where
  idx : Nat
  skip : Bool
  dE : Int
  len : Int
  name : Int
  m0 : Mat7 Int
  m1 : Mat7 Int
  isCustom : Bool := false

def Stub.map (e : Stub) (en : Int) : Mat7 Int := if en % 2 == 0 then e.m0 else e.m1

def absX (v : Vec7 Int) : Vec7 Int := { v with a0 := Int.ofNat v.a0.natAbs }

/-- non-skippable stubs: the map, then a non-linear operation (|x|), then the energy change -/
def Stub.trackP (e : Stub) (b : PBeam Int) : PBeam Int :=
  if e.skip then PBeam.act (e.map b.energy) b
  else
    let o := PBeam.act (e.map b.energy) b
    { o with particles := o.particles.map absX, energy := o.energy + e.dE }

def Stub.trackM (e : Stub) (b : MBeam Int) : MBeam Int :=
  if e.skip then MBeam.act (e.map b.energy) b
  else
    let o := MBeam.act (e.map b.energy) b
    { o with mu := absX o.mu, energy := o.energy + e.dE }

def semP : Sem Stub (PBeam Int) (Mat7 Int) Int where
  one := Mat7.one
  mul := Mat7.mul
  skippable := Stub.skip
  map := Stub.map
  track := Stub.trackP
  act := PBeam.act
  energy := PBeam.energy

def semM : Sem Stub (MBeam Int) (Mat7 Int) Int where
  one := Mat7.one
  mul := Mat7.mul
  skippable := Stub.skip
  map := Stub.map
  track := Stub.trackM
  act := MBeam.act
  energy := MBeam.energy

def customP : Lat.Custom semP where
  mkE := fun m => { idx := 0, skip := true, dE := 0, len := 0, name := -1, m0 := m, m1 := m, isCustom := true }
  skippable := fun _ => rfl
  map := fun m en => by simp [semP, Stub.map]

def customM : Lat.Custom semM where
  mkE := fun m => { idx := 0, skip := true, dE := 0, len := 0, name := -1, m0 := m, m1 := m, isCustom := true }
  skippable := fun _ => rfl
  map := fun m en => by simp [semM, Stub.map]

/-! ## token parser -/

abbrev Parser := StateT (List String) Option

def tok : Parser String := do
  match (← get) with
  | [] => failure
  | t :: ts => set ts; pure t

def int : Parser Int := do
  let t ← tok
  match t.toInt? with
  | some n => pure n
  | none => failure

def nat : Parser Nat := do
  let n ← int
  if n < 0 then failure else pure n.toNat

def ints : Nat → Parser (List Int)
  | 0 => pure []
  | n + 1 => do let x ← int; let xs ← ints n; pure (x :: xs)

def mat : Parser (Mat7 Int) := do
  let l ← ints 49
  pure (Mat7.ofList l)

def vec : Parser (Vec7 Int) := do
  let l ← ints 7
  pure (Vec7.ofList l)

def stub (idx : Nat) : Parser Stub := do
  let sk ← int; let dE ← int; let len ← int; let name ← int
  let m0 ← mat; let m1 ← mat
  pure { idx := idx, skip := sk != 0, dE := dE, len := len, name := name, m0 := m0, m1 := m1 }

def stubs : Nat → Nat → Parser (List Stub)
  | 0, _ => pure []
  | n + 1, i => do let s ← stub i; let ss ← stubs n (i + 1); pure (s :: ss)

/-- named tree: `[ <name> item* ]`, item = `e<k>` or a nested tree; fuel-bounded -/
structure Named where
  name : Int

partial def tree (tbl : Array Stub) : Parser (Lat Stub × Int) := do
  let t ← tok
  if t == "[" then
    let name ← int
    let rec items (acc : List (Lat Stub)) : Parser (List (Lat Stub)) := do
      match (← get) with
      | "]" :: ts => set ts; pure acc.reverse
      | _ => let (l, _) ← tree tbl; items (l :: acc)
    let ls ← items []
    pure (.seg ls, name)
  else if t.startsWith "e" then
    match (t.drop 1).toString.toNat? with
    | some k => match tbl[k]? with
                | some s => pure (.elem s, s.name)
                | none => failure
    | none => failure
  else failure

def pbeam : Parser (PBeam Int) := do
  let en ← int; let n ← nat
  let rec go : Nat → Parser (List (Vec7 Int))
    | 0 => pure []
    | k + 1 => do let v ← vec; let vs ← go k; pure (v :: vs)
  let ps ← go n
  pure { particles := ps, energy := en, charges := [], survival := [] }

def mbeam : Parser (MBeam Int) := do
  let en ← int; let mu ← vec; let cov ← mat
  pure { mu := mu, cov := cov, energy := en, charge := 0 }

/-! ## printers -/

def showInts (l : List Int) : String := " ".intercalate (l.map toString)

def showP (b : PBeam Int) : String :=
  showInts (b.energy :: b.particles.flatMap Vec7.toList)

def showM (b : MBeam Int) : String :=
  showInts (b.energy :: (b.mu.toList ++ b.cov.toList))

/-- segment names are not kept in `Lat`; structure is printed with brackets -/
partial def showLat : Lat Stub → String
  | .elem s => if s.isCustom then "m(" ++ showInts s.m0.toList ++ ")" else s!"e{s.idx}"
  | .seg ls => "[ " ++ " ".intercalate (ls.map showLat) ++ " ]"

def showList (ls : List (Lat Stub)) : String := " ".intercalate (ls.map showLat)

/-- the name function used by `subcell`/`except_for`: leaf = stub name; nested segments carry the
name given in the request (looked up by position in a parallel list) -/
def leafName : Lat Stub → Int
  | .elem s => s.name
  | .seg _ => -2

/-- names of nested top-level segments are supplied separately: we re-parse the top level with names -/
partial def topNames (tbl : Array Stub) : Parser (List (Lat Stub × Int)) := do
  let t ← tok
  if t != "[" then failure
  let _ ← int
  let rec items (acc : List (Lat Stub × Int)) : Parser (List (Lat Stub × Int)) := do
    match (← get) with
    | "]" :: ts => set ts; pure acc.reverse
    | _ => let x ← tree tbl; items (x :: acc)
  items []

def run (toks : List String) : Option String := do
  let p : Parser String := do
    let op ← tok
    let n ← nat
    let ss ← stubs n 0
    let tbl := ss.toArray
    match op with
    | "trackP" => do
        let (l, _) ← tree tbl; let b ← pbeam
        pure ("T " ++ showP (Lat.track semP l b))
    | "trackM" => do
        let (l, _) ← tree tbl; let b ← mbeam
        pure ("T " ++ showM (Lat.track semM l b))
    | "seqP" => do     -- element-by-element reference
        let (l, _) ← tree tbl; let b ← pbeam
        match l with
        | .seg ls => pure ("T " ++ showP (Lat.seq semP ls b))
        | _ => failure
    | "skip" => do
        let (l, _) ← tree tbl
        pure ("T " ++ (if Lat.skip semP l then "1" else "0"))
    | "tmap" => do
        let (l, _) ← tree tbl; let en ← int
        if Lat.skip semP l then pure ("T " ++ showInts (Lat.tmap semP en l).toList) else pure "T NONE"
    | "flat" => do
        let (l, _) ← tree tbl
        pure ("T " ++ showList (Lat.flat l))
    | "length" => do
        let (l, _) ← tree tbl
        pure ("T " ++ toString (Lat.length (0 : Int) (· + ·) Stub.len l))
    | "subcell" => do
        let items ← topNames tbl
        let s ← int; let e ← int
        -- names of top-level items (leaf or nested segment) come from the request
        let named := items
        let sel := Lat.subcell (E := Stub × Int) (fun l => match l with | .elem x => x.2 | .seg _ => -2) s e
                    (named.map fun (l, nm) => Lat.elem (⟨0, true, 0, 0, nm, Mat7.one, Mat7.one, false⟩, nm))
        -- map back by name order: print the names selected
        pure ("T " ++ showInts (sel.map fun l => match l with | .elem x => x.2 | .seg _ => -2))
    | "mergedP" => do
        let items ← topNames tbl
        let b ← pbeam
        let nk ← nat; let keeps ← ints nk
        let ls := items.map (·.1)
        -- except_for works on names of top-level items
        let nameOf (l : Lat Stub) : Int :=
          match items.find? (fun x => showLat x.1 == showLat l) with
          | some x => x.2
          | none => -3
        let keep := fun l => keeps.contains (nameOf l)
        pure ("T " ++ showList (Lat.merged semP customP keep ls b))
    | "mergedM" => do
        let items ← topNames tbl
        let b ← mbeam
        let nk ← nat; let keeps ← ints nk
        let ls := items.map (·.1)
        let nameOf (l : Lat Stub) : Int :=
          match items.find? (fun x => showLat x.1 == showLat l) with
          | some x => x.2
          | none => -3
        let keep := fun l => keeps.contains (nameOf l)
        pure ("T " ++ showList (Lat.merged semM customM keep ls b))
    | "arrP" => do
        let items ← topNames tbl
        let b ← pbeam
        let nk ← nat; let keeps ← ints nk
        let ls := items.map (·.1)
        let nameOf (l : Lat Stub) : Int :=
          match items.find? (fun x => showLat x.1 == showLat l) with
          | some x => x.2
          | none => -3
        let keep := fun l => keeps.contains (nameOf l)
        pure ("T " ++ " | ".intercalate ((Lat.arrivals semP customP keep ls b).map showP))
    | "arrM" => do
        let items ← topNames tbl
        let b ← mbeam
        let nk ← nat; let keeps ← ints nk
        let ls := items.map (·.1)
        let nameOf (l : Lat Stub) : Int :=
          match items.find? (fun x => showLat x.1 == showLat l) with
          | some x => x.2
          | none => -3
        let keep := fun l => keeps.contains (nameOf l)
        pure ("T " ++ " | ".intercalate ((Lat.arrivals semM customM keep ls b).map showM))
    | _ => failure
  (p.run toks).map (·.1)

end DrvLat
