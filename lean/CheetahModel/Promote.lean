/-!
# PyTorch's type promotion for the operand kinds Cheetah mixes (C12)

Cheetah's arithmetic mixes dimensioned tensors (particles `(…, N, 7)`, covariances), zero-dimensional tensors (almost every
element setting: `length`, `k1`, `angle`, the beam energy …) and Python numbers (literals such as `2`, `0.5`, `1e-12`).
`torch.result_type` treats the three kinds differently (`c10::ResultTypeState`): each kind accumulates its own promoted
dtype, and the three are combined by *category* (bool < integer < floating), not by size — a zero-dimensional `float64`
tensor does **not** widen a dimensioned `float32` tensor, and a Python float never widens anything floating; it falls back to
the default dtype only when nothing floating is a tensor.  The model mirrors `result_type` / `combine_categories` and the
kind of the result of a binary operation; it is executed against `torch` (driver op `prom`).  No Mathlib.
-/
namespace Prom

inductive DT | bool | i64 | f32 | f64
  deriving DecidableEq, Repr

def DT.rank : DT → Nat | .bool => 0 | .i64 => 1 | .f32 => 2 | .f64 => 3
def DT.isFloat : DT → Bool | .f32 | .f64 => true | _ => false

/-- `c10::promoteTypes` on these four dtypes: the larger in the order bool < int64 < float32 < float64 -/
def promote (a b : DT) : DT := if a.rank ≤ b.rank then b else a

/-- `promote_skip_undefined` -/
def promoteU : Option DT → Option DT → Option DT
  | none, b => b
  | a, none => a
  | some a, some b => some (promote a b)

/-- `combine_categories(higher, lower)` -/
def combine (higher lower : Option DT) : Option DT :=
  match higher with
  | some h =>
    if h.isFloat then some h
    else if h = .bool || (match lower with | some l => l.isFloat | none => false) then promoteU higher lower
    else some h
  | none => lower

/-- operand kinds: a tensor with at least one dimension, a zero-dimensional tensor, a Python number -/
inductive Kind | dim | zero | py
  deriving DecidableEq, Repr

structure Opd where
  kind : Kind
  dt : DT            -- for a Python number: bool / i64 (int) / f64 (float — *its* dtype is the default dtype, see `wrapped`)
  deriving DecidableEq, Repr

/-- the dtype a Python number contributes: `bool`, `int64`, or the **default dtype** for a float -/
def wrapped (default : DT) (d : DT) : DT := if d.isFloat then default else d

/-- `torch.result_type(a, b)` -/
def resultType (default : DT) (a b : Opd) : DT :=
  let slot (k : Kind) : Option DT :=
    let pick (o : Opd) : Option DT :=
      if o.kind = k then some (if k = .py then wrapped default o.dt else o.dt) else none
    promoteU (pick a) (pick b)
  match combine (slot .dim) (combine (slot .zero) (slot .py)) with
  | some d => d
  | none => .f32    -- unreachable: one of the three slots is filled

/-- what a binary arithmetic operation returns: a dimensioned tensor if an operand is one, else a zero-dimensional tensor if
an operand is a tensor, else a Python number (computed by Python: bool/int/float arithmetic) -/
def binop (default : DT) (a b : Opd) : Opd :=
  if a.kind = .py ∧ b.kind = .py then
    ⟨.py, promote (if a.dt = .bool then .i64 else a.dt) (if b.dt = .bool then .i64 else b.dt)⟩   -- `True + True = 2`
  else
    ⟨if a.kind = .dim ∨ b.kind = .dim then .dim else .zero, resultType default a b⟩

/-- arithmetic expressions -/
inductive Tree where
  | leaf (o : Opd)
  | node (l r : Tree)
  deriving Repr

def Tree.eval (default : DT) : Tree → Opd
  | .leaf o => o
  | .node l r => binop default (l.eval default) (r.eval default)

/-- every tensor leaf is `float64`; Python numbers are unrestricted -/
def Tree.AllF64 : Tree → Prop
  | .leaf o => o.kind = .py ∨ o.dt = .f64
  | .node l r => l.AllF64 ∧ r.AllF64

end Prom
