import CheetahModel.Maps
/-!
# Bmad-X tracking kernels (`cheetah/utils/bmadx.py`) and the Bmad-X `track` of Drift, Quadrupole,
Dipole, TransverseDeflectingCavity — per particle, mirroring the Python operation by operation
(masks applied by multiplication, `torch.sinc`, the `+eps` under the square root, …).
-/
open Scalar
variable {α : Type} [Scalar α]

/-- a particle in Bmad coordinates -/
structure BP (α : Type) where
  x : α
  px : α
  y : α
  py : α
  z : α
  pz : α

structure ZPz (α : Type) where
  z : α
  pz : α
  p0c : α

structure TauDelta (α : Type) where
  tau : α
  delta : α
  refE : α

/-- `cheetah_to_bmad_z_pz(tau, delta, ref_energy, mc2)` -/
def toBmad (tau delta E0 mc2 : α) : ZPz α :=
  let p0c := sqrt (E0 * E0 - mc2 * mc2)
  let energy := E0 + delta * p0c
  let p := sqrt (energy * energy - mc2 * mc2)
  let beta := p / energy
  { z := -beta * tau, pz := (p - p0c) / p0c, p0c := p0c }

/-- `bmad_to_cheetah_z_pz(z, pz, p0c, mc2)` -/
def toCheetah (z pz p0c mc2 : α) : TauDelta α :=
  let E0 := sqrt (p0c * p0c + mc2 * mc2)
  let p := (1.0 + pz) * p0c
  let energy := sqrt (p * p + mc2 * mc2)
  let beta := p / energy
  { tau := -z / beta, delta := (energy - E0) / p0c, refE := E0 }

/-- `sqrt_one(x) = sqrt(1+x) - 1`, computed as `x / (sqrt(1+x) + 1)` -/
def sqrtOne (x : α) : α := x / (sqrt (1.0 + x) + 1.0)

/-- `track_a_drift` -/
def trackADrift (L : α) (p : BP α) (p0c mc2 : α) : BP α :=
  let P := 1.0 + p.pz
  let Px := p.px / P
  let Py := p.py / P
  let Pxy2 := Px * Px + Py * Py
  let Pl := sqrt (1.0 - Pxy2)
  let dz := L * (sqrtOne ((mc2 * mc2 * (2.0 * p.pz + p.pz * p.pz)) / ((p0c * P) * (p0c * P) + mc2 * mc2))
                 + sqrtOne (-Pxy2) / Pl)
  { p with x := p.x + L * Px / Pl, y := p.y + L * Py / Pl, z := p.z + dz }

/-- `low_energy_z_correction(pz, p0c, mc2, ds)` -/
def lowEnergyZ (pz p0c mc2 ds : α) : α :=
  let beta := (1.0 + pz) * p0c / sqrt (((1.0 + pz) * p0c) * ((1.0 + pz) * p0c) + mc2 * mc2)
  let beta0 := p0c / sqrt (p0c * p0c + mc2 * mc2)
  let e_tot := sqrt (p0c * p0c + mc2 * mc2)
  let evaluation := mc2 * ((beta0 * pz) * (beta0 * pz))
  let r := mc2 / e_tot
  mulMask (ds * pz * (1.0 - 3.0 * (pz * (beta0 * beta0)) / 2.0
              + pz * pz * (beta0 * beta0) * (2.0 * (beta0 * beta0) - r * r / 2.0)) * (r * r))
      (ltb evaluation (3e-7 * e_tot))
    + mulMask (ds * (beta - beta0) / beta0) (leb (3e-7 * e_tot) evaluation)

structure QCoef (α : Type) where
  a11 : α
  a12 : α
  a21 : α
  a22 : α
  c1 : α
  c2 : α
  c3 : α

/-- `calculate_quadrupole_coefficients(k1, length, rel_p, eps)` -/
def quadCoef (k1 L relp eps : α) : QCoef α :=
  let sqrt_k := sqrt (abs k1 + eps)
  let sk_l := sqrt_k * L
  let cx := mulMask (cos sk_l) (leb k1 0.0) + mulMask (cosh sk_l) (ltb 0.0 k1)
  let sx := mulMask (sin sk_l / sqrt_k) (leb k1 0.0) + mulMask (sinh sk_l / sqrt_k) (ltb 0.0 k1)
  { a11 := cx, a12 := sx / relp, a21 := k1 * sx * relp, a22 := cx,
    c1 := k1 * (-cx * sx + L) / 4.0,
    c2 := -k1 * (sx * sx) / (2.0 * relp),
    c3 := -(cx * sx + L) / (4.0 * (relp * relp)) }

/-- `offset_particle_set` -/
def offsetSet (xo yo tilt : α) (p : BP α) : BP α :=
  let s := sin tilt
  let c := cos tilt
  let xi := p.x - xo
  let yi := p.y - yo
  { p with x := xi * c + yi * s, y := -xi * s + yi * c,
           px := p.px * c + p.py * s, py := -p.px * s + p.py * c }

/-- `offset_particle_unset` -/
def offsetUnset (xo yo tilt : α) (p : BP α) : BP α :=
  let s := sin tilt
  let c := cos tilt
  let xi := p.x * c - p.y * s
  let yi := p.x * s + p.y * c
  { p with x := xi + xo, y := yi + yo,
           px := p.px * c - p.py * s, py := p.px * s + p.py * c }

/-- `bmadx.sinc(x) = torch.sinc(x / pi)` -/
def sincB (pi x : α) : α :=
  let t := x / pi
  if eqb t 0.0 then 1.0 else sin (pi * t) / (pi * t)

/-- `bmadx.cosc(x) = -0.5 * sinc(x/2)**2` -/
def coscB (pi x : α) : α :=
  let s := sincB pi (x / 2.0)
  let r := -0.5 * (s * s)
  r

/-- to Bmad coordinates, from a Cheetah particle vector -/
def vecToBP (v : Vec7 α) (E0 mc2 : α) : BP α × α :=
  let zp := toBmad v.a4 v.a5 E0 mc2
  ({ x := v.a0, px := v.a1, y := v.a2, py := v.a3, z := zp.z, pz := zp.pz }, zp.p0c)

/-- back to a Cheetah particle vector (and the reference energy) -/
def bpToVec (p : BP α) (p0c mc2 : α) : Vec7 α × α :=
  let td := toCheetah p.z p.pz p0c mc2
  (⟨p.x, p.px, p.y, p.py, td.tau, td.delta, 1.0⟩, td.refE)

/-- `Drift._track_bmadx` for one particle -/
def bmadxDrift (L : α) (v : Vec7 α) (E0 mc2 : α) : Vec7 α × α :=
  let (p, p0c) := vecToBP v E0 mc2
  bpToVec (trackADrift L p p0c mc2) p0c mc2

/-- one drift-kick-drift step of `Quadrupole._track_bmadx` -/
def bmadxQuadStep (L k1 stepL eps : α) (p : BP α) (p0c mc2 : α) : BP α :=
  let relp := 1.0 + p.pz
  let k := k1 / relp          -- (after the `fix:` commit; was `k1*L / (L*rel_p)`, NaN at L = 0)
  let tx := quadCoef (-k) stepL relp eps
  let ty := quadCoef k stepL relp eps
  let z := p.z + tx.c1 * (p.x * p.x) + tx.c2 * p.x * p.px + tx.c3 * (p.px * p.px)
              + ty.c1 * (p.y * p.y) + ty.c2 * p.y * p.py + ty.c3 * (p.py * p.py)
  let xn := tx.a11 * p.x + tx.a12 * p.px
  let pxn := tx.a21 * p.x + tx.a22 * p.px
  let yn := ty.a11 * p.y + ty.a12 * p.py
  let pyn := ty.a21 * p.y + ty.a22 * p.py
  { x := xn, px := pxn, y := yn, py := pyn, z := z + lowEnergyZ p.pz p0c mc2 stepL, pz := p.pz }

def iter {β : Type} (f : β → β) : Nat → β → β
  | 0, b => b
  | n + 1, b => iter f n (f b)

/-- `Quadrupole._track_bmadx` for one particle -/
def bmadxQuad (L k1 mx my tilt : α) (nsteps : Nat) (eps : α) (v : Vec7 α) (E0 mc2 : α) : Vec7 α × α :=
  let (p, p0c) := vecToBP v E0 mc2
  let stepL := L / ofNat nsteps
  let p := offsetSet mx my tilt p
  let p := iter (fun q => bmadxQuadStep L k1 stepL eps q p0c mc2) nsteps p
  let p := offsetUnset mx my tilt p
  bpToVec p p0c mc2

/-- `Dipole._bmadx_body` -/
def bmadxBendBody (pi L angle : α) (p : BP α) (p0c mc2 : α) : BP α :=
  let px_norm := sqrt ((1.0 + p.pz) * (1.0 + p.pz) - p.py * p.py)
  let phi1 := asin (p.px / px_norm)
  let g := angle / L
  let gp := g / px_norm
  let sA := sincB pi angle
  let alpha := 2.0 * (1.0 + g * p.x) * sin (angle + phi1) * L * sA
                 - gp * (((1.0 + g * p.x) * L * sA) * ((1.0 + g * p.x) * L * sA))
  let x2_t1 := p.x * cos angle + L * L * g * coscB pi angle
  let x2_t2 := sqrt (cos (angle + phi1) * cos (angle + phi1) + gp * alpha)
  let x2_t3 := cos (angle + phi1)
  let c1 := x2_t1 + alpha / (x2_t2 + x2_t3)
  let c2 := x2_t1 + (x2_t2 - x2_t3) / gp
  let temp := abs (angle + phi1)
  let x2 := mulMask c1 (ltb temp (pi / 2.0)) + mulMask c2 (leb (pi / 2.0) temp)
  let Lcu := x2 - L * L * g * coscB pi angle - p.x * cos angle
  let Lcv := -L * sincB pi angle - p.x * sin angle
  let theta_p := 2.0 * (angle + phi1 - pi / 2.0 - atan2 Lcv Lcu)
  let Lc := sqrt (Lcu * Lcu + Lcv * Lcv)
  let Lp := Lc / sincB pi (theta_p / 2.0)
  let P := p0c * (1.0 + p.pz)
  let E := sqrt (P * P + mc2 * mc2)
  let E0 := sqrt (p0c * p0c + mc2 * mc2)
  let beta := P / E
  let beta0 := p0c / E0
  { x := x2, px := px_norm * sin (angle + phi1 - theta_p), y := p.y + p.py * Lp / px_norm, py := p.py,
    z := p.z + (beta * L / beta0) - ((1.0 + p.pz) * Lp / px_norm), pz := p.pz }

/-- `Dipole._bmadx_fringe_linear` (entrance: `e1, fint, gap`; exit: `e2, fint_exit, gap_exit`) -/
def bmadxFringe (L angle e fint gap : α) (p : BP α) : BP α :=
  let g := angle / L
  let h_gap := 0.5 * gap
  let hx := g * tan e
  let hy := -g * tan (e - 2.0 * fint * h_gap * g * (1.0 + sin e * sin e) / cos e)
  { p with px := p.px + p.x * hx, py := p.py + p.y * hy }

structure BendP (α : Type) where
  L : α
  angle : α
  e1 : α
  e2 : α
  tilt : α
  gap : α
  gapx : α
  fint : α
  fintx : α
  fringeEntrance : Bool
  fringeExit : Bool

/-- `Dipole._track_bmadx` for one particle -/
def bmadxDipole (pi : α) (d : BendP α) (v : Vec7 α) (E0 mc2 : α) : Vec7 α × α :=
  let (p, p0c) := vecToBP v E0 mc2
  let p := offsetSet 0.0 0.0 d.tilt p
  let p := if d.fringeEntrance then bmadxFringe d.L d.angle d.e1 d.fint d.gap p else p
  let p := bmadxBendBody pi d.L d.angle p p0c mc2
  let p := if d.fringeExit then bmadxFringe d.L d.angle d.e2 d.fintx d.gapx p else p
  let p := offsetUnset 0.0 0.0 d.tilt p
  bpToVec p p0c mc2

/-- `particle_rf_time` -/
def rfTime (c : α) (z pz p0c mc2 : α) : α :=
  let beta := (1.0 + pz) * p0c / sqrt (((1.0 + pz) * p0c) * ((1.0 + pz) * p0c) + mc2 * mc2)
  let r := -z / (beta * c)
  r

/-- `TransverseDeflectingCavity._track_bmadx` for one particle -/
def bmadxTDC (k : Consts α) (L V phase freq mx my tilt : α) (v : Vec7 α) (E0 : α) : Vec7 α × α :=
  let mc2 := k.mc2
  let (p, p0c) := vecToBP v E0 mc2
  let p := offsetSet mx my tilt p
  let p := trackADrift (L / 2.0) p p0c mc2
  let voltage := V / p0c
  let k_rf := 2.0 * k.pi * freq / k.c
  let ph := 2.0 * k.pi * (phase - rfTime k.c p.z p.pz p0c mc2 * freq)
  let px := p.px + voltage * sin ph
  let beta_old := (1.0 + p.pz) * p0c / sqrt (((1.0 + p.pz) * p0c) * ((1.0 + p.pz) * p0c) + mc2 * mc2)
  let E_old := (1.0 + p.pz) * p0c / beta_old
  let E_new := E_old + voltage * cos ph * k_rf * p.x * p0c
  let pc := sqrt (E_new * E_new - mc2 * mc2)
  let beta := pc / E_new
  let pz := (pc - p0c) / p0c
  let z := p.z * beta / beta_old
  let p := { p with px := px, pz := pz, z := z }
  let p := trackADrift (L / 2.0) p p0c mc2
  let p := offsetUnset mx my tilt p
  bpToVec p p0c mc2
