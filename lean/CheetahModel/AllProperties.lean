import CheetahModel.Properties.C03
import CheetahModel.Properties.C02
