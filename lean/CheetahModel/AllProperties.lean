import CheetahModel.Properties.C03
