import CheetahModel.Properties.C03
import CheetahModel.Properties.C02
import CheetahModel.Properties.C01
import CheetahModel.Properties.C08
import CheetahModel.Properties.C06
import CheetahModel.Properties.C10
import CheetahModel.Properties.C18
import CheetahModel.Properties.C07
