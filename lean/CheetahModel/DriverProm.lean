import CheetahModel.Promote
/-! Driver op `prom <default dtype> <tree in prefix form>`: leaves `d:f64` (dimensioned) / `z:f32` (zero-dim) / `p:i64`
(Python number), nodes `N l r`.  Reply `T <kind>:<dtype>` of the result of the arithmetic expression. -/
namespace DrvProm
open Prom

def dtOf : String → Option DT
  | "bool" => some .bool | "i64" => some .i64 | "f32" => some .f32 | "f64" => some .f64 | _ => none
def dtStr : DT → String | .bool => "bool" | .i64 => "i64" | .f32 => "f32" | .f64 => "f64"
def kindStr : Kind → String | .dim => "d" | .zero => "z" | .py => "p"

partial def parse : List String → Option (Tree × List String)
  | "N" :: r => do let (a, r) ← parse r; let (b, r) ← parse r; pure (.node a b, r)
  | t :: r =>
    match t.splitOn ":" with
    | [k, d] => do
      let k ← (match k with | "d" => some Kind.dim | "z" => some Kind.zero | "p" => some Kind.py | _ => none)
      let d ← dtOf d
      pure (.leaf ⟨k, d⟩, r)
    | _ => none
  | [] => none

def run (args : List String) : Option String := do
  let d ← args.head? >>= dtOf
  let (t, r) ← parse (args.drop 1)
  if !r.isEmpty then none
  let o := t.eval d
  pure s!"T {kindStr o.kind}:{dtStr o.dt}"
end DrvProm
