import CheetahModel.Beam
/-!
# Space-charge kick (`space_charge_kick.py`): Cloud-In-Cell deposit, and the structure of the kick

The Poisson solve (integrated Green function, Hockney FFT convolution), the finite-difference gradient and
the CIC gather are **linear** in the deposited charge; composed with the deposit they give a momentum change
`Δp_i = dt · Σ_j (q_j s_j) · g(i, j)` with an interaction kernel `g` that depends on the particle positions
(and the grid) only.  `pairKick` is that structure with `g` arbitrary; `cicDeposit` is the concrete deposit.
-/
open Scalar
variable {α : Type} [Scalar α]

/-- `floor` of a non-negative value, from `ceilNat` -/
def floorNat (u : α) : Nat :=
  let c := ceilNat u
  if eqb (ofNat c) u then c else c - 1

/-- 1-D CIC weight of cell `ic` for a particle at normalised position `u` (in units of the cell size):
`1 − |u − ic|` for the two neighbouring cells `floor u`, `floor u + 1`, else 0 -/
def cicW (u : α) (ic : Nat) : α :=
  let i0 := floorNat u
  if ic == i0 ∨ ic == i0 + 1 then 1.0 - abs (u - ofNat ic) else 0.0

/-- charge density deposited on cell `(ix, iy, it)` by particles at normalised positions `(ux, uy, ut)` with
weights `q·s`; `invVol` = 1/(cell volume).  Cells outside the grid are simply never asked for. -/
def cicDeposit (parts : List (α × α × α × α)) (invVol : α) (ix iy it : Nat) : α :=
  listSum (parts.map fun p => cicW p.1 ix * cicW p.2.1 iy * cicW p.2.2.1 it * p.2.2.2) * invVol

/-- one component of the momentum kick on particle `i`: `dt · Σ_j w_j · g i j` -/
def pairKick (g : Nat → Nat → α) (w : List α) (dt : α) (i : Nat) : α :=
  dt * listSum ((List.range w.length).map fun j => w.getD j 0.0 * g i j)
