import CheetahModel.Maps
/-!
# Forward-mode derivative pairs: the model of what autograd returns for the traced program

`Dual α` carries (value, tangent).  Tangents propagate through the **executed** branch only: comparisons
look at values, so `if eqb k1 0 then 1e-12 else k1` replaces a zero strength by a *constant* (tangent 0)
exactly as the in-place overwrite `k1[k1 == 0] = 1e-12` detaches it from the graph.
-/
open Scalar

structure Dual (α : Type) where
  v : α
  d : α

namespace Dual
variable {α : Type} [Scalar α]

instance : Scalar (Dual α) where
  add a b := ⟨a.v + b.v, a.d + b.d⟩
  sub a b := ⟨a.v - b.v, a.d - b.d⟩
  mul a b := ⟨a.v * b.v, a.d * b.v + a.v * b.d⟩
  div a b := ⟨a.v / b.v, (a.d * b.v - a.v * b.d) / (b.v * b.v)⟩
  neg a := ⟨-a.v, -a.d⟩
  ofScientific m s e := ⟨OfScientific.ofScientific m s e, 0.0⟩
  sin a := ⟨sin a.v, cos a.v * a.d⟩
  cos a := ⟨cos a.v, -(sin a.v) * a.d⟩
  tan a := ⟨tan a.v, a.d / (cos a.v * cos a.v)⟩
  sinh a := ⟨sinh a.v, cosh a.v * a.d⟩
  cosh a := ⟨cosh a.v, sinh a.v * a.d⟩
  sqrt a := ⟨sqrt a.v, a.d / (2.0 * sqrt a.v)⟩
  exp a := ⟨exp a.v, exp a.v * a.d⟩
  log a := ⟨log a.v, a.d / a.v⟩
  atan a := ⟨atan a.v, a.d / (1.0 + a.v * a.v)⟩
  asin a := ⟨asin a.v, a.d / sqrt (1.0 - a.v * a.v)⟩
  abs a := ⟨abs a.v, if ltb a.v 0.0 then -a.d else a.d⟩
  atan2 y x := ⟨atan2 y.v x.v, (y.d * x.v - y.v * x.d) / (x.v * x.v + y.v * y.v)⟩
  ltb a b := ltb a.v b.v
  leb a b := leb a.v b.v
  eqb a b := eqb a.v b.v
  ofNat n := ⟨ofNat n, 0.0⟩
  ceilNat a := ceilNat a.v

/-- a constant (no dependence on the differentiation variable) -/
def const (x : α) : Dual α := ⟨x, 0.0⟩
/-- the differentiation variable -/
def var (x : α) : Dual α := ⟨x, 1.0⟩

end Dual

/-- which quadrupole parameter is the differentiation variable -/
inductive QuadVar | L | k1 | mx | my | tilt | energy

/-- the quadrupole map evaluated on dual numbers: entry tangents = d(entry)/d(parameter) as forward-mode AD computes it -/
def quadMapDual {α : Type} [Scalar α] (wrt : QuadVar) (L k1 mx my tilt energy mc2 : α) : Mat7 (Dual α) :=
  let mk (x : α) (is : Bool) : Dual α := if is then Dual.var x else Dual.const x
  quadMap (mk L (wrt matches .L)) (mk k1 (wrt matches .k1)) (mk mx (wrt matches .mx)) (mk my (wrt matches .my))
    (mk tilt (wrt matches .tilt)) (mk energy (wrt matches .energy)) (Dual.const mc2)
