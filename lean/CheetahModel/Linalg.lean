import CheetahModel.Scalar
/-!
# 7-vectors and 7×7 matrices (the augmented phase-space maps of Cheetah)

Both are plain structures (49 stored entries), so that at `Float` a matrix is computed once and
products of many matrices stay linear in cost (a function representation `Fin 7 → Fin 7 → α` is
re-evaluated at every access by the compiled code).  `Mat7.get : Mat7 α → Fin 7 → Fin 7 → α` is the
entry function; `Proofs/MatBridge.lean` turns a `Mat7 ℝ` into a Mathlib `Matrix (Fin 7) (Fin 7) ℝ`
and proves that `mul`, `transpose`, `mulVec`, `one` are Mathlib's.
-/

structure Vec7 (α : Type) where
  a0 : α
  a1 : α
  a2 : α
  a3 : α
  a4 : α
  a5 : α
  a6 : α

/-- row / vector literal -/
abbrev row7 {α : Type} (a0 a1 a2 a3 a4 a5 a6 : α) : Vec7 α := ⟨a0, a1, a2, a3, a4, a5, a6⟩

namespace Vec7
variable {α : Type}

def get (v : Vec7 α) (j : Fin 7) : α :=
  match j with
  | 0 => v.a0 | 1 => v.a1 | 2 => v.a2 | 3 => v.a3 | 4 => v.a4 | 5 => v.a5 | 6 => v.a6

/-- strict tabulation -/
def tab (f : Fin 7 → α) : Vec7 α := ⟨f 0, f 1, f 2, f 3, f 4, f 5, f 6⟩

@[simp] theorem get_tab (f : Fin 7 → α) (j : Fin 7) : (tab f).get j = f j := by
  match j with
  | 0 => rfl | 1 => rfl | 2 => rfl | 3 => rfl | 4 => rfl | 5 => rfl | 6 => rfl

def toList (v : Vec7 α) : List α := [v.a0, v.a1, v.a2, v.a3, v.a4, v.a5, v.a6]

def ofList [Inhabited α] (l : List α) : Vec7 α :=
  ⟨l.getD 0 default, l.getD 1 default, l.getD 2 default, l.getD 3 default,
    l.getD 4 default, l.getD 5 default, l.getD 6 default⟩

def set (v : Vec7 α) (j : Fin 7) (x : α) : Vec7 α := tab fun j' => if j' = j then x else v.get j'

end Vec7

structure Mat7 (α : Type) where
  r0 : Vec7 α
  r1 : Vec7 α
  r2 : Vec7 α
  r3 : Vec7 α
  r4 : Vec7 α
  r5 : Vec7 α
  r6 : Vec7 α

namespace Mat7
variable {α : Type}

abbrev ofRows (r0 r1 r2 r3 r4 r5 r6 : Vec7 α) : Mat7 α := ⟨r0, r1, r2, r3, r4, r5, r6⟩

def row (m : Mat7 α) (i : Fin 7) : Vec7 α :=
  match i with
  | 0 => m.r0 | 1 => m.r1 | 2 => m.r2 | 3 => m.r3 | 4 => m.r4 | 5 => m.r5 | 6 => m.r6

def get (m : Mat7 α) (i j : Fin 7) : α := (m.row i).get j

/-- strict tabulation: evaluates all 49 entries once -/
def tab (f : Fin 7 → Fin 7 → α) : Mat7 α :=
  ⟨.tab (f 0), .tab (f 1), .tab (f 2), .tab (f 3), .tab (f 4), .tab (f 5), .tab (f 6)⟩

@[simp] theorem get_tab (f : Fin 7 → Fin 7 → α) (i j : Fin 7) : (tab f).get i j = f i j := by
  unfold get
  match i with
  | 0 => exact Vec7.get_tab _ j | 1 => exact Vec7.get_tab _ j | 2 => exact Vec7.get_tab _ j
  | 3 => exact Vec7.get_tab _ j | 4 => exact Vec7.get_tab _ j | 5 => exact Vec7.get_tab _ j
  | 6 => exact Vec7.get_tab _ j

def col (m : Mat7 α) (j : Fin 7) : Vec7 α := .tab fun k => m.get k j

variable [Scalar α]

def one : Mat7 α :=
  ofRows (row7 1.0 0.0 0.0 0.0 0.0 0.0 0.0) (row7 0.0 1.0 0.0 0.0 0.0 0.0 0.0)
    (row7 0.0 0.0 1.0 0.0 0.0 0.0 0.0) (row7 0.0 0.0 0.0 1.0 0.0 0.0 0.0)
    (row7 0.0 0.0 0.0 0.0 1.0 0.0 0.0) (row7 0.0 0.0 0.0 0.0 0.0 1.0 0.0)
    (row7 0.0 0.0 0.0 0.0 0.0 0.0 1.0)

/-- the sum torch's matmul forms for one entry (the accumulation order inside torch is not
specified; differences are below the correspondence tolerance) -/
def dot (a b : Vec7 α) : α :=
  a.a0 * b.a0 + a.a1 * b.a1 + a.a2 * b.a2 + a.a3 * b.a3 + a.a4 * b.a4 + a.a5 * b.a5 + a.a6 * b.a6

def mul (A B : Mat7 α) : Mat7 α :=
  let c0 := B.col 0; let c1 := B.col 1; let c2 := B.col 2; let c3 := B.col 3
  let c4 := B.col 4; let c5 := B.col 5; let c6 := B.col 6
  let r (a : Vec7 α) : Vec7 α :=
    ⟨dot a c0, dot a c1, dot a c2, dot a c3, dot a c4, dot a c5, dot a c6⟩
  ⟨r A.r0, r A.r1, r A.r2, r A.r3, r A.r4, r A.r5, r A.r6⟩

def transpose (A : Mat7 α) : Mat7 α := tab fun i j => A.get j i

def mulVec (A : Mat7 α) (v : Vec7 α) : Vec7 α :=
  ⟨dot A.r0 v, dot A.r1 v, dot A.r2 v, dot A.r3 v, dot A.r4 v, dot A.r5 v, dot A.r6 v⟩

/-- `einsum("...ij,...jk,...kl->...il", A, B, C)` -/
def mul3 (A B C : Mat7 α) : Mat7 α := mul (mul A B) C

/-- replace entry (i,j) — the model of `R[..., i, j] = v` -/
def set (A : Mat7 α) (i j : Fin 7) (v : α) : Mat7 α :=
  tab fun i' j' => if i' = i ∧ j' = j then v else A.get i' j'

def toList (A : Mat7 α) : List α :=
  A.r0.toList ++ A.r1.toList ++ A.r2.toList ++ A.r3.toList ++ A.r4.toList ++ A.r5.toList ++ A.r6.toList

end Mat7

def Mat7.ofList {α : Type} [Inhabited α] (l : List α) : Mat7 α :=
  Mat7.ofRows (Vec7.ofList l) (Vec7.ofList (l.drop 7)) (Vec7.ofList (l.drop 14))
    (Vec7.ofList (l.drop 21)) (Vec7.ofList (l.drop 28)) (Vec7.ofList (l.drop 35))
    (Vec7.ofList (l.drop 42))

/-! ## vector / matrix arithmetic used by the beam statistics -/
namespace Vec7
variable {α : Type} [Scalar α]
def zero : Vec7 α := ⟨0.0, 0.0, 0.0, 0.0, 0.0, 0.0, 0.0⟩
def add (a b : Vec7 α) : Vec7 α := ⟨a.a0 + b.a0, a.a1 + b.a1, a.a2 + b.a2, a.a3 + b.a3, a.a4 + b.a4, a.a5 + b.a5, a.a6 + b.a6⟩
def sub (a b : Vec7 α) : Vec7 α := ⟨a.a0 - b.a0, a.a1 - b.a1, a.a2 - b.a2, a.a3 - b.a3, a.a4 - b.a4, a.a5 - b.a5, a.a6 - b.a6⟩
def smul (c : α) (a : Vec7 α) : Vec7 α := ⟨c * a.a0, c * a.a1, c * a.a2, c * a.a3, c * a.a4, c * a.a5, c * a.a6⟩
/-- outer product `a bᵀ` -/
def outer (a b : Vec7 α) : Mat7 α :=
  ⟨smul a.a0 b, smul a.a1 b, smul a.a2 b, smul a.a3 b, smul a.a4 b, smul a.a5 b, smul a.a6 b⟩
def sum (l : List (Vec7 α)) : Vec7 α := l.foldr add zero
end Vec7

namespace Mat7
variable {α : Type} [Scalar α]
def zero : Mat7 α := ⟨.zero, .zero, .zero, .zero, .zero, .zero, .zero⟩
def add (A B : Mat7 α) : Mat7 α :=
  ⟨.add A.r0 B.r0, .add A.r1 B.r1, .add A.r2 B.r2, .add A.r3 B.r3, .add A.r4 B.r4, .add A.r5 B.r5, .add A.r6 B.r6⟩
def smul (c : α) (A : Mat7 α) : Mat7 α :=
  ⟨.smul c A.r0, .smul c A.r1, .smul c A.r2, .smul c A.r3, .smul c A.r4, .smul c A.r5, .smul c A.r6⟩
def sum (l : List (Mat7 α)) : Mat7 α := l.foldr add zero
end Mat7
