import CheetahModel.Elements
/-!
# Vectorised (batched) semantics of the data-dependent Python branches

Every `if torch.any(...)` / `torch.all(...)` on a whole parameter tensor decides for the **whole batch**.
A batch is a list of per-sample parameter records; the scalar semantics is the batch of length one.
-/
open Scalar
variable {α : Type} [Scalar α]

structure QuadP (α : Type) where
  L : α
  k1 : α
  mx : α
  my : α
  tilt : α

/-- `base_rmatrix` on a batch: `if torch.any(tilt != 0)` rotates **every** sample, else none -/
def baseRBatch (ps : List (QuadP α)) (hx energy mc2 : α) : List (Mat7 α) :=
  if ps.any (fun p => !(eqb p.tilt 0.0)) then
    ps.map fun p => tiltConj p.tilt (baseR0 p.L p.k1 hx energy mc2)
  else ps.map fun p => baseR0 p.L p.k1 hx energy mc2

/-- `Quadrupole.transfer_map` on a batch: `if torch.all(misalignment == 0)` skips the shift for every sample -/
def quadMapBatch (ps : List (QuadP α)) (energy mc2 : α) : List (Mat7 α) :=
  let Rs := baseRBatch ps 0.0 energy mc2
  if ps.all (fun p => eqb p.mx 0.0 && eqb p.my 0.0) then Rs
  else List.zipWith (fun p R => misConj p.mx p.my R) ps Rs

/-- the body of `Dipole.transfer_map` on a batch: `base_rmatrix` for every sample, then
`R[..., 1, 6] = torch.where(length == 0, angle, R[..., 1, 6])` — decided **per sample** (since the `fix:` commit;
before it `if torch.any(length != 0)` decided for the whole batch, the recorded and now fixed cross-talk) -/
def dipoleBodyBatch (ps : List (DipoleP α)) (energy mc2 : α) : List (Mat7 α) :=
  ps.map fun p => dipoleBodyCode p energy mc2

/-- the scalar body branch -/
def dipoleBody (p : DipoleP α) (energy mc2 : α) : Mat7 α :=
  if eqb p.L 0.0 then dipoleThin p.L p.angle else baseR0 p.L p.k1 (dipoleHx p.L p.angle) energy mc2
