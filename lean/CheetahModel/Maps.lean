import CheetahModel.Linalg
import CheetahModel.Physics
/-!
# Linear transfer maps of every element (`track_methods.py`, `drift.py`, `quadrupole.py`,
`dipole.py`, `rbend.py`, `solenoid.py`, correctors, `undulator.py`, `cavity.py:84-95,254-341`)

Each definition mirrors the Python operation by operation (same association of products and
quotients, same guards), so that at `Float` the result differs from torch only by libm-vs-SLEEF
rounding of the transcendental functions and by torch's complex arithmetic in `base_rmatrix`.
-/
open Scalar
variable {α : Type} [Scalar α]

/-- physical / numerical constants the repository uses; supplied bit-exactly by the harness -/
structure Consts (α : Type) where
  mc2 : α      -- electron rest energy in eV (`electron_mass_eV`)
  c : α        -- `scipy.constants.speed_of_light`
  pi : α       -- `torch.pi`

/-- `rotation_matrix(angle)` -/
def rotationMatrix (angle : α) : Mat7 α :=
  let cs := cos angle
  let sn := sin angle
  Mat7.ofRows
    (row7 cs 0.0 sn 0.0 0.0 0.0 0.0)
    (row7 0.0 cs 0.0 sn 0.0 0.0 0.0)
    (row7 (-sn) 0.0 cs 0.0 0.0 0.0 0.0)
    (row7 0.0 (-sn) 0.0 cs 0.0 0.0 0.0)
    (row7 0.0 0.0 0.0 0.0 1.0 0.0 0.0)
    (row7 0.0 0.0 0.0 0.0 0.0 1.0 0.0)
    (row7 0.0 0.0 0.0 0.0 0.0 0.0 1.0)

/-- cos-like and sin-like focusing functions for `k2` of either sign: what
`cos(sqrt(complex(k2)) * L).real` and `(sin(sqrt(complex(k2)) * L) / sqrt(complex(k2))).real` evaluate to -/
structure CS (α : Type) where
  c : α
  s : α

def cs (k2 L : α) : CS α :=
  if ltb 0.0 k2 then
    let k := sqrt k2
    { c := cos (k * L), s := sin (k * L) / k }
  else
    let k := sqrt (-k2)
    { c := cosh (k * L), s := sinh (k * L) / k }

/-- the scalar ingredients of `base_rmatrix`, computed once -/
structure BaseE (α : Type) where
  cx : α
  sx : α
  cy : α
  sy : α
  kx2 : α
  ky2 : α
  hx : α
  beta : α
  dx : α
  r56 : α

def baseE (L k1 hx energy mc2 : α) : BaseE α :=
  let rf := relFactors energy mc2
  let k1 := if eqb k1 0.0 then 1e-12 else k1     -- `k1[k1 == 0] = 1e-12`
  let kx2 := k1 + hx * hx
  let ky2 := -k1
  let x := cs kx2 L
  let y := cs ky2 L
  let dx := hx / kx2 * (1.0 - x.c)
  let r56 := hx * hx * (L - x.s) / kx2 / (rf.beta * rf.beta)
  let r56 := r56 - L / (rf.beta * rf.beta) * rf.igamma2
  { cx := x.c, sx := x.s, cy := y.c, sy := y.s, kx2 := kx2, ky2 := ky2, hx := hx,
    beta := rf.beta, dx := dx, r56 := r56 }

def baseRof (e : BaseE α) : Mat7 α :=
  Mat7.ofRows
    (row7 e.cx e.sx 0.0 0.0 0.0 (e.dx / e.beta) 0.0)
    (row7 (-e.kx2 * e.sx) e.cx 0.0 0.0 0.0 (e.sx * e.hx / e.beta) 0.0)
    (row7 0.0 0.0 e.cy e.sy 0.0 0.0 0.0)
    (row7 0.0 0.0 (-e.ky2 * e.sy) e.cy 0.0 0.0 0.0)
    (row7 (e.sx * e.hx / e.beta) (e.dx / e.beta) 0.0 0.0 1.0 e.r56 0.0)
    (row7 0.0 0.0 0.0 0.0 0.0 1.0 0.0)
    (row7 0.0 0.0 0.0 0.0 0.0 0.0 1.0)

/-- `base_rmatrix` before the tilt rotation -/
def baseR0 (L k1 hx energy mc2 : α) : Mat7 α := baseRof (baseE L k1 hx energy mc2)

/-- conjugation by the tilt rotation -/
def tiltConj (tilt : α) (R : Mat7 α) : Mat7 α :=
  Mat7.mul3 (rotationMatrix (-tilt)) R (rotationMatrix tilt)

/-- `base_rmatrix(length, k1, hx, tilt, energy)` for one sample; the Python branch
`if torch.any(tilt != 0)` is the scalar `tilt != 0` here (the batch form is in `Batch.lean`) -/
def baseR (L k1 hx tilt energy mc2 : α) : Mat7 α :=
  let R := baseR0 L k1 hx energy mc2
  if eqb tilt 0.0 then R else tiltConj tilt R

/-- `misalignment_matrix`: (R_entry, R_exit) -/
def misEntry (mx my : α) : Mat7 α :=
  Mat7.ofRows
    (row7 1.0 0.0 0.0 0.0 0.0 0.0 (-mx)) (row7 0.0 1.0 0.0 0.0 0.0 0.0 0.0)
    (row7 0.0 0.0 1.0 0.0 0.0 0.0 (-my)) (row7 0.0 0.0 0.0 1.0 0.0 0.0 0.0)
    (row7 0.0 0.0 0.0 0.0 1.0 0.0 0.0) (row7 0.0 0.0 0.0 0.0 0.0 1.0 0.0)
    (row7 0.0 0.0 0.0 0.0 0.0 0.0 1.0)

def misExit (mx my : α) : Mat7 α :=
  Mat7.ofRows
    (row7 1.0 0.0 0.0 0.0 0.0 0.0 mx) (row7 0.0 1.0 0.0 0.0 0.0 0.0 0.0)
    (row7 0.0 0.0 1.0 0.0 0.0 0.0 my) (row7 0.0 0.0 0.0 1.0 0.0 0.0 0.0)
    (row7 0.0 0.0 0.0 0.0 1.0 0.0 0.0) (row7 0.0 0.0 0.0 0.0 0.0 1.0 0.0)
    (row7 0.0 0.0 0.0 0.0 0.0 0.0 1.0)

def misConj (mx my : α) (R : Mat7 α) : Mat7 α := Mat7.mul3 (misExit mx my) R (misEntry mx my)

/-- generic "drift-like" matrix: identity with R01 = R23 = L and R45 = r56 -/
def driftLike (L r56 : α) : Mat7 α :=
  Mat7.ofRows
    (row7 1.0 L 0.0 0.0 0.0 0.0 0.0) (row7 0.0 1.0 0.0 0.0 0.0 0.0 0.0)
    (row7 0.0 0.0 1.0 L 0.0 0.0 0.0) (row7 0.0 0.0 0.0 1.0 0.0 0.0 0.0)
    (row7 0.0 0.0 0.0 0.0 1.0 r56 0.0) (row7 0.0 0.0 0.0 0.0 0.0 1.0 0.0)
    (row7 0.0 0.0 0.0 0.0 0.0 0.0 1.0)

/-- the drift's R56 = `-length / beta**2 * igamma2` -/
def driftR56 (L energy mc2 : α) : α :=
  let rf := relFactors energy mc2
  let r := -L / (rf.beta * rf.beta) * rf.igamma2
  r

/-- `Drift.transfer_map` -/
def driftMap (L energy mc2 : α) : Mat7 α := driftLike L (driftR56 L energy mc2)

/-- `Quadrupole.transfer_map` (one sample) -/
def quadMap (L k1 mx my tilt energy mc2 : α) : Mat7 α :=
  let R := baseR L k1 0.0 tilt energy mc2
  if eqb mx 0.0 && eqb my 0.0 then R else misConj mx my R

/-- `Dipole.hx` -/
def dipoleHx (L angle : α) : α := if eqb L 0.0 then 0.0 else angle / L

/-- `_transfer_map_enter` / `_transfer_map_exit` (the exit face uses `gap`, not `gap_exit`,
exactly as the code does for the linear method) -/
def dipoleEdge (hx e fint gap : α) : Mat7 α :=
  let sec_e := 1.0 / cos e
  let phi := fint * hx * gap * sec_e * (1.0 + sin e * sin e)
  Mat7.ofRows
    (row7 1.0 0.0 0.0 0.0 0.0 0.0 0.0) (row7 (hx * tan e) 1.0 0.0 0.0 0.0 0.0 0.0)
    (row7 0.0 0.0 1.0 0.0 0.0 0.0 0.0) (row7 0.0 0.0 (-hx * tan (e - phi)) 1.0 0.0 0.0 0.0)
    (row7 0.0 0.0 0.0 0.0 1.0 0.0 0.0) (row7 0.0 0.0 0.0 0.0 0.0 1.0 0.0)
    (row7 0.0 0.0 0.0 0.0 0.0 0.0 1.0)

/-- the zero-length ("thin corrector") body of `Dipole.transfer_map` -/
def dipoleThin (L angle : α) : Mat7 α :=
  Mat7.ofRows
    (row7 1.0 L 0.0 0.0 0.0 0.0 0.0) (row7 0.0 1.0 0.0 0.0 0.0 0.0 angle)
    (row7 0.0 0.0 1.0 L 0.0 0.0 0.0) (row7 0.0 0.0 0.0 1.0 0.0 0.0 0.0)
    (row7 0.0 0.0 0.0 0.0 1.0 0.0 0.0) (row7 0.0 0.0 0.0 0.0 0.0 1.0 0.0)
    (row7 0.0 0.0 0.0 0.0 0.0 0.0 1.0)

structure DipoleP (α : Type) where
  L : α
  angle : α
  k1 : α
  e1 : α
  e2 : α
  tilt : α
  gap : α
  fint : α
  fintx : α

/-- `Dipole.transfer_map` (one sample) -/
def dipoleMap (p : DipoleP α) (energy mc2 : α) : Mat7 α :=
  let hx := dipoleHx p.L p.angle
  let Renter := dipoleEdge hx p.e1 p.fint p.gap
  let Rexit := dipoleEdge hx p.e2 p.fintx p.gap
  let R := if eqb p.L 0.0 then dipoleThin p.L p.angle else baseR0 p.L p.k1 hx energy mc2
  let R := Mat7.mul Rexit (Mat7.mul R Renter)
  Mat7.mul (rotationMatrix (-p.tilt)) (Mat7.mul R (rotationMatrix p.tilt))

/-- the body of `Dipole.transfer_map` as the code computes it (since the per-entry `fix:`): always `base_rmatrix`, then
`R[..., 1, 6] = torch.where(length == 0, angle, R[..., 1, 6])` -/
def dipoleBodyCode (p : DipoleP α) (energy mc2 : α) : Mat7 α :=
  let R := baseR0 p.L p.k1 (dipoleHx p.L p.angle) energy mc2
  R.set 1 6 (if eqb p.L 0.0 then p.angle else R.get 1 6)

/-- `Dipole.transfer_map` operation by operation (the driver runs this form; `dipoleMap` is its reading with the
zero-length body written as the thin corrector, proved equal in `Proofs/DipoleCode.lean`) -/
def dipoleMapCode (p : DipoleP α) (energy mc2 : α) : Mat7 α :=
  let hx := dipoleHx p.L p.angle
  let Renter := dipoleEdge hx p.e1 p.fint p.gap
  let Rexit := dipoleEdge hx p.e2 p.fintx p.gap
  let R := dipoleBodyCode p energy mc2
  let R := Mat7.mul Rexit (Mat7.mul R Renter)
  Mat7.mul (rotationMatrix (-p.tilt)) (Mat7.mul R (rotationMatrix p.tilt))

/-- `RBend(...)` is `Dipole(..., dipole_e = rbend_e + angle/2)` -/
def rbendToDipole (p : DipoleP α) : DipoleP α :=
  { p with e1 := p.e1 + p.angle / 2.0, e2 := p.e2 + p.angle / 2.0 }

/-- `Solenoid.transfer_map` before the misalignment -/
def solenoidBody (L k energy mc2 : α) : Mat7 α :=
  let gamma := (relFactors energy mc2).gamma
  let c := cos (L * k)
  let s := sin (L * k)
  let s_k := if eqb k 0.0 then L else s / k
  let r56 := if eqb gamma 0.0 then 0.0 else L / (1.0 - gamma * gamma)
  Mat7.ofRows
    (row7 (c * c) (c * s_k) (s * c) (s * s_k) 0.0 0.0 0.0)
    (row7 (-k * s * c) (c * c) (-k * (s * s)) (s * c) 0.0 0.0 0.0)
    (row7 (-s * c) (-s * s_k) (c * c) (c * s_k) 0.0 0.0 0.0)
    (row7 (k * (s * s)) (-s * c) (-k * s * c) (c * c) 0.0 0.0 0.0)
    (row7 0.0 0.0 0.0 0.0 1.0 r56 0.0)
    (row7 0.0 0.0 0.0 0.0 0.0 1.0 0.0)
    (row7 0.0 0.0 0.0 0.0 0.0 0.0 1.0)

/-- `Solenoid.transfer_map` (one sample) -/
def solenoidMap (L k mx my energy mc2 : α) : Mat7 α :=
  let R := solenoidBody L k energy mc2
  if eqb mx 0.0 && eqb my 0.0 then R else misConj mx my R

/-- `HorizontalCorrector.transfer_map` -/
def hcorMap (L angle energy mc2 : α) : Mat7 α :=
  let r56 := driftR56 L energy mc2
  Mat7.ofRows
    (row7 1.0 L 0.0 0.0 0.0 0.0 0.0) (row7 0.0 1.0 0.0 0.0 0.0 0.0 angle)
    (row7 0.0 0.0 1.0 L 0.0 0.0 0.0) (row7 0.0 0.0 0.0 1.0 0.0 0.0 0.0)
    (row7 0.0 0.0 0.0 0.0 1.0 r56 0.0) (row7 0.0 0.0 0.0 0.0 0.0 1.0 0.0)
    (row7 0.0 0.0 0.0 0.0 0.0 0.0 1.0)

/-- `VerticalCorrector.transfer_map` -/
def vcorMap (L angle energy mc2 : α) : Mat7 α :=
  let r56 := driftR56 L energy mc2
  Mat7.ofRows
    (row7 1.0 L 0.0 0.0 0.0 0.0 0.0) (row7 0.0 1.0 0.0 0.0 0.0 0.0 0.0)
    (row7 0.0 0.0 1.0 L 0.0 0.0 0.0) (row7 0.0 0.0 0.0 1.0 0.0 0.0 angle)
    (row7 0.0 0.0 0.0 0.0 1.0 r56 0.0) (row7 0.0 0.0 0.0 0.0 0.0 1.0 0.0)
    (row7 0.0 0.0 0.0 0.0 0.0 0.0 1.0)

/-- `Undulator.transfer_map` (after the `fix:` commit: the drift's map) -/
def undulatorMap (L energy mc2 : α) : Mat7 α := driftLike L (driftR56 L energy mc2)

/-- the cavity R-matrix entries (`Cavity._cavity_rmatrix`, η = 1) -/
structure CavE (α : Type) where
  r11 : α
  r12 : α
  r21 : α
  r22 : α
  r55 : α
  r56 : α
  r65 : α
  r66 : α

/-- `torch.deg2rad` -/
def deg2rad (k : Consts α) (x : α) : α := x * (k.pi / 180.0)

def cavE (k : Consts α) (L V phase freq energy : α) : CavE α :=
  let phi := deg2rad k phase
  let dE := V * cos phi
  let eta : α := 1.0
  let Ei := energy / k.mc2
  let Ef := (energy + dE) / k.mc2
  let Ep := (Ef - Ei) / L
  let alpha := sqrt (eta / 8.0) / cos phi * log (Ef / Ei)
  let r11 := cos alpha - sqrt (2.0 / eta) * cos phi * sin alpha
  let r12 := sqrt (8.0 / eta) * Ei / Ep * cos phi * sin alpha
  let r21 := -Ep / Ef * (cos phi / sqrt (2.0 * eta) + sqrt (eta / 8.0) / cos phi) * sin alpha
  let r22 := Ei / Ef * (cos alpha + sqrt (2.0 / eta) * cos phi * sin alpha)
  let kk := 2.0 * k.pi * freq / k.c
  -- `if torch.any((voltage != 0) & (energy != 0))`
  let on := !(eqb V 0.0) && !(eqb energy 0.0)
  let beta0 : α := if on then sqrt (1.0 - 1.0 / (Ei * Ei)) else 1.0
  let beta1 : α := if on then sqrt (1.0 - 1.0 / (Ef * Ef)) else 1.0
  let r56 : α := if on then -L / (Ef * Ef * Ei * beta1) * (Ef + Ei) / (beta1 + beta0) else 0.0
  let r55c : α :=
    if on then
      kk * L * beta0 * V / k.mc2 * sin phi * (Ei * Ef * (beta0 * beta1 - 1.0) + 1.0)
        / (beta1 * Ef * ((Ei - Ef) * (Ei - Ef)))
    else 0.0
  let r66 := Ei / Ef * beta0 / beta1
  let r65 := kk * sin phi * V / (Ef * beta1 * k.mc2)
  { r11 := r11, r12 := r12, r21 := r21, r22 := r22, r55 := 1.0 + r55c, r56 := r56, r65 := r65,
    r66 := r66 }

def cavRof (e : CavE α) : Mat7 α :=
  Mat7.ofRows
    (row7 e.r11 e.r12 0.0 0.0 0.0 0.0 0.0) (row7 e.r21 e.r22 0.0 0.0 0.0 0.0 0.0)
    (row7 0.0 0.0 e.r11 e.r12 0.0 0.0 0.0) (row7 0.0 0.0 e.r21 e.r22 0.0 0.0 0.0)
    (row7 0.0 0.0 0.0 0.0 e.r55 e.r56 0.0) (row7 0.0 0.0 0.0 0.0 e.r65 e.r66 0.0)
    (row7 0.0 0.0 0.0 0.0 0.0 0.0 1.0)

/-- `Cavity.transfer_map` (one sample): `torch.where(voltage != 0, _cavity_rmatrix, base_rmatrix(k1=0,hx=0))` -/
def cavityMap (k : Consts α) (L V phase freq energy : α) : Mat7 α :=
  if eqb V 0.0 then baseR L 0.0 0.0 0.0 energy k.mc2 else cavRof (cavE k L V phase freq energy)

/-- Marker / BPM / Screen / Aperture `transfer_map` -/
def identMap : Mat7 α := Mat7.one
