import CheetahModel.SpaceCharge
/-! Driver op for the CIC deposit. -/
open Scalar
namespace DrvS
def g (a : Array Float) (i : Nat) : Float := a.getD i 0.0
def scOp (op : String) (a : Array Float) : Option (List Float) :=
  match op with
  | "cic" =>    -- nx ny nt invVol n | n*(ux uy ut w)  ->  density for all cells, x-major
      let nx := (g a 0).toUInt64.toNat; let ny := (g a 1).toUInt64.toNat; let nt := (g a 2).toUInt64.toNat
      let n := (g a 4).toUInt64.toNat
      let parts := (List.range n).map fun i => (g a (5 + 4*i), g a (6 + 4*i), g a (7 + 4*i), g a (8 + 4*i))
      some ((List.range nx).flatMap fun ix => (List.range ny).flatMap fun iy => (List.range nt).map fun it =>
        cicDeposit parts (g a 3) ix iy it)
  | _ => none
end DrvS
