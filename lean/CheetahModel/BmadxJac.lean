import CheetahModel.Bmadx
/-!
# Closed-form Jacobian of the Bmad-X drift kernel (`track_a_drift`) — executable (driver op `bdjac`) and, at ℝ, the
matrix `DriftSympl.jac` that `Proofs/DriftSymplectic.lean` proves to be the Jacobian and to be symplectic.
-/
open Scalar

/-- the (symmetric) gradient of the drift's shift `(Δx, Δy, Δz)/L` with respect to `(px, py, pz)` -/
structure DriftHess (α : Type) where
  xx : α
  xy : α
  xz : α
  yy : α
  yz : α
  zz : α

def driftHess {α : Type} [Scalar α] (p0c m px py pz : α) : DriftHess α :=
  let s := (1.0 + pz) * (1.0 + pz) - px * px - py * py
  let r := sqrt s
  let P := 1.0 + pz
  let e := p0c * (1.0 + pz) * (p0c * (1.0 + pz)) + m * m
  let E0 := sqrt (p0c * p0c + m * m)
  { xx := 1.0 / r + px * px / (s * r), xy := px * py / (s * r), xz := -(px * P) / (s * r),
    yy := 1.0 / r + py * py / (s * r), yz := -(py * P) / (s * r),
    zz := (E0 / sqrt e - P * E0 * (p0c * p0c * P) / (e * sqrt e)) - (1.0 / r - P * P / (s * r)) }

/-- the 36 entries of the Jacobian (rows `x, px, y, py, z, pz`) -/
def driftJacList {α : Type} [Scalar α] (L p0c m px py pz : α) : List α :=
  let h := driftHess p0c m px py pz
  let o : α := 1.0
  let z : α := 0.0
  [o, L * h.xx, z, L * h.xy, z, L * h.xz,
   z, o, z, z, z, z,
   z, L * h.xy, o, L * h.yy, z, L * h.yz,
   z, z, z, o, z, z,
   z, L * h.xz, z, L * h.yz, o, L * h.zz,
   z, z, z, z, z, o]
