import CheetahModel.Scalar
/-!
# Drift filling of the NX-tables importer (`converters/nxtables.py::convert_lattice_to_cheetah`)

After translating and sorting the rows by their longitudinal position the importer walks over consecutive pairs and
inserts a drift of length `Δs − len_prev/2 − len_cur/2` when that is positive; a negative value is the `assert`
("elements overlap"), modelled as `none`.  A row is `(s_position, length)`; an item of the result is
`(is_drift, length)`.
-/
open Scalar
variable {α : Type} [Scalar α]

namespace Nx

def fillGo (prev : α × α) : List (α × α) → Option (List (Bool × α))
  | [] => some []
  | cur :: rest =>
    let d := cur.1 - prev.1 - prev.2 / 2.0 - cur.2 / 2.0
    if ltb d 0.0 then none
    else (fillGo cur rest).map fun t => (if ltb 0.0 d then [(true, d)] else []) ++ (false, cur.2) :: t

/-- `filled_with_drifts`; an empty table is Python's `IndexError` -/
def fill : List (α × α) → Option (List (Bool × α))
  | [] => none
  | r :: rest => (fillGo r rest).map ((false, r.2) :: ·)

/-- centres of the non-drift items when the line starts at `pos` -/
def centres (pos : α) : List (Bool × α) → List α
  | [] => []
  | (true, l) :: t => centres (pos + l) t
  | (false, l) :: t => (pos + l / 2.0) :: centres (pos + l) t

/-- total length -/
def total : List (Bool × α) → α
  | [] => 0.0
  | (_, l) :: t => l + total t

end Nx
