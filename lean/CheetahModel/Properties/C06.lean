import CheetahModel.Proofs.Moments
import Mathlib.LinearAlgebra.Matrix.PosDef
/-!
# C06 — ParameterBeam tracking equals the moments of ParticleBeam tracking

`PBeam.toMBeam` is the ParameterBeam whose mean / covariance are the sample mean / unbiased sample
covariance of the particles (all 7 components, hence all 6 means and 21 second moments).
-/
open Matrix

namespace C06

/-- for **every** 7×7 map: tracking the moments = the moments of the tracked particles -/
theorem moments_commute (M : Mat7 ℝ) (b : PBeam ℝ) : (PBeam.act M b).toMBeam = MBeam.act M b.toMBeam :=
  toMBeam_act M b

/-- every element whose tracking is linear (is_skippable: all default-method magnets, drifts,
inactive diagnostics, switched-off cavities, custom maps): ParameterBeam tracking of the moments is
the moments of ParticleBeam tracking — all means and second moments, energy and charge -/
theorem linear_elements (k : Consts ℝ) (e : Elem ℝ) (he : e.skippable = true) (b : PBeam ℝ) :
    (Elem.trackP k e b).toMBeam = Elem.trackM k e b.toMBeam := by
  have hP := (semP_lawful k).contract e b he
  have hM := (semM_lawful k).contract e b.toMBeam he
  simp only [semP, semM] at hP hM
  rw [hP, hM]
  exact toMBeam_act _ b

mutual
theorem tmap_agree (k : Consts ℝ) (en : ℝ) : ∀ l : Lat (Elem ℝ), Lat.tmap (semP k) en l = Lat.tmap (semM k) en l
  | .elem _ => rfl
  | .seg ls => by simp only [Lat.tmap]; exact tmapL_agree k en ls _
theorem tmapL_agree (k : Consts ℝ) (en : ℝ) :
    ∀ (ls : List (Lat (Elem ℝ))) (tm : Mat7 ℝ), Lat.tmapL (semP k) en ls tm = Lat.tmapL (semM k) en ls tm
  | [], _ => rfl
  | l :: ls, tm => by
      simp only [Lat.tmapL]
      rw [tmap_agree k en l]
      exact tmapL_agree k en ls _
end

mutual
theorem skip_agree (k : Consts ℝ) : ∀ l : Lat (Elem ℝ), Lat.skip (semP k) l = Lat.skip (semM k) l
  | .elem _ => rfl
  | .seg ls => by simp only [Lat.skip]; exact skipL_agree k ls
theorem skipL_agree (k : Consts ℝ) : ∀ ls : List (Lat (Elem ℝ)), Lat.skipL (semP k) ls = Lat.skipL (semM k) ls
  | [] => rfl
  | l :: ls => by simp only [Lat.skipL]; rw [skip_agree k l, skipL_agree k ls]
end

/-- … and every segment (any nesting) of such elements -/
theorem linear_segments (k : Consts ℝ) (l : Lat (Elem ℝ)) (hl : Lat.skip (semP k) l = true) (b : PBeam ℝ) :
    (Lat.track (semP k) l b).toMBeam = Lat.track (semM k) l b.toMBeam := by
  rw [Lat.track_skip _ (semP_lawful k) l hl, Lat.track_skip _ (semM_lawful k) l (by rw [← skip_agree]; exact hl)]
  simp only [semP, semM]
  have := tmap_agree k b.energy l
  simp only [semP, semM] at this
  have h2 : b.toMBeam.energy = b.energy := rfl
  rw [h2, ← this]
  exact toMBeam_act _ b

/-- the outgoing covariance stays symmetric positive semi-definite -/
theorem cov_psd (M S : Matrix (Fin 7) (Fin 7) ℝ) (hS : S.PosSemidef) : (M * S * Mᵀ).PosSemidef := by
  have := hS.mul_mul_conjTranspose_same M
  simpa using this

theorem cov_symm (M S : Matrix (Fin 7) (Fin 7) ℝ) (hS : Sᵀ = S) : (M * S * Mᵀ)ᵀ = M * S * Mᵀ := by
  rw [Matrix.transpose_mul, Matrix.transpose_mul, Matrix.transpose_transpose, hS, Matrix.mul_assoc]

/-- reference energy agrees for every element kind, including active cavities -/
theorem energy_agree (k : Consts ℝ) (e : Elem ℝ) (b : PBeam ℝ) :
    (Elem.trackP k e b).energy = (Elem.trackM k e b.toMBeam).energy := by
  cases e <;> simp only [Elem.trackP, Elem.trackM, PBeam.act, MBeam.act, PBeam.toMBeam]
  case cavity L V ph f =>
    by_cases hV : Scalar.eqb V (0.0:ℝ) = true
    · simp [hV, PBeam.act, MBeam.act]
    · simp only [hV, Bool.false_eq_true, if_false]
      unfold Elem.cavTrackP Elem.cavTrackM
      simp only
      split <;> simp
  case aperture xm ym ell active => split <;> rfl
  case screen active blocking => split <;> rfl

/-- active cavity: the transverse rows of the tracked particles are the linear map applied to the
transverse coordinates (the longitudinal rows carry the non-linear terms) -/
theorem cavity_transverse_linear (k : Consts ℝ) (L V ph f : ℝ) (b b' : PBeam ℝ)
    (h : Elem.cavTrackP k L V ph f b = some b') :
    b'.particles.map (fun v => (v.a0, v.a1, v.a2, v.a3)) =
      (PBeam.act (cavityMap k L V ph f b.energy) b).particles.map (fun v => (v.a0, v.a1, v.a2, v.a3)) := by
  unfold Elem.cavTrackP at h
  simp only at h
  split at h
  · injection h with h
    subst h
    simp [PBeam.act, List.map_map, Function.comp]
  · cases h

end C06
