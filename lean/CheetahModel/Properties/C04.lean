import CheetahModel.Proofs.DipoleCode
import CheetahModel.Proofs.Conj
import CheetahModel.Proofs.SemLawful
import CheetahModel.Batch
/-!
# C04 — vectorised tracking equals tracking each setting separately  (partial)

Proved: the whole-tensor shortcuts `if torch.any(tilt != 0)` and `if torch.all(misalignment == 0)` are
the identity on their guards, so the batched maps are the per-sample maps (hence no cross-talk between
entries).  The dipole's zero-length body is decided per entry (`torch.where`, since the `fix:`
commit; `dipole_batched_eq_map`).  Refuted with a witness (known finding): the cavity's
`if torch.any(delta_energy > 0)` makes one entry's result depend on its neighbours.
PyTorch's broadcasting / `unsqueeze` plumbing is not modelled: it is covered by the falsifier
(batched `track` vs a Python loop over entries, incl. batch size == particle count).
-/
open Matrix Scalar
namespace C04

theorem tiltConj_zero (R : Mat7 ℝ) : (tiltConj 0 R).toM = R.toM := by
  unfold tiltConj
  rw [Mat7.toM_mul3, neg_zero, rotation_zero]; simp

/-- batched `base_rmatrix` = per-sample `base_rmatrix`, for every mixture of tilted and untilted samples -/
theorem base_batched_eq_map (ps : List (QuadP ℝ)) (hx E m : ℝ) :
    (baseRBatch ps hx E m).map Mat7.toM = ps.map fun p => (baseR p.L p.k1 hx p.tilt E m).toM := by
  unfold baseRBatch
  split
  · rw [List.map_map]
    apply List.map_congr_left
    intro p _
    simp only [Function.comp, baseR_toM, tiltConj, Mat7.toM_mul3]
  · rename_i h
    rw [List.map_map]
    apply List.map_congr_left
    intro p hp
    have : p.tilt = 0 := by
      simp only [List.any_eq_true, not_exists, not_and, Bool.not_eq_true] at h
      have := h p hp
      have h00 : (0.0:ℝ) = 0 := by norm_num
      simpa [Scalar.eqb, h00] using this
    simp only [Function.comp, baseR_toM, this, neg_zero, rotation_zero, Matrix.one_mul, Matrix.mul_one]

/-- batched quadrupole map = per-sample quadrupole map, for every mixture of aligned / misaligned,
tilted / untilted samples -/
theorem quad_batched_eq_map (ps : List (QuadP ℝ)) (E m : ℝ) :
    (quadMapBatch ps E m).map Mat7.toM = ps.map fun p => (quadMap p.L p.k1 p.mx p.my p.tilt E m).toM := by
  have h00 : (0.0:ℝ) = 0 := by norm_num
  have hb := base_batched_eq_map ps 0 E m
  unfold quadMapBatch
  simp only [h00]
  split
  · rename_i h
    rw [hb]
    apply List.map_congr_left
    intro p hp
    have hp' : p.mx = 0 ∧ p.my = 0 := by
      simp only [List.all_eq_true, Bool.and_eq_true] at h
      have := h p hp
      simpa [Scalar.eqb] using this
    rw [quadMap_toM, hp'.1, hp'.2, misEntry_zero, misExit_zero]; simp
  · -- every sample is conjugated by its own shift
    have hlen : (baseRBatch ps 0 E m).length = ps.length := by
      have := congrArg List.length hb; simpa using this
    apply List.ext_getElem
    · simp [hlen]
    · intro i h1 h2
      simp only [List.getElem_map, List.getElem_zipWith]
      have hi : i < ps.length := by simpa using h2
      have hbi : (baseRBatch ps 0 E m)[i].toM = (baseR ps[i].L ps[i].k1 0 ps[i].tilt E m).toM := by
        have := congrArg (fun l => l[i]?) hb
        simp only [List.getElem?_map] at this
        rw [List.getElem?_eq_getElem (by omega), List.getElem?_eq_getElem hi] at this
        simpa using this
      rw [quadMap_toM]
      unfold misConj
      rw [Mat7.toM_mul3, hbi]

/-- no cross-talk: sample *i* of the batched quadrupole map depends only on sample *i*'s parameters -/
theorem quad_no_crosstalk (ps qs : List (QuadP ℝ)) (E m : ℝ) (i : ℕ) (h : ps[i]? = qs[i]?) :
    ((quadMapBatch ps E m).map Mat7.toM)[i]? = ((quadMapBatch qs E m).map Mat7.toM)[i]? := by
  rw [quad_batched_eq_map, quad_batched_eq_map]
  simp only [List.getElem?_map, h]

/-- batched dipole body = per-sample body, for every mixture of zero-length and finite-length entries (since the
per-entry `fix:` of `Dipole.transfer_map`; before it a zero-length entry next to a finite-length one lost its kick —
that cross-talk was proved as a negation with a witness here and is now a `fixed:` entry) -/
theorem dipole_batched_eq_map (ps : List (DipoleP ℝ)) (E m : ℝ) :
    (dipoleBodyBatch ps E m).map Mat7.toM = ps.map fun p => (dipoleBody p E m).toM :=
  _root_.dipole_batched_eq_map ps E m

/-- the coded `Dipole.transfer_map` (always `base_rmatrix`, then `torch.where(length == 0, angle, R[1, 6])`) is the
model's `dipoleMap` (zero-length body = thin corrector) -/
theorem dipole_code_refines_model (p : DipoleP ℝ) (E m : ℝ) : (dipoleMapCode p E m).toM = (dipoleMap p E m).toM :=
  dipoleMapCode_toM p E m

/-- no cross-talk between dipole samples -/
theorem dipole_no_crosstalk (ps qs : List (DipoleP ℝ)) (E m : ℝ) (i : ℕ) (h : ps[i]? = qs[i]?) :
    ((dipoleBodyBatch ps E m).map Mat7.toM)[i]? = ((dipoleBodyBatch qs E m).map Mat7.toM)[i]? := by
  rw [dipole_batched_eq_map, dipole_batched_eq_map]
  simp only [List.getElem?_map, h]

/-- the witness of the former finding now behaves: the zero-length entry keeps its kick next to a finite-length one -/
example (E m : ℝ) :
    (((dipoleBodyBatch [⟨0, 0.1, 0, 0, 0, 0, 0, 0, 0⟩, ⟨1, 0.1, 0, 0, 0, 0, 0, 0, 0⟩] E m).map Mat7.toM).head?).map
      (fun A => A 1 6) = some (0.1:ℝ) := by
  rw [dipole_batched_eq_map]
  have e0 : Scalar.eqb (0:ℝ) (0.0:ℝ) = true := by rw [Scalar.real_eqb]; norm_num
  have h00 : (0:ℝ) = 0.0 := by norm_num
  simp [dipoleBody, dipoleThin, Mat7.get, Mat7.row, Vec7.get, Mat7.ofRows, row7]
  rw [if_pos h00]

/-- KNOWN FINDING (negation with a witness): once any entry of the batch accelerates, the accelerating `T566`
formula is applied to every entry; for a zero-voltage neighbour its denominator `(γ₀ − γ₁)` vanishes (NaN in
floating point; 0 under ℝ's totalised division), whereas alone that entry gets `1.5·L/(γ₀²β₀³)` -/
theorem cavity_T566_crosstalk (k : Consts ℝ) (L ph f E : ℝ) (hL : L ≠ 0) (hm : 0 < k.mc2) (hE : k.mc2 < E) :
    (Elem.cavTFlag true k L 0 ph f E).t566 ≠ (Elem.cavT k L 0 ph f E).t566 := by
  have h10 : (0.0:ℝ) = 0 := by norm_num
  have hflag : Scalar.ltb (0.0:ℝ) (0 * Scalar.cos (deg2rad k ph)) = false := by
    rw [Scalar.real_ltb_false]; norm_num
  unfold Elem.cavT
  rw [hflag]
  unfold Elem.cavTFlag
  simp only [zero_mul, add_zero, sub_self, mul_zero, zero_mul, div_zero, if_true, Bool.false_eq_true, if_false]
  have hb := relFactors_beta_pos E k.mc2 hm hE
  have hig : (relFactors E k.mc2).igamma2 ≠ 0 := by
    rw [relFactors_eq E k.mc2 hm hE]; simp only
    have := gamma_gt_one E k.mc2 hm hE
    positivity
  intro h
  have : (1.5:ℝ) * L * (relFactors E k.mc2).igamma2 / Elem.cube (relFactors E k.mc2).beta ≠ 0 := by
    unfold Elem.cube
    have : (1.5:ℝ) ≠ 0 := by norm_num
    positivity
  exact this h.symm

end C04
