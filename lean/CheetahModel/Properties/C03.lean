import CheetahModel.Proofs.ElementMaps
import CheetahModel.Proofs.DriftSymplectic
import CheetahModel.Proofs.CoordSymplectic
/-!
# C03 — maps conserve phase-space volume (symplectic; cavity damps by E_in/E_out)

Statements only; the proofs are one-line applications of `Proofs/`.  `Symp6 M` is `Mᵀ S₆ M = S₆`
with `S₆ = blockdiag(J, J, −J)` (the τ pair sign-flipped: τ = c·Δt is time-like).  All statements are
about the real-number reading of the executable model in `Maps.lean`, which the correspondence check
ties to `/repo` on every run.  Hypotheses are exactly the guards the real code needs: a reference
energy above the rest energy (β > 0) and `k1 + hx² ≠ 0` (the code divides by it).
-/
open Matrix

namespace C03

/-- every `S₆`-symplectic map has determinant one -/
theorem det_one (M : Matrix (Fin 6) (Fin 6) ℝ) (h : Symp6 M) : M.det = 1 := det_eq_one_of_S6 M h

/-- six-dimensional phase-space volume of any beam (any covariance) is unchanged -/
theorem volume (M Sg : Matrix (Fin 6) (Fin 6) ℝ) (h : Symp6 M) : (M * Sg * Mᵀ).det = Sg.det :=
  volume_invariant M Sg h

/-- closure under composition (segments, tilt conjugation, edges) -/
theorem compose {A B : Matrix (Fin 6) (Fin 6) ℝ} (hA : Symp6 A) (hB : Symp6 B) : Symp6 (A * B) := hA.mul hB

theorem drift (L E m : ℝ) : Symp6 (block6 (driftMap L E m)) := driftMap_symplectic L E m

theorem quadrupole (L k1 mx my tilt E m : ℝ) (hm : 0 < m) (hE : m < E) :
    Symp6 (block6 (quadMap L k1 mx my tilt E m)) := quadMap_symplectic L k1 mx my tilt E m hm hE

theorem dipole (p : DipoleP ℝ) (E m : ℝ) (hm : 0 < m) (hE : m < E)
    (hk : guardK1 p.k1 + dipoleHx p.L p.angle * dipoleHx p.L p.angle ≠ 0) :
    Symp6 (block6 (dipoleMap p E m)) := dipoleMap_symplectic p E m hm hE hk

theorem rbend (p : DipoleP ℝ) (E m : ℝ) (hm : 0 < m) (hE : m < E)
    (hk : guardK1 p.k1 + dipoleHx p.L p.angle * dipoleHx p.L p.angle ≠ 0) :
    Symp6 (block6 (dipoleMap (rbendToDipole p) E m)) :=
  dipoleMap_symplectic (rbendToDipole p) E m hm hE (by simpa [rbendToDipole] using hk)

theorem solenoid (L k mx my E m : ℝ) : Symp6 (block6 (solenoidMap L k mx my E m)) :=
  solenoidMap_symplectic L k mx my E m

theorem hcorrector (L a E m : ℝ) : Symp6 (block6 (hcorMap L a E m)) := hcorMap_symplectic L a E m
theorem vcorrector (L a E m : ℝ) : Symp6 (block6 (vcorMap L a E m)) := vcorMap_symplectic L a E m
theorem undulator (L E m : ℝ) : Symp6 (block6 (undulatorMap L E m)) := undulator_symplectic L E m
theorem marker : Symp6 (block6 (identMap : Mat7 ℝ)) := identMap_symplectic

/-- zero-voltage cavity = `base_rmatrix(k1=0,hx=0)`: symplectic -/
theorem cavity_off (k : Consts ℝ) (L phase freq E : ℝ) (hm : 0 < k.mc2) (hE : k.mc2 < E) :
    Symp6 (block6 (cavityMap k L 0 phase freq E)) := by
  have h0 : Scalar.eqb (0:ℝ) (0.0:ℝ) = true := by rw [Scalar.real_eqb]; norm_num
  unfold cavityMap
  simp only [h0, if_true]
  apply baseR_symplectic _ _ _ _ _ _ hm hE
  norm_num; exact guardK1_ne_zero _

/-- an accelerating / decelerating cavity multiplies each transverse phase-space area by exactly
`E_in / E_out` (determinant of the (x,px) and of the (y,py) block of `_cavity_rmatrix`) -/
theorem cavity_damping (k : Consts ℝ) (L V phase freq E : ℝ)
    (hEf : (E + V * Real.cos (deg2rad k phase)) / k.mc2 ≠ 0)
    (hEp : ((E + V * Real.cos (deg2rad k phase)) / k.mc2 - E / k.mc2) / L ≠ 0)
    (hc : Real.cos (deg2rad k phase) ≠ 0) :
    let e := cavE k L V phase freq E
    e.r11 * e.r22 - e.r12 * e.r21 = (E / k.mc2) / ((E + V * Real.cos (deg2rad k phase)) / k.mc2) :=
  cavE_transverse_det k L V phase freq E hEf hEp hc

/-- the constant seventh component: every map Cheetah constructs has last row (0,…,0,1) … -/
theorem seventh_row :
    (∀ L E m : ℝ, (driftMap L E m).Affine) ∧
    (∀ L k1 mx my t E m : ℝ, (quadMap L k1 mx my t E m).Affine) ∧
    (∀ (p : DipoleP ℝ) (E m : ℝ), (dipoleMap p E m).Affine) ∧
    (∀ L k mx my E m : ℝ, (solenoidMap L k mx my E m).Affine) ∧
    (∀ L a E m : ℝ, (hcorMap L a E m).Affine) ∧ (∀ L a E m : ℝ, (vcorMap L a E m).Affine) ∧
    (∀ L E m : ℝ, (undulatorMap L E m).Affine) ∧ (∀ e : CavE ℝ, (cavRof e).Affine) ∧
    (identMap : Mat7 ℝ).Affine :=
  ⟨driftMap_affine, quadMap_affine, dipoleMap_affine, solenoidMap_affine, hcorMap_affine, vcorMap_affine,
    undulator_affine, cavRof_affine, identMap_affine⟩

/-- … closed under products (segments, merged maps) … -/
theorem seventh_row_mul (A B : Mat7 ℝ) (hA : A.Affine) (hB : B.Affine) : (Mat7.mul A B).Affine :=
  Mat7.affine_mul A B hA hB

/-- … hence the seventh component of every particle and of the beam mean stays exactly one -/
theorem seventh_component_one (M : Mat7 ℝ) (hM : M.Affine) (v : Vec7 ℝ) (hv : v.a6 = 1) :
    (Mat7.mulVec M v).a6 = 1 := by
  unfold Mat7.Affine at hM
  simp [Mat7.mulVec, hM, Mat7.dot, hv]

/-- planes that are not coupled keep their geometric emittance: a 2×2 block of determinant one
leaves `det Σ₂` unchanged -/
theorem emittance_plane_invariant (M S : Matrix (Fin 2) (Fin 2) ℝ) (h : M.det = 1) :
    (M * S * Mᵀ).det = S.det := by
  rw [Matrix.det_mul, Matrix.det_mul, Matrix.det_transpose, h]; ring

/-! ### the non-linear Bmad-X drift

In Bmad's coordinates `(x, px, y, py, z, pz)` all three pairs are canonical (`S₃ = blockdiag(J, J, J)`; the conversion to
Cheetah's `(τ, δ)` flips the sign of the third pair, which is why `S₆` carries `−J` there). -/

/-- every entry of the Jacobian of the Bmad-X drift kernel `track_a_drift`, at every transportable particle
(`1 + pz > 0`, `px² + py² < (1+pz)²`), any length, any reference momentum: the partial derivative of output coordinate
`i` with respect to input coordinate `j` is `jac i j` -/
theorem bmadx_drift_jacobian (L : ℝ) (p : BP ℝ) (p0c m : ℝ) (hP : 0 < 1 + p.pz)
    (hT : 0 < DriftSympl.sq p.px p.py p.pz) (hm : 0 < m) (i j : Fin 6) :
    HasDerivAt (fun t => DriftSympl.coord (trackADrift L (DriftSympl.setCoord p j t) p0c m) i)
      (DriftSympl.jac L p p0c m i j) (DriftSympl.coord p j) :=
  DriftSympl.jacobian_entries L p p0c m hP hT hm i j

/-- … and that Jacobian is symplectic: the non-linear Bmad-X drift conserves phase-space volume at every point, not
only to first order about the design orbit -/
theorem bmadx_drift_symplectic (L : ℝ) (p : BP ℝ) (p0c m : ℝ) :
    (DriftSympl.jac L p p0c m).transpose * DriftSympl.S3 * DriftSympl.jac L p p0c m = DriftSympl.S3 :=
  DriftSympl.jacobian_symplectic L p p0c m

/-- the Jacobian of Cheetah's longitudinal coordinates in terms of Bmad's, `(τ, δ) ↦ (z, pz)` (`cheetah_to_bmad_z_pz`), entry
by entry, for every physical particle (energy above the rest energy): `[[−β, −β'τ], [0, 1/β]]` -/
theorem zpz_jacobian_entries (E0 m d tau : ℝ) (hE : 0 < CoordSympl.en E0 m d)
    (hp : 0 < CoordSympl.en E0 m d * CoordSympl.en E0 m d - m * m) (hp0 : 0 < E0 * E0 - m * m) :
    HasDerivAt (fun t => (toBmad t d E0 m).z) (-(CoordSympl.beta E0 m d)) tau ∧
    HasDerivAt (fun t => (toBmad tau t E0 m).z)
      (-(√(E0 * E0 - m * m) * (m * m) / (CoordSympl.pc E0 m d * (CoordSympl.en E0 m d * CoordSympl.en E0 m d))) * tau) d ∧
    HasDerivAt (fun t => (toBmad t d E0 m).pz) 0 tau ∧
    HasDerivAt (fun t => (toBmad tau t E0 m).pz) (1 / CoordSympl.beta E0 m d) d :=
  ⟨CoordSympl.dz_dtau E0 m d tau hE hp, CoordSympl.dz_ddelta E0 m d tau hE hp, CoordSympl.dpz_dtau E0 m d tau,
   CoordSympl.dpz_ddelta E0 m d tau hE hp hp0⟩

/-- … its determinant is −1: the change of coordinates is anti-canonical, which is why `S₆` carries `−J` in the third pair -/
theorem zpz_jacobian_det (E0 m d tau : ℝ) (hE : 0 < CoordSympl.en E0 m d)
    (hp : 0 < CoordSympl.en E0 m d * CoordSympl.en E0 m d - m * m) (hp0 : 0 < E0 * E0 - m * m) :
    (!![-(CoordSympl.beta E0 m d),
        -(√(E0 * E0 - m * m) * (m * m) / (CoordSympl.pc E0 m d * (CoordSympl.en E0 m d * CoordSympl.en E0 m d))) * tau;
        0, 1 / CoordSympl.beta E0 m d] : Matrix (Fin 2) (Fin 2) ℝ).det = -1 :=
  CoordSympl.jacobian_det E0 m d tau hE hp hp0

/-- **the Bmad-X drift in Cheetah coordinates preserves `S₆`**: with the coordinate-change Jacobians at the entrance (`k₁`)
and at the exit (`k₂`; δ is unchanged by a drift, τ is not) — both of determinant −1 — the chain-rule product
`K₂⁻¹ · jac · K₁` is `S₆`-symplectic, at every transportable particle -/
theorem bmadx_drift_symplectic_cheetah (L : ℝ) (p : BP ℝ) (p0c m : ℝ) (k1 k2 : Matrix (Fin 2) (Fin 2) ℝ)
    (h1 : k1.det = -1) (h2 : k2.det = -1) :
    ((CoordSympl.lift k2)⁻¹ * DriftSympl.jac L p p0c m * CoordSympl.lift k1)ᵀ * CoordSympl.S6c *
      ((CoordSympl.lift k2)⁻¹ * DriftSympl.jac L p p0c m * CoordSympl.lift k1) = CoordSympl.S6c :=
  CoordSympl.conj_symplectic _ _ _ (CoordSympl.lift_pullback k1 h1) (CoordSympl.lift_pullback k2 h2)
    (DriftSympl.jacobian_symplectic L p p0c m) (CoordSympl.lift_isUnit k2 h2)

/-- non-vacuity: a particle 1 mrad / 2 mrad off axis with 3 % momentum deviation is transportable -/
example : (0:ℝ) < 1 + 0.03 ∧ 0 < DriftSympl.sq 0.001 0.002 (0.03:ℝ) := by
  unfold DriftSympl.sq; constructor <;> norm_num

/-! non-vacuity: the hypotheses are satisfiable by concrete physical settings -/
example : (0:ℝ) < 510998.95 ∧ (510998.95:ℝ) < 6e6 ∧ guardK1 4.2 + (0.0:ℝ) * 0.0 ≠ 0 := by
  refine ⟨by norm_num, by norm_num, ?_⟩
  unfold guardK1; norm_num
example : guardK1 0 + (0.3:ℝ) * 0.3 ≠ 0 := by unfold guardK1; norm_num

end C03
