import CheetahModel.Proofs.BmadxProofs
import CheetahModel.Proofs.QuadFlow
import CheetahModel.Proofs.DriftJacobian
import CheetahModel.Proofs.QuadLinear
import CheetahModel.Proofs.Conj
/-!
# C07 — Bmad-X tracking is an exact flow (drift), straight-line motion, TDC at zero voltage = drift

Partial: the theorems cover the exact drift kernel, the `Drift` element including the coordinate
conversions, the transverse deflecting cavity at zero voltage, and the quadrupole body (all six coordinates,
either sign of `k1`, any `num_steps`; at the regularisation `eps = 0`, the code uses 2.2e-16).  For on-momentum particles
the quadrupole is shown to act transversally exactly like the linear map (hence equal transverse Jacobians).  Bend-body
exactness and the remaining Jacobian = linear-map statements are decided by the falsifier on the real code
(autograd Jacobians, piece composition, numerically integrated motion) and by the correspondence of
the kernels with this model.
-/
namespace C07

/-- the Bmad-X drift kernel is a flow in the length … -/
theorem drift_kernel_flow (a b : ℝ) (p : BP ℝ) (p0c m : ℝ) :
    trackADrift b (trackADrift a p p0c m) p0c m = trackADrift (a + b) p p0c m := trackADrift_add a b p p0c m

theorem drift_kernel_zero (p : BP ℝ) (p0c m : ℝ) : trackADrift 0 p p0c m = p := trackADrift_zero p p0c m

/-- … and so is the `Drift` element with `tracking_method="bmadx"`, conversions included -/
theorem drift_element_flow (a b : ℝ) (v : Vec7 ℝ) (E0 m : ℝ) (hm : 0 < m)
    (hp0 : 0 < (vecToBP v E0 m).2) (hP : 0 < 1 + (vecToBP v E0 m).1.pz) :
    bmadxDrift b (bmadxDrift a v E0 m).1 (bmadxDrift a v E0 m).2 m = bmadxDrift (a + b) v E0 m :=
  bmadxDrift_add a b v E0 m hm hp0 hP

/-- the Bmad-X drift reproduces straight-line motion exactly -/
theorem drift_straight_line (L : ℝ) (p : BP ℝ) (p0c m : ℝ) (hP : 0 < 1 + p.pz)
    (hT : p.px * p.px + p.py * p.py < (1 + p.pz) * (1 + p.pz)) :
    (trackADrift L p p0c m).x - p.x = L * p.px / √((1 + p.pz) * (1 + p.pz) - p.px * p.px - p.py * p.py) ∧
    (trackADrift L p p0c m).y - p.y = L * p.py / √((1 + p.pz) * (1 + p.pz) - p.px * p.px - p.py * p.py) :=
  _root_.drift_straight_line L p p0c m hP hT

/-- momenta are untouched by the drift -/
theorem drift_momenta (L : ℝ) (p : BP ℝ) (p0c m : ℝ) :
    (trackADrift L p p0c m).px = p.px ∧ (trackADrift L p p0c m).py = p.py ∧ (trackADrift L p p0c m).pz = p.pz :=
  trackADrift_fields L p p0c m

/-- a transverse deflecting cavity at zero voltage is exactly a Bmad-X drift (in its own frame) -/
theorem tdc_zero_voltage_is_drift (k : Consts ℝ) (L phase freq mx my tilt : ℝ) (v : Vec7 ℝ) (E0 : ℝ)
    (hp0 : 0 < (vecToBP v E0 k.mc2).2) (hP : 0 < 1 + (vecToBP v E0 k.mc2).1.pz) :
    bmadxTDC k L 0 phase freq mx my tilt v E0 =
      bpToVec (offsetUnset mx my tilt (trackADrift L (offsetSet mx my tilt (vecToBP v E0 k.mc2).1)
        (vecToBP v E0 k.mc2).2 k.mc2)) (vecToBP v E0 k.mc2).2 k.mc2 :=
  tdc_zero_voltage k L phase freq mx my tilt v E0 hp0 hP


/-- the Bmad-X quadrupole body is a flow: a step of length `a` followed by a step of length `b` is the step of length
`a + b` (x, px, y, py, z, pz; focusing and defocusing plane; every momentum deviation with `1 + pz > 0`) -/
theorem quad_body_flow (L k1 a b : ℝ) (p : BP ℝ) (p0c mc2 : ℝ) (hk : k1 ≠ 0) (hr : 0 < 1 + p.pz) :
    bmadxQuadStep L k1 b 0 (bmadxQuadStep L k1 a 0 p p0c mc2) p0c mc2 = bmadxQuadStep L k1 (a + b) 0 p p0c mc2 :=
  QuadFlow.bmadxQuadStep_add L k1 a b p p0c mc2 hk hr

/-- … hence the tracked particle does not depend on `num_steps` (misalignment and tilt included) -/
theorem quad_num_steps_independent (L k1 mx my tilt : ℝ) (n : ℕ) (v : Vec7 ℝ) (E0 mc2 : ℝ) (hk : k1 ≠ 0)
    (hp : 0 < 1 + (vecToBP v E0 mc2).1.pz) :
    bmadxQuad L k1 mx my tilt (n + 1) 0 v E0 mc2 = bmadxQuad L k1 mx my tilt 1 0 v E0 mc2 :=
  QuadFlow.bmadxQuad_num_steps L k1 mx my tilt n v E0 mc2 hk hp

/-- the linear drift map's R56 in closed form -/
theorem drift_r56_closed (L E0 m : ℝ) (hm : 0 < m) (hE : m < E0) :
    driftR56 L E0 m = -(L * (m * m)) / (E0 * E0 - m * m) := by
  rw [driftR56_physical L E0 m hm hE, beta_gamma_sq E0 m hm hE, relFactors_eq E0 m hm hE]
  have hm0 : m ≠ 0 := hm.ne'
  have h : E0 * E0 - m * m ≠ 0 := by nlinarith
  have h' : (E0 / m) ^ 2 - 1 ≠ 0 := by
    have : (E0 / m) ^ 2 - 1 = (E0 * E0 - m * m) / (m * m) := by field_simp
    rw [this]; exact div_ne_zero h (mul_ne_zero hm0 hm0)
  simp only
  field_simp

/-- **the Jacobian of the Bmad-X drift about its design orbit equals the linear drift map** (entries obtained by verified
forward-mode differentiation of the model, `Proofs/DriftJacobian.lean`): R12 = R34 = L, R56 = the linear map's R56, the
diagonal is 1, no dispersion and no path-length dependence on the transverse momenta on the design orbit -/
theorem drift_jacobian_is_linear_map (L E0 m : ℝ) (hm : 0 < m) (hE : m < E0) :
    HasDerivAt (fun t => (bmadxDrift L ⟨0, t, 0, 0, 0, 0, 1⟩ E0 m).1.a0) ((driftMap L E0 m).get 0 1) 0 ∧
    HasDerivAt (fun t => (bmadxDrift L ⟨0, 0, 0, t, 0, 0, 1⟩ E0 m).1.a2) ((driftMap L E0 m).get 2 3) 0 ∧
    HasDerivAt (fun t => (bmadxDrift L ⟨0, 0, 0, 0, 0, t, 1⟩ E0 m).1.a4) ((driftMap L E0 m).get 4 5) 0 ∧
    HasDerivAt (fun t => (bmadxDrift L ⟨t, 0, 0, 0, 0, 0, 1⟩ E0 m).1.a0) ((driftMap L E0 m).get 0 0) 0 ∧
    HasDerivAt (fun t => (bmadxDrift L ⟨0, 0, 0, 0, t, 0, 1⟩ E0 m).1.a4) ((driftMap L E0 m).get 4 4) 0 ∧
    HasDerivAt (fun t => (bmadxDrift L ⟨0, 0, 0, 0, 0, t, 1⟩ E0 m).1.a5) ((driftMap L E0 m).get 5 5) 0 ∧
    HasDerivAt (fun t => (bmadxDrift L ⟨0, 0, 0, 0, 0, t, 1⟩ E0 m).1.a0) ((driftMap L E0 m).get 0 5) 0 ∧
    HasDerivAt (fun t => (bmadxDrift L ⟨0, t, 0, 0, 0, 0, 1⟩ E0 m).1.a4) ((driftMap L E0 m).get 4 1) 0 := by
  have e : ∀ i j, (driftMap L E0 m).get i j = (driftLike L (driftR56 L E0 m)).get i j := fun _ _ => rfl
  have r := drift_r56_closed L E0 m hm hE
  refine ⟨?_, ?_, ?_, ?_, ?_, ?_, ?_, ?_⟩
  · convert DriftJacobian.dx_dpx L E0 m hm hE using 1
    simp [driftMap, driftLike, Mat7.get, Mat7.row, Vec7.get, Mat7.ofRows, row7]
  · convert DriftJacobian.dy_dpy L E0 m hm hE using 1
    simp [driftMap, driftLike, Mat7.get, Mat7.row, Vec7.get, Mat7.ofRows, row7]
  · convert DriftJacobian.dtau_ddelta L E0 m hm hE using 1
    rw [e]; simp [driftLike, Mat7.get, Mat7.row, Vec7.get, Mat7.ofRows, row7, r]
  · convert DriftJacobian.dx_dx L E0 m hm hE using 1
    simp [driftMap, driftLike, Mat7.get, Mat7.row, Vec7.get, Mat7.ofRows, row7]; norm_num
  · convert DriftJacobian.dtau_dtau L E0 m hm hE using 1
    simp [driftMap, driftLike, Mat7.get, Mat7.row, Vec7.get, Mat7.ofRows, row7]; norm_num
  · convert DriftJacobian.ddelta_ddelta L E0 m hm hE using 1
    simp [driftMap, driftLike, Mat7.get, Mat7.row, Vec7.get, Mat7.ofRows, row7]; norm_num
  · convert DriftJacobian.dx_ddelta L E0 m hm hE using 1
    simp [driftMap, driftLike, Mat7.get, Mat7.row, Vec7.get, Mat7.ofRows, row7]; norm_num
  · convert DriftJacobian.dtau_dpx L E0 m hm hE using 1
    simp [driftMap, driftLike, Mat7.get, Mat7.row, Vec7.get, Mat7.ofRows, row7]; norm_num

/-- **Quadrupole, on-momentum particles.**  For every particle with `δ = 0` — any amplitude — the aligned Bmad-X
quadrupole (`eps = 0`, either sign of `k1`, any `num_steps ≥ 1`) produces exactly the transverse coordinates of the
linear `Quadrupole.transfer_map` and keeps `δ = 0`. -/
theorem quad_onmomentum_is_linear_map (L k1 : ℝ) (n : ℕ) (x px y py tau E0 m : ℝ) (hm : 0 < m) (hE : m < E0)
    (hk : k1 ≠ 0) :
    let v : Vec7 ℝ := ⟨x, px, y, py, tau, 0, 1⟩
    let out := (bmadxQuad L k1 0 0 0 (n + 1) 0 v E0 m).1
    let lin := (quadMap L k1 0 0 0 E0 m).mulVec v
    out.a0 = lin.a0 ∧ out.a1 = lin.a1 ∧ out.a2 = lin.a2 ∧ out.a3 = lin.a3 ∧ out.a5 = 0 :=
  QuadLinear.quad_onmomentum L k1 n x px y py tau E0 m hm hE hk

/-- … hence its transverse Jacobian is the linear map's, at every on-momentum point (entries of both planes shown:
`∂x'/∂x`, `∂x'/∂px`, `∂px'/∂x`, `∂py'/∂y`) -/
theorem quad_transverse_jacobian (L k1 : ℝ) (n : ℕ) (x px y py tau E0 m : ℝ) (hm : 0 < m) (hE : m < E0)
    (hk : k1 ≠ 0) :
    HasDerivAt (fun t => (bmadxQuad L k1 0 0 0 (n + 1) 0 ⟨t, px, y, py, tau, 0, 1⟩ E0 m).1.a0)
      ((quadMap L k1 0 0 0 E0 m).get 0 0) x ∧
    HasDerivAt (fun t => (bmadxQuad L k1 0 0 0 (n + 1) 0 ⟨x, t, y, py, tau, 0, 1⟩ E0 m).1.a0)
      ((quadMap L k1 0 0 0 E0 m).get 0 1) px ∧
    HasDerivAt (fun t => (bmadxQuad L k1 0 0 0 (n + 1) 0 ⟨t, px, y, py, tau, 0, 1⟩ E0 m).1.a1)
      ((quadMap L k1 0 0 0 E0 m).get 1 0) x ∧
    HasDerivAt (fun t => (bmadxQuad L k1 0 0 0 (n + 1) 0 ⟨x, px, t, py, tau, 0, 1⟩ E0 m).1.a3)
      ((quadMap L k1 0 0 0 E0 m).get 3 2) y :=
  ⟨QuadLinear.dx_dx L k1 n x px y py tau E0 m hm hE hk, QuadLinear.dx_dpx L k1 n x px y py tau E0 m hm hE hk,
   QuadLinear.dpx_dx L k1 n x px y py tau E0 m hm hE hk, QuadLinear.dpy_dy L k1 n x px y py tau E0 m hm hE hk⟩

/-- non-vacuity of the hypotheses: a real quadrupole strength and an on-momentum particle -/
example : (2.5 : ℝ) ≠ 0 ∧ 0 < 1 + ({ x := 1e-3, px := 0, y := 0, py := 0, z := 0, pz := 0 } : BP ℝ).pz := by
  norm_num

end C07
