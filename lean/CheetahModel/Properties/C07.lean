import CheetahModel.Proofs.BmadxProofs
/-!
# C07 — Bmad-X tracking is an exact flow (drift), straight-line motion, TDC at zero voltage = drift

Partial: the theorems cover the exact drift kernel, the `Drift` element including the coordinate
conversions, and the transverse deflecting cavity at zero voltage.  Quadrupole-step flow, bend-body
exactness and the Jacobian = linear-map statements are decided by the falsifier on the real code
(autograd Jacobians, piece composition, numerically integrated motion) and by the correspondence of
the kernels with this model.
-/
namespace C07

/-- the Bmad-X drift kernel is a flow in the length … -/
theorem drift_kernel_flow (a b : ℝ) (p : BP ℝ) (p0c m : ℝ) :
    trackADrift b (trackADrift a p p0c m) p0c m = trackADrift (a + b) p p0c m := trackADrift_add a b p p0c m

theorem drift_kernel_zero (p : BP ℝ) (p0c m : ℝ) : trackADrift 0 p p0c m = p := trackADrift_zero p p0c m

/-- … and so is the `Drift` element with `tracking_method="bmadx"`, conversions included -/
theorem drift_element_flow (a b : ℝ) (v : Vec7 ℝ) (E0 m : ℝ) (hm : 0 < m)
    (hp0 : 0 < (vecToBP v E0 m).2) (hP : 0 < 1 + (vecToBP v E0 m).1.pz) :
    bmadxDrift b (bmadxDrift a v E0 m).1 (bmadxDrift a v E0 m).2 m = bmadxDrift (a + b) v E0 m :=
  bmadxDrift_add a b v E0 m hm hp0 hP

/-- the Bmad-X drift reproduces straight-line motion exactly -/
theorem drift_straight_line (L : ℝ) (p : BP ℝ) (p0c m : ℝ) (hP : 0 < 1 + p.pz)
    (hT : p.px * p.px + p.py * p.py < (1 + p.pz) * (1 + p.pz)) :
    (trackADrift L p p0c m).x - p.x = L * p.px / √((1 + p.pz) * (1 + p.pz) - p.px * p.px - p.py * p.py) ∧
    (trackADrift L p p0c m).y - p.y = L * p.py / √((1 + p.pz) * (1 + p.pz) - p.px * p.px - p.py * p.py) :=
  _root_.drift_straight_line L p p0c m hP hT

/-- momenta are untouched by the drift -/
theorem drift_momenta (L : ℝ) (p : BP ℝ) (p0c m : ℝ) :
    (trackADrift L p p0c m).px = p.px ∧ (trackADrift L p p0c m).py = p.py ∧ (trackADrift L p p0c m).pz = p.pz :=
  trackADrift_fields L p p0c m

/-- a transverse deflecting cavity at zero voltage is exactly a Bmad-X drift (in its own frame) -/
theorem tdc_zero_voltage_is_drift (k : Consts ℝ) (L phase freq mx my tilt : ℝ) (v : Vec7 ℝ) (E0 : ℝ)
    (hp0 : 0 < (vecToBP v E0 k.mc2).2) (hP : 0 < 1 + (vecToBP v E0 k.mc2).1.pz) :
    bmadxTDC k L 0 phase freq mx my tilt v E0 =
      bpToVec (offsetUnset mx my tilt (trackADrift L (offsetSet mx my tilt (vecToBP v E0 k.mc2).1)
        (vecToBP v E0 k.mc2).2 k.mc2)) (vecToBP v E0 k.mc2).2 k.mc2 :=
  tdc_zero_voltage k L phase freq mx my tilt v E0 hp0 hP

end C07
