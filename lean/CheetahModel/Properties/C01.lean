import CheetahModel.Proofs.SemLawful
import CheetahModel.Proofs.Tables
/-!
# C01 — Segment tracking is the ordered composition of its elements

`Lat.track` is the code's algorithm (`Segment.track`: one merged map if every element is skippable,
otherwise the grouping loop over maximal runs of skippable elements; `Element.track`;
`Segment.transfer_map`).  `Lat.seq` tracks the elements one after another in lattice order.  The
theorems hold for **every** lattice (any ordering, nesting, element kinds) and every beam, for any
semantics satisfying the linear contract `Sem.Lawful` — which the model's concrete ParticleBeam and
ParameterBeam semantics over all element kinds do (`semP_lawful`, `semM_lawful`).
-/

namespace C01
variable {E S M En : Type} (σ : Sem E S M En)

/-- tracking a segment = tracking its elements one after another in lattice order -/
theorem track_seg_eq_fold (h : σ.Lawful) (ls : List (Lat E)) (s : S) :
    Lat.track σ (.seg ls) s = Lat.seq σ ls s := Lat.track_seg_eq_seq σ h ls s

/-- `Lat.seq` is the left fold of `track` -/
theorem seq_is_fold (ls : List (Lat E)) (s : S) :
    Lat.seq σ ls s = ls.foldl (fun s l => Lat.track σ l s) s := by
  induction ls generalizing s with
  | nil => rfl
  | cons l ls ih => simp [Lat.seq, ih]

/-- nesting consecutive elements into a sub-segment does not change the outgoing beam -/
theorem track_nest (h : σ.Lawful) (a b c : List (Lat E)) (s : S) :
    Lat.track σ (.seg (a ++ [.seg b] ++ c)) s = Lat.track σ (.seg (a ++ b ++ c)) s :=
  Lat.track_nest σ h a b c s

/-- flattening nested segments does not change the outgoing beam -/
theorem track_flatten (h : σ.Lawful) (ls : List (Lat E)) (s : S) :
    Lat.track σ (.seg (Lat.flatL ls)) s = Lat.track σ (.seg ls) s := Lat.track_flatten σ h ls s

/-- cutting the lattice into consecutive sub-cells and tracking them in turn -/
theorem track_cut (h : σ.Lawful) (a b : List (Lat E)) (s : S) :
    Lat.track σ (.seg (a ++ b)) s = Lat.track σ (.seg b) (Lat.track σ (.seg a) s) := Lat.track_cut σ h a b s

/-- `subcell(start, end)` returns exactly the stretch from the element named `start` to the element named `end` -/
theorem subcell_spec {N : Type} [DecidableEq N] (name : Lat E → N) (start stop : N)
    (pre mid post : List (Lat E)) (s e : Lat E) (hs : name s = start) (he : name e = stop)
    (hpre : ∀ l ∈ pre, name l ≠ start ∧ name l ≠ stop) (hsn : name s ≠ stop)
    (hmid : ∀ l ∈ mid, name l ≠ stop) :
    Lat.subcell name start stop (pre ++ [s] ++ mid ++ [e] ++ post) = [s] ++ mid ++ [e] :=
  Lat.subcell_spec name start stop pre mid post s e hs he hpre hsn hmid

/-- a segment's length is the sum of its elements' lengths; flattening preserves it -/
theorem length_flatten (ls : List (Lat E)) (len : E → Int) :
    Lat.lengthL (0 : Int) (· + ·) len (Lat.flatL ls) = Lat.lengthL (0 : Int) (· + ·) len ls :=
  Lat.lengthL_flatL 0 (· + ·) len (by simp) (by simp) (by intros; omega) ls

theorem length_append (a b : List (Lat E)) (len : E → Int) :
    Lat.lengthL (0 : Int) (· + ·) len (a ++ b)
      = Lat.lengthL (0 : Int) (· + ·) len a + Lat.lengthL (0 : Int) (· + ·) len b :=
  Lat.lengthL_append 0 (· + ·) len (by simp) (by intros; omega) a b

/-- the model's concrete semantics satisfy the contract, for both beam types and all element kinds -/
theorem particle_beam_semantics_lawful (k : Consts ℝ) : (semP k).Lawful := semP_lawful k
theorem parameter_beam_semantics_lawful (k : Consts ℝ) : (semM k).Lawful := semM_lawful k

/-- hence, for real-number ParticleBeams / ParameterBeams and every lattice of the modelled elements -/
theorem particle_beam (k : Consts ℝ) (ls : List (Lat (Elem ℝ))) (b : PBeam ℝ) :
    Lat.track (semP k) (.seg ls) b = Lat.seq (semP k) ls b := Lat.track_seg_eq_seq _ (semP_lawful k) ls b
theorem parameter_beam (k : Consts ℝ) (ls : List (Lat (Elem ℝ))) (b : MBeam ℝ) :
    Lat.track (semM k) (.seg ls) b = Lat.seq (semM k) ls b := Lat.track_seg_eq_seq _ (semM_lawful k) ls b

/-! non-vacuity: a lattice with a non-skippable, energy-changing element between two runs of skippables -/
example (k : Consts ℝ) (b : PBeam ℝ) :
    Lat.track (semP k) (.seg [.elem (.drift 1), .elem (.quad 0.2 3 0 0 0), .elem (.cavity 1 1e6 0 1.3e9),
      .seg [.elem (.drift 0.5), .elem .marker]]) b =
    Lat.seq (semP k) [.elem (.drift 1), .elem (.quad 0.2 3 0 0 0), .elem (.cavity 1 1e6 0 1.3e9),
      .seg [.elem (.drift 0.5), .elem .marker]] b := particle_beam k _ b

/-- the `is_skippable` / `is_active` normal forms and the tracking-method dispatch of every element class of
/repo (regenerated on every run) are the reviewed ones: energy-changing elements (Cavity: `not is_active`),
non-linear ones (SpaceChargeKick, TransverseDeflectingCavity: `False`; Bmad-X tracked: `tracking_method == 'cheetah'`)
and active diagnostics / apertures are never unconditionally skippable -/
theorem skippability_table : Gen.predicates = Gen.pinnedPredicates := by decide +kernel

theorem energy_changing_or_nonlinear_not_skippable :
    ((Gen.findPred "Cavity").map (·.isSkippable)) = some "not self.is_active" ∧
    ((Gen.findPred "SpaceChargeKick").map (·.isSkippable)) = some "False" ∧
    ((Gen.findPred "TransverseDeflectingCavity").map (·.isSkippable)) = some "False" ∧
    ((Gen.findPred "Drift").map (·.isSkippable)) = some "self.tracking_method == 'cheetah'" ∧
    ((Gen.findPred "Quadrupole").map (·.isSkippable)) = some "self.tracking_method == 'cheetah'" ∧
    ((Gen.findPred "Dipole").map (·.isSkippable)) = some "self.tracking_method == 'cheetah'" ∧
    ((Gen.findPred "Aperture").map (·.isSkippable)) = some "not self.is_active" ∧
    ((Gen.findPred "Screen").map (·.isSkippable)) = some "not self.is_active" ∧
    ((Gen.findPred "BPM").map (·.isSkippable)) = some "not self.is_active" := by decide +kernel

end C01
