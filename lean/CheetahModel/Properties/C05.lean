import CheetahModel.Proofs.DualProofs
/-!
# C05 — autograd gradients equal the true derivatives and are finite  (partial)

`Dual ℝ` (value, tangent) is the model of what autograd computes for the traced program; the
correspondence check compares `torch.autograd.grad` of every entry of `Quadrupole.transfer_map` w.r.t. every
parameter with the tangents of `quadMapDual` at `Dual Float` (they agree, guard points included).
Proved here: away from the guard the tangents of the focusing functions are the true derivatives
(`HasDerivAt`), so is the entry `R[1,0]`; at exactly `k1 = 0` the tangent is 0 although the derivative
is not (known finding).  PyTorch's reverse-mode engine (NaN from `0·∞` in an unselected `where`
branch) is not modelled: the falsifier (autograd vs central finite differences) covers it.
-/
namespace C05

theorem focusing_cos_gradient (k L : ℝ) (hk : 0 < k) :
    HasDerivAt (fun t => Real.cos (√t * L)) ((cs (Dual.var k) (Dual.const L)).c.d) k := cs_c_dual_correct k L hk

theorem focusing_sin_gradient (k L : ℝ) (hk : 0 < k) :
    HasDerivAt (fun t => Real.sin (√t * L) / √t) ((cs (Dual.var k) (Dual.const L)).s.d) k := cs_s_dual_correct k L hk

theorem quad_r10_gradient (k L : ℝ) (hk : 0 < k) :
    HasDerivAt (fun t => -t * (Real.sin (√t * L) / √t))
      (-(Real.sin (√k * L) / √k) + -k * (cs (Dual.var k) (Dual.const L)).s.d) k := quad_r10_derivative k L hk

/-- away from zero the strength's tangent passes through the guard -/
theorem guard_transparent (k1 : ℝ) (h : k1 ≠ 0) :
    (if Scalar.eqb (Dual.var k1) (0.0 : Dual ℝ) then (1e-12 : Dual ℝ) else Dual.var k1).d = (1.0:ℝ) :=
  guard_dual_ne k1 h

/-- KNOWN FINDING: at exactly zero strength the guard detaches the parameter — the gradient is 0 -/
theorem guard_kills_gradient_at_zero :
    (if Scalar.eqb (Dual.var (0:ℝ)) (0.0 : Dual ℝ) then (1e-12 : Dual ℝ) else Dual.var 0).d = (0.0:ℝ) :=
  guard_dual_zero

end C05
