import CheetahModel.Proofs.DualProofs
import CheetahModel.Proofs.DualSound
import CheetahModel.Proofs.ReverseProofs
import CheetahModel.Proofs.CsReverse
/-!
# C05 — autograd gradients equal the true derivatives and are finite  (partial)

`Dual ℝ` (value, tangent) is the model of what autograd computes for the traced program; the
correspondence check compares `torch.autograd.grad` of every entry of `Quadrupole.transfer_map` w.r.t. every
parameter with the tangents of `quadMapDual` at `Dual Float` (they agree, guard points included).
Proved here: away from the guard the tangents of the focusing functions are the true derivatives
(`HasDerivAt`), so is the entry `R[1,0]`; at exactly `k1 = 0` the tangent is 0 although the derivative
is not (known finding).  PyTorch's reverse-mode engine is modelled over expression programs (`Reverse.lean`: a backward
pass with the local partial derivatives of `derivatives.yaml`, both arms of a `where` receiving a cotangent) and tied to
`torch.autograd.grad` by the correspondence `rev` — at `Float` the model reproduces the NaN from `0·∞` in an unselected
`where` arm; over ℝ it is proved equal to forward mode for every program and to the derivative for every smooth one.
-/
namespace C05

theorem focusing_cos_gradient (k L : ℝ) (hk : 0 < k) :
    HasDerivAt (fun t => Real.cos (√t * L)) ((cs (Dual.var k) (Dual.const L)).c.d) k := cs_c_dual_correct k L hk

theorem focusing_sin_gradient (k L : ℝ) (hk : 0 < k) :
    HasDerivAt (fun t => Real.sin (√t * L) / √t) ((cs (Dual.var k) (Dual.const L)).s.d) k := cs_s_dual_correct k L hk

theorem quad_r10_gradient (k L : ℝ) (hk : 0 < k) :
    HasDerivAt (fun t => -t * (Real.sin (√t * L) / √t))
      (-(Real.sin (√k * L) / √k) + -k * (cs (Dual.var k) (Dual.const L)).s.d) k := quad_r10_derivative k L hk

/-- away from zero the strength's tangent passes through the guard -/
theorem guard_transparent (k1 : ℝ) (h : k1 ≠ 0) :
    (if Scalar.eqb (Dual.var k1) (0.0 : Dual ℝ) then (1e-12 : Dual ℝ) else Dual.var k1).d = (1.0:ℝ) :=
  guard_dual_ne k1 h

/-- KNOWN FINDING: at exactly zero strength the guard detaches the parameter — the gradient is 0 -/
theorem guard_kills_gradient_at_zero :
    (if Scalar.eqb (Dual.var (0:ℝ)) (0.0 : Dual ℝ) then (1e-12 : Dual ℝ) else Dual.var 0).d = (0.0:ℝ) :=
  guard_dual_zero


/-- soundness of forward-mode differentiation, operation by operation: if the operands carry (value, derivative) of `f`,
`g` at `x`, so does the result — at every point where the real operation is differentiable (the side conditions are
exactly the guards of C05's recorded findings) -/
theorem ad_sound_arith {a b : Dual ℝ} {f g : ℝ → ℝ} {x : ℝ} (ha : Tracks a f x) (hb : Tracks b g x) :
    Tracks (a + b) (fun t => f t + g t) x ∧ Tracks (a - b) (fun t => f t - g t) x ∧
    Tracks (a * b) (fun t => f t * g t) x ∧ Tracks (-a) (fun t => -f t) x ∧
    (g x ≠ 0 → Tracks (a / b) (fun t => f t / g t) x) :=
  ⟨ha.add hb, ha.sub hb, ha.mul hb, ha.neg, fun h => ha.div hb h⟩

theorem ad_sound_functions {a : Dual ℝ} {f : ℝ → ℝ} {x : ℝ} (ha : Tracks a f x) :
    Tracks (Scalar.sin a) (fun t => Real.sin (f t)) x ∧ Tracks (Scalar.cos a) (fun t => Real.cos (f t)) x ∧
    Tracks (Scalar.sinh a) (fun t => Real.sinh (f t)) x ∧ Tracks (Scalar.cosh a) (fun t => Real.cosh (f t)) x ∧
    Tracks (Scalar.exp a) (fun t => Real.exp (f t)) x ∧ Tracks (Scalar.atan a) (fun t => Real.arctan (f t)) x ∧
    (f x ≠ 0 → Tracks (Scalar.sqrt a) (fun t => √(f t)) x ∧ Tracks (Scalar.log a) (fun t => Real.log (f t)) x ∧
      Tracks (Scalar.abs a) (fun t => |f t|) x) :=
  ⟨ha.sin, ha.cos, ha.sinh, ha.cosh, ha.exp, ha.atan, fun h => ⟨ha.sqrt h, ha.log h, ha.abs h⟩⟩

/-- leaves: the differentiation variable, constants, literals -/
theorem ad_sound_leaves (c x : ℝ) : Tracks (Dual.var x) (fun t => t) x ∧ Tracks (Dual.const c) (fun _ => c) x :=
  ⟨Tracks.var x, Tracks.const c x⟩

/-- an end-to-end instance through a guarded model function: the gradient of the drift's R56 w.r.t. the beam energy -/
theorem drift_r56_energy_gradient (L E m : ℝ) (hm : 0 < m) (hE : m < E) :
    Tracks (driftR56 (Dual.const L) (Dual.var E) (Dual.const m)) (fun e => driftR56 L e m) E :=
  driftR56_energy_gradient L E m hm hE

/-- **reverse mode = forward mode**: for every expression program, environment, output cotangent and accumulator, a
backward pass adds `ct · (forward-mode tangent)` to the accumulator of every variable — no side condition -/
theorem reverse_eq_forward (env : Nat → ℝ) (e : Ex ℝ) (ct : ℝ) (acc : Nat → ℝ) (j : Nat) :
    Ex.back env e ct acc j = acc j + ct * (Ex.fwd env j e).d := Ex.back_eq env e ct acc j

/-- forward mode carries value and partial derivative of every smooth program (induction over programs, `where` included) -/
theorem forward_is_derivative (env : Nat → ℝ) (i : Nat) (e : Ex ℝ) (h : e.Smooth env) :
    Tracks (Ex.fwd env i e) (fun t => Ex.val (Ex.upd env i t) e) (env i) := Ex.fwd_tracks env i e h

/-- **the gradient reverse mode returns is the partial derivative**, for every program that is smooth at the point -/
theorem reverse_is_gradient (env : Nat → ℝ) (e : Ex ℝ) (i : Nat) (h : e.Smooth env) :
    HasDerivAt (fun t => Ex.val (Ex.upd env i t) e) (Ex.grad env e i) (env i) := Ex.grad_hasDerivAt env e i h

/-- non-vacuity: the guard idiom `where(k == 0, L, sin(√k·L)/√k)` is smooth at every `k > 0` … -/
example (k L : ℝ) (hk : 0 < k) :
    (Ex.whereEq (.var 0) (.const 0) (.var 1)
      (.div (.sin (.mul (.sqrt (.var 0)) (.var 1))) (.sqrt (.var 0))) : Ex ℝ).Smooth
      (fun j => if j = 0 then k else L) := by
  have hs : √k ≠ 0 := (Real.sqrt_pos.mpr hk).ne'
  simp [Ex.Smooth, hk.ne', hs]

/-- … and at the guard itself the model returns the derivative of the *selected* arm only (0 w.r.t. `k`): the finding
`guard_kills_gradient_at_zero`, now as a statement about the reverse-mode gradient of a program -/
theorem reverse_gradient_at_guard (L : ℝ) :
    Ex.grad (fun j => if j = 0 then 0 else L)
      (Ex.whereEq (.var 0) (.const 0) (.var 1)
        (.div (.sin (.mul (.sqrt (.var 0)) (.var 1))) (.sqrt (.var 0))) : Ex ℝ) 0 = 0 := by
  rw [Ex.grad_eq_fwd]
  simp [Ex.sel_d, Scalar.sel, Ex.lit0]

/-- **Cheetah's own formula, end to end**: the focusing functions of `base_rmatrix` (`Maps.cs`: the trigonometric pair for
`k² > 0`, the hyperbolic pair otherwise) are the forward pass of the programs `Ex.csC`, `Ex.csS`, and the gradients a
reverse-mode backward pass returns for them w.r.t. the strength (`i = 0`) and the length (`i = 1`) are the partial derivatives
of the model functions — for either sign of `k²`; `k² = 0` is excluded: that is the recorded finding -/
theorem focusing_reverse_gradient (env : Nat → ℝ) (h : env 0 ≠ 0) (i : Nat) :
    HasDerivAt (fun t => (cs (Ex.upd env i t 0) (Ex.upd env i t 1)).c) (Ex.grad env Ex.csC i) (env i) ∧
    HasDerivAt (fun t => (cs (Ex.upd env i t 0) (Ex.upd env i t 1)).s) (Ex.grad env Ex.csS i) (env i) :=
  Ex.cs_reverse_gradient env h i

end C05
