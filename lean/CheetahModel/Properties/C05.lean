import CheetahModel.Proofs.DualProofs
import CheetahModel.Proofs.DualSound
/-!
# C05 — autograd gradients equal the true derivatives and are finite  (partial)

`Dual ℝ` (value, tangent) is the model of what autograd computes for the traced program; the
correspondence check compares `torch.autograd.grad` of every entry of `Quadrupole.transfer_map` w.r.t. every
parameter with the tangents of `quadMapDual` at `Dual Float` (they agree, guard points included).
Proved here: away from the guard the tangents of the focusing functions are the true derivatives
(`HasDerivAt`), so is the entry `R[1,0]`; at exactly `k1 = 0` the tangent is 0 although the derivative
is not (known finding).  PyTorch's reverse-mode engine (NaN from `0·∞` in an unselected `where`
branch) is not modelled: the falsifier (autograd vs central finite differences) covers it.
-/
namespace C05

theorem focusing_cos_gradient (k L : ℝ) (hk : 0 < k) :
    HasDerivAt (fun t => Real.cos (√t * L)) ((cs (Dual.var k) (Dual.const L)).c.d) k := cs_c_dual_correct k L hk

theorem focusing_sin_gradient (k L : ℝ) (hk : 0 < k) :
    HasDerivAt (fun t => Real.sin (√t * L) / √t) ((cs (Dual.var k) (Dual.const L)).s.d) k := cs_s_dual_correct k L hk

theorem quad_r10_gradient (k L : ℝ) (hk : 0 < k) :
    HasDerivAt (fun t => -t * (Real.sin (√t * L) / √t))
      (-(Real.sin (√k * L) / √k) + -k * (cs (Dual.var k) (Dual.const L)).s.d) k := quad_r10_derivative k L hk

/-- away from zero the strength's tangent passes through the guard -/
theorem guard_transparent (k1 : ℝ) (h : k1 ≠ 0) :
    (if Scalar.eqb (Dual.var k1) (0.0 : Dual ℝ) then (1e-12 : Dual ℝ) else Dual.var k1).d = (1.0:ℝ) :=
  guard_dual_ne k1 h

/-- KNOWN FINDING: at exactly zero strength the guard detaches the parameter — the gradient is 0 -/
theorem guard_kills_gradient_at_zero :
    (if Scalar.eqb (Dual.var (0:ℝ)) (0.0 : Dual ℝ) then (1e-12 : Dual ℝ) else Dual.var 0).d = (0.0:ℝ) :=
  guard_dual_zero


/-- soundness of forward-mode differentiation, operation by operation: if the operands carry (value, derivative) of `f`,
`g` at `x`, so does the result — at every point where the real operation is differentiable (the side conditions are
exactly the guards of C05's recorded findings) -/
theorem ad_sound_arith {a b : Dual ℝ} {f g : ℝ → ℝ} {x : ℝ} (ha : Tracks a f x) (hb : Tracks b g x) :
    Tracks (a + b) (fun t => f t + g t) x ∧ Tracks (a - b) (fun t => f t - g t) x ∧
    Tracks (a * b) (fun t => f t * g t) x ∧ Tracks (-a) (fun t => -f t) x ∧
    (g x ≠ 0 → Tracks (a / b) (fun t => f t / g t) x) :=
  ⟨ha.add hb, ha.sub hb, ha.mul hb, ha.neg, fun h => ha.div hb h⟩

theorem ad_sound_functions {a : Dual ℝ} {f : ℝ → ℝ} {x : ℝ} (ha : Tracks a f x) :
    Tracks (Scalar.sin a) (fun t => Real.sin (f t)) x ∧ Tracks (Scalar.cos a) (fun t => Real.cos (f t)) x ∧
    Tracks (Scalar.sinh a) (fun t => Real.sinh (f t)) x ∧ Tracks (Scalar.cosh a) (fun t => Real.cosh (f t)) x ∧
    Tracks (Scalar.exp a) (fun t => Real.exp (f t)) x ∧ Tracks (Scalar.atan a) (fun t => Real.arctan (f t)) x ∧
    (f x ≠ 0 → Tracks (Scalar.sqrt a) (fun t => √(f t)) x ∧ Tracks (Scalar.log a) (fun t => Real.log (f t)) x ∧
      Tracks (Scalar.abs a) (fun t => |f t|) x) :=
  ⟨ha.sin, ha.cos, ha.sinh, ha.cosh, ha.exp, ha.atan, fun h => ⟨ha.sqrt h, ha.log h, ha.abs h⟩⟩

/-- leaves: the differentiation variable, constants, literals -/
theorem ad_sound_leaves (c x : ℝ) : Tracks (Dual.var x) (fun t => t) x ∧ Tracks (Dual.const c) (fun _ => c) x :=
  ⟨Tracks.var x, Tracks.const c x⟩

/-- an end-to-end instance through a guarded model function: the gradient of the drift's R56 w.r.t. the beam energy -/
theorem drift_r56_energy_gradient (L E m : ℝ) (hm : 0 < m) (hE : m < E) :
    Tracks (driftR56 (Dual.const L) (Dual.var E) (Dual.const m)) (fun e => driftR56 L e m) E :=
  driftR56_energy_gradient L E m hm hE

end C05
