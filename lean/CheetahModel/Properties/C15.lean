import CheetahModel.Proofs.Tables
/-!
# C15 — clone() yields an equal, independent, identically behaving copy  (table part)

`Element.clone` is `self.__class__(**{f: clone-or-deepcopy(getattr(self, f)) for f in defining_features})`:
every tensor is `.clone()`d (fresh storage), every other value deep-copied, and the copy equals the
original in every constructor-settable attribute iff the features cover the constructor parameters.
-/
namespace C15
open Gen

theorem clone_attrs_covered : classes.all coversCtor = true := by decide

/-- classes with extra behaviour-carrying constructor flags are in the table with those flags as features -/
theorem flags_are_features :
    ((classes.find? (·.name == "Quadrupole")).map fun c => c.features.contains "tracking_method" && c.features.contains "num_steps") = some true ∧
    ((classes.find? (·.name == "Screen")).map fun c => c.features.contains "is_blocking" && c.features.contains "is_active") = some true ∧
    ((classes.find? (·.name == "Undulator")).map fun c => c.features.contains "is_active") = some true ∧
    ((classes.find? (·.name == "SpaceChargeKick")).map fun c => c.features.contains "num_grid_points_x") = some true := by
  decide

end C15
