import CheetahModel.Proofs.TwissProofs
import CheetahModel.Proofs.StatsProofs
/-!
# C17 — beam moments and Twiss parameters are mutually consistent
`twissOf` is the model of `Beam.emittance_x / beta_x / alpha_x` (with the `clamp_min(…, finfo.tiny)`),
`fromTwiss` of `ParameterBeam.from_twiss`; `wmeanP`/`wvarP` are the survival-weighted statistics.
-/
namespace C17

theorem emittance_pos (sx sp c tiny : ℝ) (ht : 0 < tiny) : 0 < (twissOf sx sp c tiny).emit := emit_pos sx sp c tiny ht
theorem beta_positive (sx sp c tiny : ℝ) (ht : 0 < tiny) (hx : sx ≠ 0) : 0 < (twissOf sx sp c tiny).beta :=
  beta_pos sx sp c tiny ht hx

/-- βγ − α² = 1 with γ = σ_px²/ε (clamp inactive, i.e. a non-degenerate beam) -/
theorem beta_gamma_alpha (sx sp c tiny : ℝ) (ht : 0 < tiny) (h : tiny ≤ sx * sx * (sp * sp) - c * c) :
    let t := twissOf sx sp c tiny
    t.beta * (sp * sp / t.emit) - t.alpha ^ 2 = 1 := twiss_identity sx sp c tiny ht h

/-- a ParameterBeam created from Twiss parameters reports the same β, α, ε (exactly) -/
theorem from_twiss_round_trip (beta alpha eps tiny : ℝ) (hb : 0 < beta) (he : 0 < eps)
    (ht : 0 < tiny) (hc : tiny ≤ eps * eps) :
    twissOfMom (fromTwiss beta alpha eps) tiny = ⟨eps, beta, alpha⟩ :=
  from_twiss_to_twiss beta alpha eps tiny hb he ht hc

/-- transport by the standard matrix law: `Σ' = MΣMᵀ` entrywise, and the emittance is invariant for det M = 1
(drifts and upright quadrupoles have uncoupled 2×2 blocks of determinant one: C03) -/
theorem moment_law (m11 m12 m21 m22 sxx sxp spp : ℝ) :
    !![m11, m12; m21, m22] * !![sxx, sxp; sxp, spp] * (!![m11, m12; m21, m22] : Matrix (Fin 2) (Fin 2) ℝ).transpose =
      !![m11 * m11 * sxx + 2 * m11 * m12 * sxp + m12 * m12 * spp,
         m11 * m21 * sxx + (m11 * m22 + m12 * m21) * sxp + m12 * m22 * spp;
         m11 * m21 * sxx + (m11 * m22 + m12 * m21) * sxp + m12 * m22 * spp,
         m21 * m21 * sxx + 2 * m21 * m22 * sxp + m22 * m22 * spp] := moment_transport ..
theorem emittance_invariant (m11 m12 m21 m22 sxx sxp spp : ℝ) (hdet : m11 * m22 - m12 * m21 = 1) :
    let sxx' := m11 * m11 * sxx + 2 * m11 * m12 * sxp + m12 * m12 * spp
    let sxp' := m11 * m21 * sxx + (m11 * m22 + m12 * m21) * sxp + m12 * m22 * spp
    let spp' := m21 * m21 * sxx + 2 * m21 * m22 * sxp + m22 * m22 * spp
    sxx' * spp' - sxp' * sxp' = sxx * spp - sxp * sxp := emittance_transport m11 m12 m21 m22 sxx sxp spp hdet

/-- statistics are invariant under reordering the particles -/
theorem mean_perm {l1 l2 : List (ℝ × ℝ)} (h : l1.Perm l2) : wmeanP l1 = wmeanP l2 := wmeanP_perm h
theorem var_perm {l1 l2 : List (ℝ × ℝ)} (h : l1.Perm l2) : wvarP l1 = wvarP l2 := wvarP_perm h
/-- … translate and scale with the coordinates -/
theorem mean_translate (l : List (ℝ × ℝ)) (a : ℝ) (hw : (l.map Prod.snd).sum ≠ 0) :
    wmeanP (l.map fun p => (p.1 + a, p.2)) = wmeanP l + a := wmeanP_translate l a hw
theorem mean_scale (l : List (ℝ × ℝ)) (c : ℝ) : wmeanP (l.map fun p => (c * p.1, p.2)) = c * wmeanP l :=
  wmeanP_scale l c
theorem var_translate (l : List (ℝ × ℝ)) (a : ℝ) (hw : (l.map Prod.snd).sum ≠ 0) :
    wvarP (l.map fun p => (p.1 + a, p.2)) = wvarP l := wvarP_translate l a hw
theorem var_scale (l : List (ℝ × ℝ)) (c : ℝ) : wvarP (l.map fun p => (c * p.1, p.2)) = c ^ 2 * wvarP l :=
  wvarP_scale l c
/-- … and reduce to the ordinary unbiased sample statistics when all particles survive -/
theorem mean_all_survive (xs : List ℝ) : wmeanP (xs.map fun x => (x, (1:ℝ))) = smean xs := wmeanP_all_survive xs
theorem var_all_survive (xs : List ℝ) (h2 : 2 ≤ xs.length) : wvarP (xs.map fun x => (x, (1:ℝ))) = svar xs :=
  wvarP_all_survive xs h2

/-! non-vacuity -/
example : (0:ℝ) < 1e-30 ∧ (1e-30:ℝ) ≤ (1e-9:ℝ) * 1e-9 := by norm_num

end C17
