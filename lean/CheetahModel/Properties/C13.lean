import CheetahModel.Proofs.Tables
/-!
# C13 — imported lattices mean what the lattice file says  (table part)

The Elegant / Bmad element-type dispatch (type strings → Cheetah class, keyword → expression, understood
properties) is regenerated from the `if/elif parsed["element_type"] == …` chains of
`cheetah/converters/elegant.py` / `bmad.py` on every run and must equal the reviewed table
(tools/spec/pinned.json).  The textual layer (regex chain, `eval`) and the expansion of lines are
covered differentially by the falsifier (random abstract lattices rendered in many spellings).
-/
namespace C13
open Gen

/-- the converter dispatch tables are the reviewed ones -/
theorem converter_table_eq_spec : converterTable = pinnedConverterTable := by decide +kernel

/-- unit / phase conventions pinned in the reviewed table (Elegant rfca: phase − 90°, voltage, frequency) -/
theorem elegant_cavity_convention :
    (pinnedConverterTable.find? fun r => r.dialect == "elegant" && r.types.contains "rfca").map (·.builds) =
      some [("Cavity", ["frequency=torch.tensor(parsed['freq'])", "length=torch.tensor(parsed['l'])", "name=name",
                        "phase=torch.tensor(parsed['phase'] - 90)", "voltage=torch.tensor(parsed['volt'])"])] := by
  decide +kernel

end C13
