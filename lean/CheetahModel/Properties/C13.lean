import CheetahModel.Proofs.Tables
import CheetahModel.Proofs.TextProofs
import CheetahModel.Proofs.NxProofs
import CheetahModel.Proofs.NamelistProofs
import CheetahModel.Proofs.NamelistElem
/-!
# C13 — imported lattices mean what the lattice file says

**Table part.**  The Elegant / Bmad element-type dispatch (type strings → Cheetah class, keyword → expression,
understood properties) is regenerated from the `if/elif parsed["element_type"] == …` chains of
`cheetah/converters/elegant.py` / `bmad.py` on every run and must equal the reviewed table
(tools/spec/pinned.json).

**Text part.**  `CheetahModel/Text.lean` models the front end both importers share
(`converters/utils/fortran_namelist.py`: comment / blank / case cleaning and the merging of continuation lines;
`converters/utils/rpn.py`) and is tied to the code by correspondence (harness/text_corr.py, driver op `txt`).
The theorems below hold for every list of lines.  The statement-level regex chain, `eval` and the expansion of
lines remain covered differentially by the falsifier (random abstract lattices rendered in many spellings).
-/
namespace C13
open Gen Text

/-- the converter dispatch tables are the reviewed ones -/
theorem converter_table_eq_spec : converterTable = pinnedConverterTable := by decide +kernel

/-- unit / phase conventions pinned in the reviewed table (Elegant rfca: phase − 90°, voltage, frequency) -/
theorem elegant_cavity_convention :
    (pinnedConverterTable.find? fun r => r.dialect == "elegant" && r.types.contains "rfca").map (·.builds) =
      some [("Cavity", ["frequency=torch.tensor(parsed['freq'])", "length=torch.tensor(parsed['l'])", "name=name",
                        "phase=torch.tensor(parsed['phase'] - 90)", "voltage=torch.tensor(parsed['volt'])"])] := by
  decide +kernel

/-- both converters run exactly the modelled continuation passes, chained in the modelled order
(regenerated from the converters' source on every run) -/
theorem continuation_passes_are_modelled :
    contPassesSrc =
      ["elegant", "bmad"].map fun dialect =>
        (dialect, (contPasses.zipIdx).map fun (p, i) =>
          ("merged_lines", if i = 0 then "lines" else "merged_lines", String.singleton p.1, p.2)) := by
  decide +kernel

/-- **Line continuations (block structure).**  Whenever a merging pass succeeds, its output statements are, in file
order, the gluings of consecutive non-empty blocks of the input lines; lines are glued only where the text so far ends
with the continuation mark, and no emitted statement except possibly the last still ends with it.  (The final `strip`
of each statement is applied on top.) -/
theorem continuation_blocks (d : Char) (rm : Bool) (ls out : List Line) (h : merge d rm ls = some out) :
    ∃ gs : List (List Line), gs.flatten = ls ∧ (∀ g ∈ gs, g ≠ [] ∧ licensed d rm g) ∧
      out = (gs.map (joinGroup rm)).map strip ∧
      ∀ l ∈ (gs.map (joinGroup rm)).dropLast, endsWith l d = false := by
  simp only [merge, Option.map_eq_some_iff] at h
  obtain ⟨o, ho, rfl⟩ := h
  obtain ⟨gs, h1, h2, h3⟩ := mergeGo_groups d rm none ls o ho (by intro c hc; cases hc)
  exact ⟨gs, h1, h2, by rw [h3], by rw [← h3]; exact mergeGo_resolved d rm none ls o ho⟩

/-- **Kept mark (`,`, `{`): nothing but line breaks moves.**  Before the final strip, the character stream of the
output equals that of the input. -/
theorem continuation_keeps_text (d : Char) (ls o : List Line) (h : mergeGo d false none ls = some o) :
    o.flatten = ls.flatten := by
  simpa [accChars] using mergeGo_chars_keep d none ls o h

/-- **Removed mark (`&`): exactly one mark per absorbed line disappears**, everything else survives in order. -/
theorem continuation_removes_only_marks (d : Char) (ls o : List Line) (h : mergeGo d true none ls = some o) :
    o.flatten.filter (· != d) = ls.flatten.filter (· != d) ∧
      o.flatten.length + (ls.length - o.length) = ls.flatten.length := by
  simpa [accChars, accLines] using mergeGo_chars_remove d none ls o h (by intro c hc; cases hc)

/-- a file without continuation marks passes through unchanged (up to the strip) -/
theorem continuation_identity (d : Char) (rm : Bool) (ls : List Line) (h : ∀ l ∈ ls, endsWith l d = false) :
    merge d rm ls = some (ls.map strip) := by
  simp [merge, mergeGo_id d rm ls h]

/-- the converters' `assert len(merged_lines) <= len(lines)` can never fire -/
theorem continuation_never_grows (ls out : List Line) (h : mergeAll ls = some out) : out.length ≤ ls.length :=
  mergeAll_length_le ls out h

/-- **Comments, blank lines and case.**  Every line `read_clean_lines` hands on has no comment, is not blank, has no
surrounding blanks and no upper-case letter. -/
theorem cleaned_lines (ls : List Line) :
    ∀ l ∈ cleanLines ls, '!' ∉ l ∧ l ≠ [] ∧ strip l = l ∧ ∀ c ∈ l, c.isUpper = false :=
  cleanLines_spec ls

/-- **RPN expressions**: `a b op` is accepted and evaluated as the infix text `a op b` -/
theorem rpn_is_infix (a b : Line) (o : Char) (ha : ' ' ∉ a) (hb : ' ' ∉ b)
    (ho : o = '+' ∨ o = '-' ∨ o = '/' ∨ o = '*')
    (hs : strip (a ++ ' ' :: (b ++ ' ' :: [o])) = a ++ ' ' :: (b ++ ' ' :: [o])) :
    rpnValid (a ++ ' ' :: (b ++ ' ' :: [o])) = some true ∧
      rpnInfix (a ++ ' ' :: (b ++ ' ' :: [o])) = some (a ++ ' ' :: ([o] ++ ' ' :: b)) :=
  ⟨rpn_valid a b o ha hb ho hs,
   rpn_reorder a b [o] ha hb (by rcases ho with rfl | rfl | rfl | rfl <;> decide) hs⟩

/-- **NX tables.**  For every table the importer accepts (rows already translated and sorted; a row is
`(s_position, length)`), the line produced by the drift filling places every element's centre at its tabulated
position — measured from the entrance of the first element — and its total length runs from the entrance of the first
to the exit of the last element. -/
theorem nx_centres_at_tabulated_positions (r : ℝ × ℝ) (rest : List (ℝ × ℝ)) (out : List (Bool × ℝ))
    (h : Nx.fill (r :: rest) = some out) :
    Nx.centres (r.1 - r.2 / 2) out = (r :: rest).map (·.1) ∧
    Nx.total out = (match (r :: rest).getLast? with | none => 0 | some l => l.1 + l.2 / 2) - (r.1 - r.2 / 2) :=
  Nx.fill_centres r rest out h

/-- … and it accepts exactly the tables without overlapping neighbours -/
theorem nx_accepts_iff_no_overlap (r : ℝ × ℝ) (rest : List (ℝ × ℝ)) :
    (Nx.fill (r :: rest)).isSome = true ↔
      List.IsChain (fun a b : ℝ × ℝ => 0 ≤ b.1 - a.1 - a.2 / 2 - b.2 / 2) (r :: rest) := by
  simp only [Nx.fill, Option.isSome_map]
  exact Nx.fillGo_isSome rest r

/-! ### statement level (`Namelist.lean`, tied to `parse_lines` / `convert_element` by the correspondence `nml`) -/

/-- **property assignment** (`name[prop] = e`, `type::pattern[prop] = e`): the right-hand side is evaluated once, in the
context before the statement; every addressed element — the named one, or every element of that type the wild card
matches — ends up with exactly that value; no other name changes -/
theorem statement_assign_property_once (c c' : Nml.Ctx) (wild : Option String) (name prop : String) (e : Nml.Ex)
    (h : Nml.step c (.assignProp wild name prop e) = some c') :
    ∃ v, Nml.eval c e = some v ∧
      (∀ n ∈ (match wild with | some etype => Nml.resolve c etype name | none => [name]),
          ∃ t ps, Nml.lookup c' n = some (.elem t ps) ∧ Nml.getProp ps prop = some v) ∧
      (∀ k, k ∉ (match wild with | some etype => Nml.resolve c etype name | none => [name]) →
          Nml.lookup c' k = Nml.lookup c k) :=
  Nml.assign_property_once c c' wild name prop e h

/-- **element definition** (`name: type-or-parent, k₁ = e₁, …`): `name` is bound to a dictionary of the parent's element type
(or of the named type, when no element of that name exists) whose properties are the parent's — copied, not shared —
overridden by the statement's assignments (the last one per key), each evaluated in the context before the statement; no other
name changes -/
theorem statement_define_element (c c' : Nml.Ctx) (name etype : String) (props : List (String × Nml.Ex))
    (h : Nml.step c (.defElem name etype props) = some c') :
    ∃ t base q, ((Nml.lookup c etype = some (.elem t base)) ∨ (Nml.lookup c etype = none ∧ t = etype ∧ base = [])) ∧
      Nml.lookup c' name = some (.elem t q) ∧
      (∀ k, Nml.getProp q k = (match Nml.lastB props k with | some e => Nml.eval c e | none => Nml.getProp base k)) ∧
      (∀ x, x ≠ name → Nml.lookup c' x = Nml.lookup c x) :=
  Nml.define_element_spec c c' name etype props h

/-- **the last `use` of a file names the lattice**, whatever came before -/
theorem statement_last_use_wins (c c' : Nml.Ctx) (ss : List Nml.Stmt) (n : String)
    (h : Nml.run c (ss ++ [.use n]) = some c') : Nml.useName c' = some n := Nml.last_use_wins c c' ss n h

/-- **a line denotes its items in order**: the lattice built for a line is a segment of that name whose items are the
expansions of the line's items, one by one, against the same final context; its elements in beam order are the
concatenation of the items' elements -/
theorem line_expansion (c : Nml.Ctx) (f : Nat) (name : String) (items : List String) (t : Nml.Tree)
    (hl : Nml.lookup c name = some (.line items)) (h : Nml.expand c (f + 1) name = some t) :
    ∃ ts, Nml.Each c f items ts ∧ t = .seg name ts ∧ t.flat = ts.flatMap Nml.Tree.flat := by
  obtain ⟨ts, h1, h2, h3⟩ := Nml.expand_line c f name items t hl h
  exact ⟨ts, (Nml.expandList_each c f items ts).mp h1, h2, by rw [h3, Nml.flatList_eq_flatMap]⟩

/-- **wild cards**: `*` is any run of characters, `%` exactly one, every other character itself -/
theorem wildcard_semantics (p s : List Char) :
    (Nml.glob ('*' :: p) s = true ↔ ∃ k, k ≤ s.length ∧ Nml.glob p (s.drop k) = true) ∧
    (Nml.glob ('%' :: p) s = true ↔ ∃ ch t, s = ch :: t ∧ Nml.glob p t = true) ∧
    ((∀ ch ∈ p, ch ≠ '*' ∧ ch ≠ '%') → (Nml.glob p s = true ↔ s = p)) :=
  ⟨Nml.glob_star p s, Nml.glob_percent p s, Nml.glob_literal p s⟩

/-! non-vacuity: a three-line statement with both marks -/
example : mergeAll ["q1: quad, &".toList, "l=1,".toList, "k1=2".toList, "d: drift".toList]
    = some ["q1: quad, l=1,k1=2".toList, "d: drift".toList] := by decide
example : (rpnValid "lq 2 /".toList, rpnInfix "lq 2 /".toList) = (some true, some "lq / 2".toList) := by decide

end C13
