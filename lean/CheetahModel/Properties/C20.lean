import CheetahModel.Proofs.DiagProofs
import CheetahModel.Proofs.HistProofs
import CheetahModel.Proofs.SemLawful
/-!
# C20 — screen and BPM readings show the beam that passed them  (partial)

`pixelOf` is the model of the histogram image's pixel assignment (misalignment subtracted, `torch.linspace`
bin edges, `histogramdd` half-open bins with the last one closed, `flipud(image.T)`), tied to the real
`Screen.reading` by single-particle correspondences.  KDE images, ParameterBeam images and vectorised
images are decided by the falsifier only.
-/
namespace C20

/-- image shape (vertical, horizontal) after binning; the pixel contains `(x − dx, y − dy)`; row 0 is the top
(`row = H/b − 1 − iy` is antitone in the vertical bin index) -/
theorem pixel_spec (s : ScreenP ℝ) (x y : ℝ) (r c : ℕ) (h : pixelOf s x y = some (r, c)) :
    r < s.effH ∧ c < s.effW ∧
    (∃ iy, r = s.effH - 1 - iy ∧ iy < s.effH ∧
      linspaceAt (-(s.resH * s.pxH / 2)) (s.resH * s.pxH / 2) s.effH iy ≤ y - s.dy) ∧
    linspaceAt (-(s.resW * s.pxW / 2)) (s.resW * s.pxW / 2) s.effW c ≤ x - s.dx := pixelOf_spec s x y r c h

/-- a bin index is in range and its bin contains the value (half-open; last bin closed) -/
theorem bin_spec (lo hi : ℝ) (n : ℕ) (x : ℝ) (k : ℕ) (h : binIndex lo hi n x = some k) :
    k < n ∧ linspaceAt lo hi n k ≤ x ∧
      (x < linspaceAt lo hi n (k + 1) ∨ (k + 1 = n ∧ x ≤ linspaceAt lo hi n (k + 1))) := binIndex_spec lo hi n x k h

/-- the BPM reads the beam centroid (x, y) -/
theorem bpm_centroid (b : MBeam ℝ) : bpmReading b = (b.mu.a0, b.mu.a2) := rfl

/-- the reading always reflects the most recent beam that passed the active screen (no stale cache) -/
theorem reading_is_last_beam {B I : Type} (img : Option B → I) (ops : List (ScreenOp B)) :
    (screenStep img (screenRun img ⟨none, none⟩ ops) .read).2 = some (img (lastBeam none ops)) :=
  reading_reflects_last_beam img ops

/-- inactive diagnostics let the beam pass unchanged (model: BPM, inactive Screen / Aperture) -/
theorem inactive_pass (k : Consts ℝ) (b : PBeam ℝ) (blocking act : Bool) :
    Elem.trackP k (.screen false blocking) b = b ∧ Elem.trackP k (.bpm act) b = b := by
  simp [Elem.trackP]


/-- in histogram mode the image sums to the surviving charge that falls inside the screen (`pts` = (x, y, q·s)) -/
theorem histogram_sums_to_charge_inside (s : ScreenP ℝ) (pts : List (ℝ × ℝ × ℝ)) :
    ∑ r ∈ Finset.range s.effH, ∑ c ∈ Finset.range s.effW, histImage s pts r c = histTotal s pts :=
  histImage_total s pts

/-- pixel values are non-negative when the weights are -/
theorem histogram_nonneg (s : ScreenP ℝ) (pts : List (ℝ × ℝ × ℝ)) (h : ∀ p ∈ pts, 0 ≤ p.2.2) (r c : ℕ) :
    0 ≤ histImage s pts r c := histImage_nonneg s pts h r c

end C20
