import CheetahModel.Proofs.SplitProofs
import CheetahModel.Proofs.BmadxProofs
import CheetahModel.Proofs.Tables
/-!
# C16 — splitting an element preserves its length and its action
`Elem.split` models `Drift.split`, `Quadrupole.split`, the correctors' `split` (at least one piece,
angle divided) and the unsplittable elements' `[self]`.
-/
open Scalar
namespace C16

/-- the piece lengths add up to the original length -/
theorem lengths_add_up (L : ℝ) (n : ℕ) (h : n ≠ 0) : (n : ℝ) * (L / n) = L := split_sum L n h

/-- no piece is longer than the resolution -/
theorem piece_le_resolution (L res : ℝ) (hres : 0 < res) (h : numSplits L res ≠ 0) :
    L / numSplits L res ≤ res := split_le_res L res hres h

/-- a positive length gives at least one piece -/
theorem at_least_one_piece (L res : ℝ) (hL : 0 < L) (hres : 0 < res) : numSplits L res ≠ 0 :=
  numSplits_pos L res hL hres

/-- vectorised lengths (`num_splits = ceil(max(length) / resolution)`): every entry's pieces add up to the entry's
length and no piece of any entry exceeds the resolution; some positive entry gives at least one piece -/
theorem vector_lengths (ls : List ℝ) (res : ℝ) (hres : 0 < res) (h : numSplits (vecMax ls) res ≠ 0) :
    ∀ l ∈ ls, ((numSplits (vecMax ls) res : ℕ) : ℝ) * (l / numSplits (vecMax ls) res) = l ∧
      l / numSplits (vecMax ls) res ≤ res := split_vector ls res hres h
theorem vector_at_least_one_piece (ls : List ℝ) (res : ℝ) (hres : 0 < res) (l : ℝ) (hl : l ∈ ls) (hpos : 0 < l) :
    numSplits (vecMax ls) res ≠ 0 :=
  numSplits_pos _ res (lt_of_lt_of_le hpos (le_vecMax ls l hl)) hres

/-- the model's split uses exactly `ceil(L/res)` pieces of `L/n` for drifts and quadrupoles -/
theorem split_shape (L k1 mx my t res : ℝ) :
    Elem.split (.drift L : Elem ℝ) res = List.replicate (numSplits L res) (.drift (L / (numSplits L res : ℝ))) ∧
    Elem.split (.quad L k1 mx my t : Elem ℝ) res =
      List.replicate (numSplits L res) (.quad (L / (numSplits L res : ℝ)) k1 mx my t) := by
  constructor <;> simp [Elem.split, numSplits]

/-- quadrupole (either sign, tilt, misalignment): the piece maps multiply to the whole map -/
theorem quad_pieces_matrix (L k1 mx my t E m : ℝ) (hm : 0 < m) (hE : m < E) (n : ℕ) (h : n ≠ 0) :
    (quadMap (L / n) k1 mx my t E m).toM ^ n = (quadMap L k1 mx my t E m).toM :=
  quad_split_matrix L k1 mx my t E m hm hE n h

/-- tracking through the pieces in order equals tracking through the whole: quadrupole, drift -/
theorem quad_pieces_track (k : Consts ℝ) (L k1 mx my t : ℝ) (n : ℕ) (h : n ≠ 0) (b : PBeam ℝ)
    (hm : 0 < k.mc2) (hE : k.mc2 < b.energy) :
    Lat.seq (semP k) (List.replicate n (.elem (.quad (L / n) k1 mx my t))) b = Elem.trackP k (.quad L k1 mx my t) b :=
  quad_split_track k L k1 mx my t n h b hm hE
theorem drift_pieces_track (k : Consts ℝ) (L : ℝ) (n : ℕ) (h : n ≠ 0) (b : PBeam ℝ) :
    Lat.seq (semP k) (List.replicate n (.elem (.drift (L / n)))) b = Elem.trackP k (.drift L) b :=
  drift_split_track k L n h b

/-- the Bmad-X drift pieces compose as well (C07) -/
theorem bmadx_drift_pieces (a b : ℝ) (p : BP ℝ) (p0c m : ℝ) :
    trackADrift b (trackADrift a p p0c m) p0c m = trackADrift (a + b) p p0c m := trackADrift_add a b p p0c m

/-- correctors: at least one piece, and the total deflection angle is preserved -/
theorem corrector_pieces (L a res : ℝ) :
    let n := max ⌈L / res⌉₊ 1
    Elem.split (.hcor L a : Elem ℝ) res = List.replicate n (.hcor (L / (n : ℝ)) (a / (n : ℝ))) ∧ n ≠ 0 ∧
    (n : ℝ) * (a / n) = a := by
  intro n
  have hn : n ≠ 0 := by simp [n]
  refine ⟨by simp [Elem.split, n], hn, split_sum a n hn⟩

/-- unsplittable elements are returned unchanged -/
theorem unsplittable (res : ℝ) (p : DipoleP ℝ) (L kk mx my V ph f : ℝ) :
    Elem.split (.dipole p : Elem ℝ) res = [.dipole p] ∧ Elem.split (.solenoid L kk mx my : Elem ℝ) res = [.solenoid L kk mx my] ∧
    Elem.split (.cavity L V ph f : Elem ℝ) res = [.cavity L V ph f] ∧ Elem.split (.marker : Elem ℝ) res = [.marker] ∧
    Elem.split (.undulator L : Elem ℝ) res = [.undulator L] := ⟨rfl, rfl, rfl, rfl, rfl⟩

/-! non-vacuity -/
example : numSplits 1.0 0.3 ≠ 0 := numSplits_pos _ _ (by norm_num) (by norm_num)

/-- every class whose `split` builds pieces forwards all constructor parameters except the name: the pieces
keep dtype, device, tracking method, number of steps, tilt, misalignment (table regenerated from /repo) -/
theorem split_forwards_everything : Gen.classes.all Gen.splitForwardsAll = true := by decide

end C16
