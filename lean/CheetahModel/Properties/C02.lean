import CheetahModel.Proofs.Conj
import CheetahModel.Proofs.SolenoidFlow
/-!
# C02 — linear maps equal the exact flow of each element's linear optics

The "closed-form physics" is the **generator** of each element (`genBase`, `genQuad`: the linearised
equations of motion in Cheetah's coordinates), and the theorems say that the model's map is the flow
of that generator: `R(0) = 1`, `R(L₁+L₂) = R(L₁)·R(L₂)` and `dR/dL = A·R(L)` for every entry at every
length (hence `R(L) = exp(L·A)` by uniqueness of linear ODE solutions — cited, not proved here).
Hypotheses = the guards of the real code: energy above rest energy, `k1 + hx² ≠ 0`.
-/
open Matrix

namespace C02

/-- the generator of the combined-function sector magnet reads
`x' = px, px' = −(k1+h²)x + (h/β)δ, y' = py, py' = k1·y, τ' = (h/β)x − (1/γ²)/β²·δ, δ' = 0` -/
theorem generator_reads (kx2 ky2 hx β ig2 : ℝ) (v : Fin 7 → ℝ) :
    genBase kx2 ky2 hx β ig2 *ᵥ v =
      ![v 1, -kx2 * v 0 + hx / β * v 5, v 3, -ky2 * v 2, hx / β * v 0 + -ig2 / (β * β) * v 5, 0, 0] := by
  funext i
  fin_cases i <;> simp [genBase, Matrix.mulVec, dotProduct, Fin.sum_univ_succ]

/-- body map (drift limit, quadrupole of either sign, sector bend with gradient): identity at zero length -/
theorem base_zero (k1 hx E m : ℝ) (hk : guardK1 k1 + hx * hx ≠ 0) : (baseR0 0 k1 hx E m).toM = 1 :=
  baseR0_zero k1 hx E m hk

/-- … one-parameter group in the length -/
theorem base_group_law (a b k1 hx E m : ℝ) (hm : 0 < m) (hE : m < E) (hk : guardK1 k1 + hx * hx ≠ 0) :
    (baseR0 (a + b) k1 hx E m).toM = (baseR0 a k1 hx E m).toM * (baseR0 b k1 hx E m).toM :=
  baseR0_add a b k1 hx E m hm hE hk

/-- … and solves `dR/dL = A·R`, trigonometric and hyperbolic branches alike; dispersion and
path-length terms use the relativistic factors of the reference energy -/
theorem base_flow (k1 hx E m : ℝ) (hm : 0 < m) (hE : m < E) (hk : guardK1 k1 + hx * hx ≠ 0)
    (L : ℝ) (i j : Fin 7) :
    HasDerivAt (fun l => (baseR0 l k1 hx E m).toM i j)
      ((genBase (guardK1 k1 + hx * hx) (-guardK1 k1) hx (relFactors E m).beta (relFactors E m).igamma2
        * (baseR0 L k1 hx E m).toM) i j) L :=
  baseR0_flow k1 hx E m hm hE hk L i j

/-- tilt: `base_rmatrix(tilt)` is the body map conjugated by the rotation, whether or not the
`tilt != 0` branch is taken -/
theorem tilt_conj (L k1 hx t E m : ℝ) :
    (baseR L k1 hx t E m).toM =
      (rotationMatrix (-t)).toM * (baseR0 L k1 hx E m).toM * (rotationMatrix t).toM := baseR_toM L k1 hx t E m

/-- quadrupole = misalignment-conjugated, tilt-conjugated body map -/
theorem quad_structure (L k1 mx my t E m : ℝ) :
    (quadMap L k1 mx my t E m).toM =
      (misExit mx my).toM * (baseR L k1 0 t E m).toM * (misEntry mx my).toM := quadMap_toM L k1 mx my t E m

/-- quadrupole of either sign with tilt and misalignment is the flow of the conjugated generator -/
theorem quad_flow (k1 mx my t E m : ℝ) (hm : 0 < m) (hE : m < E) (L : ℝ) (i j : Fin 7) :
    HasDerivAt (fun l => (quadMap l k1 mx my t E m).toM i j)
      ((genQuad k1 mx my t E m * (quadMap L k1 mx my t E m).toM) i j) L :=
  quadMap_flow k1 mx my t E m hm hE L i j

theorem quad_group_law (a b k1 mx my t E m : ℝ) (hm : 0 < m) (hE : m < E) :
    (quadMap (a + b) k1 mx my t E m).toM = (quadMap a k1 mx my t E m).toM * (quadMap b k1 mx my t E m).toM :=
  quadMap_add a b k1 mx my t E m hm hE

/-- misalignment by `d = (mx, my)`: `v ↦ R (v − d) + d` -/
theorem misalignment_affine (R : Matrix (Fin 7) (Fin 7) ℝ) (mx my : ℝ) (v : Fin 7 → ℝ) (hv : v 6 = 1)
    (hR : ∀ j, R 6 j = if j = 6 then 1 else 0) :
    ((misExit mx my).toM * R * (misEntry mx my).toM) *ᵥ v =
      fun i => (R *ᵥ (fun j => v j - (if j = 0 then mx else if j = 2 then my else 0))) i
        + (if i = 0 then mx else if i = 2 then my else 0) := misalign_affine R mx my v hv hR

/-- drift: group law, and `R56 = −L/(β²γ²)` -/
theorem drift_group_law (a b E m : ℝ) :
    (driftMap (a + b) E m).toM = (driftMap a E m).toM * (driftMap b E m).toM := driftMap_add a b E m

theorem drift_r56 (L E m : ℝ) (hm : 0 < m) (hE : m < E) :
    driftR56 L E m = -L / ((relFactors E m).beta ^ 2 * (relFactors E m).gamma ^ 2) :=
  driftR56_physical L E m hm hE

/-- relativistic factors: β²γ² = γ² − 1 -/
theorem beta_gamma (E m : ℝ) (hm : 0 < m) (hE : m < E) :
    (relFactors E m).beta ^ 2 * (relFactors E m).gamma ^ 2 = (relFactors E m).gamma ^ 2 - 1 :=
  beta_gamma_sq E m hm hE

/-- dipole: exit edge · body · entrance edge, conjugated by the tilt (the finite-length branch) -/
theorem dipole_structure (p : DipoleP ℝ) (E m : ℝ) (hL : p.L ≠ 0) :
    (dipoleMap p E m).toM =
      (rotationMatrix (-p.tilt)).toM *
        ((dipoleEdge (p.angle / p.L) p.e2 p.fintx p.gap).toM * ((baseR0 p.L p.k1 (p.angle / p.L) E m).toM *
          (dipoleEdge (p.angle / p.L) p.e1 p.fint p.gap).toM) * (rotationMatrix p.tilt).toM) := by
  have h : Scalar.eqb p.L (0.0:ℝ) = false := by rw [Scalar.real_eqb_false]; norm_num; exact hL
  unfold dipoleMap dipoleHx
  simp only [h, Mat7.toM_mul]
  simp

/-- the edge is the thin lens `px += h·tan e·x`, `py −= h·tan(e − φ)·y`, `φ = fint·h·gap·sec e·(1+sin²e)` -/
theorem dipole_edge_thin_lens (h e fint gap : ℝ) (v : Vec7 ℝ) :
    Mat7.mulVec (dipoleEdge h e fint gap) v =
      { v with a1 := h * Real.tan e * v.a0 + v.a1,
               a3 := -h * Real.tan (e - fint * h * gap * (1 / Real.cos e) * (1 + Real.sin e * Real.sin e)) * v.a2 + v.a3 } := by
  simp [Mat7.mulVec, dipoleEdge, Mat7.dot]
  norm_num

/-- rectangular bend: pole-face angles are `e_rbend + angle/2` -/
theorem rbend_edges (p : DipoleP ℝ) :
    (rbendToDipole p).e1 = p.e1 + p.angle / 2 ∧ (rbendToDipole p).e2 = p.e2 + p.angle / 2 := by
  unfold rbendToDipole; norm_num

/-- correctors: a drift followed by a kick of exactly the set angle -/
theorem hcorrector_kick (L a E m : ℝ) (v : Vec7 ℝ) (h1 : v.a6 = 1) :
    Mat7.mulVec (hcorMap L a E m) v =
      let d := Mat7.mulVec (driftMap L E m) v
      { d with a1 := d.a1 + a } := hcor_kick L a E m v h1
theorem vcorrector_kick (L a E m : ℝ) (v : Vec7 ℝ) (h1 : v.a6 = 1) :
    Mat7.mulVec (vcorMap L a E m) v =
      let d := Mat7.mulVec (driftMap L E m) v
      { d with a3 := d.a3 + a } := vcor_kick L a E m v h1

/-- diagnostics, markers and apertures leave coordinates untouched -/
theorem marker_identity : (identMap : Mat7 ℝ).toM = 1 := Mat7.toM_one

/-- the undulator (as repaired by the `fix:` commit) and the drift have the same map -/
theorem undulator_is_drift (L E m : ℝ) : undulatorMap L E m = driftMap L E m := rfl

/-- the solenoid's generator read as equations of motion (canonical variables, `k = B/(2Bρ)`):
`x' = px + k y`, `px' = −k² x + k py`, `y' = −k x + py`, `py' = −k px − k² y`, `τ' = δ/(1−γ²)` -/
theorem solenoid_generator_reads (k slip : ℝ) (v : Fin 7 → ℝ) :
    (genSol k slip).mulVec v 0 = v 1 + k * v 2 ∧ (genSol k slip).mulVec v 1 = -(k * k) * v 0 + k * v 3 ∧
    (genSol k slip).mulVec v 2 = -k * v 0 + v 3 ∧ (genSol k slip).mulVec v 3 = -k * v 1 - k * k * v 2 ∧
    (genSol k slip).mulVec v 4 = slip * v 5 := by
  refine ⟨?_, ?_, ?_, ?_, ?_⟩ <;> simp [genSol, Matrix.mulVec, dotProduct, Fin.sum_univ_succ] <;> ring

/-- the solenoid map is a one-parameter group in the length (both branches `k = 0`, `k ≠ 0`) … -/
theorem solenoid_group_law (a b k E m : ℝ) :
    (solenoidBody (a + b) k E m).toM = (solenoidBody a k E m).toM * (solenoidBody b k E m).toM ∧
    (solenoidBody 0 k E m).toM = 1 := ⟨solenoid_add a b k E m, solenoid_zero k E m⟩

/-- … and solves `dR/dL = A_sol · R(L)` for every entry at every length: it is the exact flow of the solenoid's
linearised equations of motion -/
theorem solenoid_is_flow (k E m L : ℝ) (i j : Fin 7) :
    HasDerivAt (fun l => (solenoidBody l k E m).toM i j)
      ((genSol k (solSlip E m) * (solenoidBody L k E m).toM) i j) L := solenoid_flow k E m L i j

/-! non-vacuity -/
example : guardK1 (-3) + (0.2:ℝ) * 0.2 ≠ 0 := by unfold guardK1; norm_num
example : (0:ℝ) < 510998.95 ∧ (510998.95:ℝ) < 1e8 := by norm_num

end C02
