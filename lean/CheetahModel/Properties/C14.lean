import CheetahModel.Proofs.Tables
import CheetahModel.Proofs.SerialiseProofs
/-!
# C14 — saving to LatticeJSON and loading back reproduces the lattice  (table part)

`convert_element` writes exactly `defining_features` (minus `name`), `parse_element` feeds them back as
constructor keywords; so the round trip preserves every constructor-settable attribute iff, for every
element class, the feature list covers the constructor parameters.  The table `Gen.classes` is
regenerated from the live classes of /repo on every run.
-/
namespace C14
open Gen

/-- for every element class of /repo: features = constructor parameters (minus name/device/dtype) -/
theorem features_cover_ctor : classes.all coversCtor = true := by decide

/-- every feature is accepted by the constructor, so `parse_element` cannot raise a TypeError -/
theorem features_accepted : classes.all (fun c => (c.features.filter (· != "name")).all (c.ctor.contains ·)) = true := by
  decide

/-- the table is not vacuous: it contains the element classes the property names -/
theorem table_nonvacuous :
    (["Quadrupole", "Screen", "Undulator", "SpaceChargeKick", "Dipole", "RBend", "Cavity", "Segment"].all
      fun n => classes.any (·.name == n)) = true := by decide

/-- `parse_segment (convert_segment l) = l` for every uniquely named segment tree: any nesting depth, sub-segments
in any position (first, middle, last), element order, names, classes and parameter dictionaries preserved
(`NLat.conv` / `NLat.parse` model `latticejson.convert_segment` / `parse_segment`) -/
theorem roundtrip (l : NLat) (h : (NLat.names l).Nodup) :
    NLat.parse (NLat.conv l NLat.Dict.empty) (NLat.depth l) l.name = some l := NLat.roundtrip l h

/-- non-vacuity: a sub-segment in first position (the case the original writer crashed on) -/
example : (NLat.names (.seg "root" [.seg "sub" [.leaf "q1" ⟨"Quadrupole", [("k1", "1.0")]⟩], .leaf "d1" ⟨"Drift", []⟩])).Nodup := by
  decide

end C14
