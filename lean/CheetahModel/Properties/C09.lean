import CheetahModel.Proofs.Conj
import CheetahModel.Proofs.SemLawful
import CheetahModel.Proofs.BmadxProofs
import Mathlib.Analysis.SpecialFunctions.Trigonometric.Bounds
/-!
# C09 — a switched-off element behaves as a drift of the same length

Exact statements on the model for correctors, undulator, solenoid, cavity (map and tracking, any phase
and frequency), the deflecting cavity (Bmad-X), and the zero-length identities.  For the quadrupole /
dipole / cavity body the code evaluates `base_rmatrix` at `k1 = 1e-12` instead of 0; the theorems
below bound the difference to the drift for the focusing functions (`guard_bound_*`), the remaining
entries and the Bmad-X bend / quadrupole limits are decided by the falsifier.
-/
open Matrix Scalar
namespace C09

theorem hcor_off (L E m : ℝ) : (hcorMap L 0 E m).toM = (driftMap L E m).toM := by
  ext i j
  fin_cases i <;> fin_cases j <;> simp [hcorMap, driftMap, driftLike, Mat7.get, Mat7.row, Vec7.get] <;> norm_num

theorem vcor_off (L E m : ℝ) : (vcorMap L 0 E m).toM = (driftMap L E m).toM := by
  ext i j
  fin_cases i <;> fin_cases j <;> simp [vcorMap, driftMap, driftLike, Mat7.get, Mat7.row, Vec7.get] <;> norm_num

theorem undulator_is_drift (L E m : ℝ) : undulatorMap L E m = driftMap L E m := rfl

/-- solenoid with `k = 0`, any misalignment: exactly the drift (the `k == 0` branch and `L/(1−γ²) = −L/(β²γ²)`) -/
theorem solenoid_off (L mx my E m : ℝ) (hm : 0 < m) (hE : m < E) :
    (solenoidMap L 0 mx my E m).toM = (driftMap L E m).toM := by
  have hg := gamma_gt_one E m hm hE
  have hgne : (relFactors E m).gamma ≠ 0 := by rw [relFactors_eq E m hm hE]; simp only; linarith
  have hk0 : Scalar.eqb (0:ℝ) (0.0:ℝ) = true := by rw [Scalar.real_eqb]; norm_num
  have hg0 : Scalar.eqb (relFactors E m).gamma (0.0:ℝ) = false := by
    rw [Scalar.real_eqb_false]; norm_num; exact hgne
  have hr : L / (1 - (relFactors E m).gamma * (relFactors E m).gamma) = driftR56 L E m := by
    rw [driftR56_physical L E m hm hE, beta_gamma_sq E m hm hE]
    have : (relFactors E m).gamma ^ 2 - 1 ≠ 0 := by
      rw [relFactors_eq E m hm hE]; simp only; nlinarith
    have h2 : 1 - (relFactors E m).gamma * (relFactors E m).gamma ≠ 0 := by
      intro h; apply this; nlinarith
    have h3 : 1 - (relFactors E m).gamma ^ 2 ≠ 0 := by rw [sq]; exact h2
    rw [div_eq_div_iff h2 this]
    ring
  have hbody : (solenoidBody L 0 E m).toM = (driftMap L E m).toM := by
    unfold solenoidBody driftMap
    simp only [hk0, hg0, if_true, Bool.false_eq_true, if_false]
    rw [toM_driftLike, ← hr]
    ext i j
    fin_cases i <;> fin_cases j <;> simp [Mat7.get, Mat7.row, Vec7.get] <;> norm_num
  unfold solenoidMap
  simp only
  split
  · exact hbody
  · unfold misConj
    rw [Mat7.toM_mul3, hbody, driftMap, toM_driftLike, toM_misEntry, toM_misExit]
    ext i j
    fin_cases i <;> fin_cases j <;> simp [Matrix.mul_apply, Fin.sum_univ_succ]

/-- cavity at zero voltage: the map does not depend on phase or frequency and is the switched-off quadrupole's
body map (`base_rmatrix(k1=0, hx=0)`) … -/
theorem cavity_off_map (k : Consts ℝ) (L ph f E : ℝ) :
    cavityMap k L 0 ph f E = baseR L 0.0 0.0 0.0 E k.mc2 := by
  have h0 : Scalar.eqb (0:ℝ) (0.0:ℝ) = true := by rw [Scalar.real_eqb]; norm_num
  unfold cavityMap
  simp [h0]

/-- … and its tracking is the action of that map, for both beam types (since the `fix:` commit) -/
theorem cavity_off_track (k : Consts ℝ) (L ph f : ℝ) (b : PBeam ℝ) (b' : MBeam ℝ) :
    Elem.trackP k (.cavity L 0 ph f) b = PBeam.act (cavityMap k L 0 ph f b.energy) b ∧
    Elem.trackM k (.cavity L 0 ph f) b' = MBeam.act (cavityMap k L 0 ph f b'.energy) b' := by
  have h0 : Scalar.eqb (0:ℝ) (0.0:ℝ) = true := by rw [Scalar.real_eqb]; norm_num
  simp [Elem.trackP, Elem.trackM, h0]

/-- transverse deflecting cavity at zero voltage = Bmad-X drift, whatever phase, frequency, tilt, misalignment -/
theorem tdc_off (k : Consts ℝ) (L phase freq mx my tilt : ℝ) (v : Vec7 ℝ) (E0 : ℝ)
    (hp0 : 0 < (vecToBP v E0 k.mc2).2) (hP : 0 < 1 + (vecToBP v E0 k.mc2).1.pz) :
    bmadxTDC k L 0 phase freq mx my tilt v E0 =
      bpToVec (offsetUnset mx my tilt (trackADrift L (offsetSet mx my tilt (vecToBP v E0 k.mc2).1)
        (vecToBP v E0 k.mc2).2 k.mc2)) (vecToBP v E0 k.mc2).2 k.mc2 :=
  tdc_zero_voltage k L phase freq mx my tilt v E0 hp0 hP

/-- zero-length elements of zero strength are the identity -/
theorem zero_length_identity (k1 mx my t E m : ℝ) :
    (quadMap 0 k1 mx my t E m).toM = 1 ∧ (driftMap 0 E m).toM = 1 ∧ (hcorMap 0 0 E m).toM = 1 ∧
    (vcorMap 0 0 E m).toM = 1 := by
  refine ⟨quadMap_zero_length k1 mx my t E m, driftMap_zero' E m, ?_, ?_⟩
  · rw [hcor_off]; exact driftMap_zero' E m
  · rw [vcor_off]; exact driftMap_zero' E m
where
  driftMap_zero' (E m : ℝ) : (driftMap 0 E m).toM = 1 := by
    unfold driftMap
    rw [toM_driftLike, driftR56_eq]
    ext i j; fin_cases i <;> fin_cases j <;> simp

/-- the `1e-12` guard moves the focusing functions of a switched-off quadrupole by at most `1e-12·L²/2`
from the drift's value 1 (trigonometric branch) -/
theorem guard_bound_cos (L : ℝ) : |(cs (1e-12) L).c - 1| ≤ 1e-12 * L ^ 2 / 2 := by
  have hk : (0:ℝ) < 1e-12 := by norm_num
  rw [cs_pos _ L hk]
  simp only
  have h1 := Real.cos_le_one (√(1e-12) * L)
  have h2 := Real.one_sub_sq_div_two_le_cos (x := √(1e-12) * L)
  have hsq : (√(1e-12:ℝ) * L) ^ 2 = 1e-12 * L ^ 2 := by
    rw [mul_pow, Real.sq_sqrt hk.le]
  rw [abs_le]
  constructor <;> nlinarith [hsq]

/-- the focusing functions of a **switched-off Bmad-X quadrupole** (`k1 = 0`, the code's regularisation `eps > 0` under
the square root): the step's transverse matrix is the drift's `(1, L; 0, 1)` up to `eps·L²/2` and `eps·|L|³/5`
(`√eps·|L| ≤ 1`, i.e. `|L| ≤ 6.7·10⁷ m` for the code's `eps = 2.2e-16`); the focusing entry vanishes exactly -/
theorem bmadx_quad_off_bound (L eps : ℝ) (he : 0 < eps) (hx : |√eps * L| ≤ 1) :
    |(quadCoef (0:ℝ) L 1 eps).a11 - 1| ≤ eps * L ^ 2 / 2 ∧ |(quadCoef (0:ℝ) L 1 eps).a12 - L| ≤ eps * |L| ^ 3 / 5 ∧
    (quadCoef (0:ℝ) L 1 eps).a21 = 0 ∧ (quadCoef (0:ℝ) L 1 eps).a22 = (quadCoef (0:ℝ) L 1 eps).a11 := by
  have hs : 0 < √eps := Real.sqrt_pos.mpr he
  have hsq : √eps ^ 2 = eps := Real.sq_sqrt he.le
  have h1 : Scalar.leb (0:ℝ) (0.0:ℝ) = true := by rw [Scalar.real_leb]; norm_num
  have h2 : Scalar.ltb (0.0:ℝ) (0:ℝ) = false := by rw [Scalar.real_ltb_false]; norm_num
  have ha11 : (quadCoef (0:ℝ) L 1 eps).a11 = Real.cos (√eps * L) := by
    simp [quadCoef, mulMask, h1, h2]; norm_num
  have ha12 : (quadCoef (0:ℝ) L 1 eps).a12 = Real.sin (√eps * L) / √eps := by
    simp [quadCoef, mulMask, h1, h2]; norm_num
  refine ⟨?_, ?_, by simp [quadCoef], rfl⟩
  · rw [ha11]
    have c1 := Real.cos_le_one (√eps * L)
    have c2 := Real.one_sub_sq_div_two_le_cos (x := √eps * L)
    have e : (√eps * L) ^ 2 = eps * L ^ 2 := by rw [mul_pow, hsq]
    rw [abs_le]
    constructor <;> nlinarith [e]
  · rw [ha12]
    have sb := Real.sin_bound hx
    set x := √eps * L with hxdef
    have hx0 : 0 ≤ |x| := abs_nonneg x
    have hx3 : |x| ^ 5 ≤ |x| ^ 3 := by
      have : |x| ^ 5 = |x| ^ 3 * |x| ^ 2 := by ring
      rw [this]
      have h2 : |x| ^ 2 ≤ 1 := by nlinarith
      have h3 : 0 ≤ |x| ^ 3 := by positivity
      nlinarith
    have hsx : |Real.sin x - x| ≤ |x| ^ 3 / 5 := by
      have t : Real.sin x - x = (Real.sin x - (x - x ^ 3 / 6)) - x ^ 3 / 6 := by ring
      rw [t]
      have a1 := abs_sub (Real.sin x - (x - x ^ 3 / 6)) (x ^ 3 / 6)
      have a2 : |x ^ 3 / 6| = |x| ^ 3 / 6 := by rw [abs_div, abs_pow]; norm_num
      have h3 : 0 ≤ |x| ^ 3 := by positivity
      linarith
    have hd : Real.sin x / √eps - L = (Real.sin x - x) / √eps := by
      rw [hxdef]; field_simp
    rw [hd, abs_div, abs_of_pos hs, div_le_iff₀ hs]
    have hxa : |x| = √eps * |L| := by rw [hxdef, abs_mul, abs_of_pos hs]
    calc |Real.sin x - x| ≤ |x| ^ 3 / 5 := hsx
      _ = eps * |L| ^ 3 / 5 * √eps := by rw [hxa, mul_pow]; rw [show √eps ^ 3 = √eps ^ 2 * √eps by ring, hsq]; ring

end C09
