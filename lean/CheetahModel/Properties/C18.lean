import CheetahModel.Proofs.BmadxProofs
/-!
# C18 — coordinate conversions are mutually inverse and match the documented definitions
-/
open Scalar
namespace C18

/-- (τ, δ, E₀) → (z, pz, p₀c) → (τ, δ, E₀) is the identity for physical particles -/
theorem tau_delta_roundtrip (tau delta E0 m : ℝ) (hE0 : 0 < E0) (h0 : m * m < E0 * E0)
    (hE : 0 < E0 + delta * √(E0 * E0 - m * m))
    (h1 : m * m < (E0 + delta * √(E0 * E0 - m * m)) * (E0 + delta * √(E0 * E0 - m * m))) :
    let b := toBmad tau delta E0 m
    toCheetah b.z b.pz b.p0c m = ⟨tau, delta, E0⟩ := zpz_roundtrip tau delta E0 m hE0 h0 hE h1

/-- (z, pz, p₀c) → (τ, δ, E₀) → (z, pz, p₀c) is the identity -/
theorem z_pz_roundtrip (z pz p0c m : ℝ) (hp0 : 0 < p0c) (hP : 0 < 1 + pz) (hm : 0 < m) :
    let c := toCheetah z pz p0c m
    toBmad c.tau c.delta c.refE m = ⟨z, pz, p0c⟩ := pzz_roundtrip z pz p0c m hp0 hP hm

/-- the documented definitions: `z = −β·τ`, `pz = (p − p₀)/p₀`, `p₀c = √(E₀² − m²)`, `δ = (E − E₀)/(p₀c)` -/
theorem definitions (tau delta E0 m : ℝ) :
    let p0c := √(E0 * E0 - m * m)
    let E := E0 + delta * p0c
    let p := √(E * E - m * m)
    (toBmad tau delta E0 m).z = -(p / E) * tau ∧ (toBmad tau delta E0 m).pz = (p - p0c) / p0c ∧
    (toBmad tau delta E0 m).p0c = p0c ∧ delta = (E - E0) / p0c ∨ p0c = 0 := zpz_definitions tau delta E0 m

/-- Cheetah coordinates → SI (x, p_x, y, p_y, z, p_z) → Cheetah coordinates is the identity when the constants
are mutually consistent (`mec = me·c`) — on this tree they are not in float64 (known finding) -/
theorem si_roundtrip (s : SIConsts ℝ) (E0 mc2 : ℝ) (v : Vec7 ℝ) (hm : 0 < mc2) (hE : mc2 < E0)
    (hme : 0 < s.me) (hc : 0 < s.c) (hmec : s.mec = s.me * s.c)
    (hg : 1 < E0 / mc2 * (1 + v.a5 * relBeta (E0 / mc2)))
    (hT : (v.a1 * (E0 / mc2 * relBeta (E0 / mc2) * s.me * s.c)) ^ 2 + (v.a3 * (E0 / mc2 * relBeta (E0 / mc2) * s.me * s.c)) ^ 2
            ≤ (E0 / mc2 * (1 + v.a5 * relBeta (E0 / mc2)) * s.me *
                √(1 - 1 / ((E0 / mc2 * (1 + v.a5 * relBeta (E0 / mc2))) * (E0 / mc2 * (1 + v.a5 * relBeta (E0 / mc2))))) * s.c) ^ 2) :
    fromXyz s E0 mc2 (toXyz s E0 mc2 v) = v := xyz_roundtrip s E0 mc2 v hm hE hme hc hmec hg hT

/-- `E² = (pc)² + (mc²)²` for `momenta = √(energies² − m²)` -/
theorem energy_momentum (E m : ℝ) (h : m * m ≤ E * E) : E * E = √(E * E - m * m) * √(E * E - m * m) + m * m := by
  rw [Real.mul_self_sqrt (by linarith)]; ring

/-! non-vacuity: a 6 MeV reference, δ = 1 % -/
example : (0:ℝ) < 6e6 ∧ (510998.95:ℝ) * 510998.95 < 6e6 * 6e6 := by norm_num

end C18
