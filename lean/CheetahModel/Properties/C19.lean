import CheetahModel.Proofs.SpaceChargeProofs
/-!
# C19 — space-charge kicks change momenta only and scale with charge and length  (partial)

The kick's structure `Δp_i = dt · Σ_j (q_j s_j) · g(i,j)` (deposit, linear Poisson solve, gradient, gather are all
linear in the deposited charge; `g` depends on positions and grid only) is taken as the model, with `g`
arbitrary; the CIC deposit is modelled concretely and tied to `_deposit_charge_on_grid`.  Linearity is exact
for the momentum kick (and for px, py); δ is a square root of the momenta, so for δ the falsifier uses a
second-order bound.  "Pushes outward" and "matches the analytic field" are decided by the falsifier only.
-/
namespace C19

theorem kick_proportional_to_charge (g : ℕ → ℕ → ℝ) (w : List ℝ) (dt c : ℝ) (i : ℕ) :
    pairKick g (w.map (c * ·)) dt i = c * pairKick g w dt i := pairKick_scale_charge g w dt c i

theorem kick_proportional_to_length (g : ℕ → ℕ → ℝ) (w : List ℝ) (dt c : ℝ) (i : ℕ) :
    pairKick g w (c * dt) i = c * pairKick g w dt i := pairKick_scale_length g w dt c i

theorem kick_vanishes_for_zero_charge (g : ℕ → ℕ → ℝ) (n : ℕ) (dt : ℝ) (i : ℕ) :
    pairKick g (List.replicate n 0) dt i = 0 := pairKick_zero_charge g n dt i

theorem lost_particles_are_not_sources (g g' : ℕ → ℕ → ℝ) (w : List ℝ) (dt : ℝ) (i : ℕ)
    (h : ∀ j, w.getD j 0 ≠ 0 → g i j = g' i j) : pairKick g w dt i = pairKick g' w dt i :=
  pairKick_lost_not_source g g' w dt i h

theorem deposit_linear_in_charge (parts : List (ℝ × ℝ × ℝ × ℝ)) (invVol c : ℝ) (ix iy it : ℕ) :
    cicDeposit (parts.map fun p => (p.1, p.2.1, p.2.2.1, c * p.2.2.2)) invVol ix iy it
      = c * cicDeposit parts invVol ix iy it := cicDeposit_scale parts invVol c ix iy it

/-- positions (x, y, τ) are unchanged by a kick applied in SI coordinates -/
theorem positions_unchanged (s : SIConsts ℝ) (E0 mc2 : ℝ) (v : Vec7 ℝ) (dpx dpy dpz : ℝ)
    (hb : relBeta (E0 / mc2) ≠ 0) :
    let w := toXyz s E0 mc2 v
    let w' : Vec7 ℝ := { w with a1 := w.a1 + dpx, a3 := w.a3 + dpy, a5 := w.a5 + dpz }
    (fromXyz s E0 mc2 w').a0 = v.a0 ∧ (fromXyz s E0 mc2 w').a2 = v.a2 ∧ (fromXyz s E0 mc2 w').a4 = v.a4 :=
  positions_roundtrip s E0 mc2 v dpx dpy dpz hb

end C19
