import CheetahModel.Proofs.SpaceChargeProofs
import CheetahModel.Proofs.CicProofs
/-!
# C19 — space-charge kicks change momenta only and scale with charge and length  (partial)

The kick's structure `Δp_i = dt · Σ_j (q_j s_j) · g(i,j)` (deposit, linear Poisson solve, gradient, gather are all
linear in the deposited charge; `g` depends on positions and grid only) is taken as the model, with `g`
arbitrary; the CIC deposit is modelled concretely and tied to `_deposit_charge_on_grid`.  Linearity is exact
for the momentum kick (and for px, py); δ is a square root of the momenta, so for δ the falsifier uses a
second-order bound.  "Pushes outward" and "matches the analytic field" are decided by the falsifier only.
-/
namespace C19

theorem kick_proportional_to_charge (g : ℕ → ℕ → ℝ) (w : List ℝ) (dt c : ℝ) (i : ℕ) :
    pairKick g (w.map (c * ·)) dt i = c * pairKick g w dt i := pairKick_scale_charge g w dt c i

theorem kick_proportional_to_length (g : ℕ → ℕ → ℝ) (w : List ℝ) (dt c : ℝ) (i : ℕ) :
    pairKick g w (c * dt) i = c * pairKick g w dt i := pairKick_scale_length g w dt c i

theorem kick_vanishes_for_zero_charge (g : ℕ → ℕ → ℝ) (n : ℕ) (dt : ℝ) (i : ℕ) :
    pairKick g (List.replicate n 0) dt i = 0 := pairKick_zero_charge g n dt i

theorem lost_particles_are_not_sources (g g' : ℕ → ℕ → ℝ) (w : List ℝ) (dt : ℝ) (i : ℕ)
    (h : ∀ j, w.getD j 0 ≠ 0 → g i j = g' i j) : pairKick g w dt i = pairKick g' w dt i :=
  pairKick_lost_not_source g g' w dt i h

theorem deposit_linear_in_charge (parts : List (ℝ × ℝ × ℝ × ℝ)) (invVol c : ℝ) (ix iy it : ℕ) :
    cicDeposit (parts.map fun p => (p.1, p.2.1, p.2.2.1, c * p.2.2.2)) invVol ix iy it
      = c * cicDeposit parts invVol ix iy it := cicDeposit_scale parts invVol c ix iy it

/-- positions (x, y, τ) are unchanged by a kick applied in SI coordinates -/
theorem positions_unchanged (s : SIConsts ℝ) (E0 mc2 : ℝ) (v : Vec7 ℝ) (dpx dpy dpz : ℝ)
    (hb : relBeta (E0 / mc2) ≠ 0) :
    let w := toXyz s E0 mc2 v
    let w' : Vec7 ℝ := { w with a1 := w.a1 + dpx, a3 := w.a3 + dpy, a5 := w.a5 + dpz }
    (fromXyz s E0 mc2 w').a0 = v.a0 ∧ (fromXyz s E0 mc2 w').a2 = v.a2 ∧ (fromXyz s E0 mc2 w').a4 = v.a4 :=
  positions_roundtrip s E0 mc2 v dpx dpy dpz hb


/-- the deposited density does not depend on the order in which the particles are stored -/
theorem deposit_order_independent (parts parts' : List (ℝ × ℝ × ℝ × ℝ)) (h : parts.Perm parts') (invVol : ℝ) (ix iy it : ℕ) :
    cicDeposit parts invVol ix iy it = cicDeposit parts' invVol ix iy it := cicDeposit_perm parts parts' h invVol ix iy it

/-- … hence neither does the kick of any particle: whatever the field solve (`solve`: density grid ↦ force grid) and the
gather at the particle's own position (`gather`) are, they see the same density -/
theorem kick_order_independent {G P : Type} (solve : (ℕ → ℕ → ℕ → ℝ) → G) (gather : G → P → ℝ)
    (parts parts' : List (ℝ × ℝ × ℝ × ℝ)) (h : parts.Perm parts') (invVol : ℝ) (pos : P) :
    gather (solve (cicDeposit parts invVol)) pos = gather (solve (cicDeposit parts' invVol)) pos := by
  have : cicDeposit parts invVol = cicDeposit parts' invVol := by
    funext ix iy it; exact cicDeposit_perm parts parts' h invVol ix iy it
  rw [this]

/-- the cloud-in-cell weights of one particle are non-negative and sum to one over a grid that contains it -/
theorem weights_partition_of_unity (u : ℝ) (hu : 0 ≤ u) (n : ℕ) (hn : floorNat u + 1 < n) :
    (∀ ic, 0 ≤ cicW u ic) ∧ ∑ ic ∈ Finset.range n, cicW u ic = 1 :=
  ⟨cicW_nonneg u hu, cicW_sum u hu n hn⟩

/-- charge conservation of the deposit: density × cell volume summed over the grid = total deposited weight `Σ q·s`
(lost particles, `s = 0`, contribute nothing) -/
theorem deposit_conserves_charge (nx ny nt : ℕ) (invVol : ℝ) (parts : List (ℝ × ℝ × ℝ × ℝ))
    (h : ∀ p ∈ parts, (0 ≤ p.1 ∧ floorNat p.1 + 1 < nx) ∧ (0 ≤ p.2.1 ∧ floorNat p.2.1 + 1 < ny) ∧
        (0 ≤ p.2.2.1 ∧ floorNat p.2.2.1 + 1 < nt)) :
    ∑ ix ∈ Finset.range nx, ∑ iy ∈ Finset.range ny, ∑ it ∈ Finset.range nt, cicDeposit parts invVol ix iy it
      = (parts.map fun p => p.2.2.2).sum * invVol := cicDeposit_total nx ny nt invVol parts h

/-- non-vacuity: a particle in the interior of a 4-node axis -/
example : (0:ℝ) ≤ 1.5 ∧ floorNat (1.5:ℝ) + 1 < 4 := by
  have h := floorNat_spec (1.5:ℝ) (by norm_num)
  refine ⟨by norm_num, ?_⟩
  have : ((floorNat (1.5:ℝ) : ℕ) : ℝ) < 2 := by linarith [h.1]
  have : floorNat (1.5:ℝ) < 2 := by exact_mod_cast this
  omega

end C19
