import CheetahModel.Proofs.Survival
/-!
# C10 — energy, charge and particle survival are accounted for exactly
-/
open Scalar

namespace C10

/-- well-formed beam: survival values non-negative, one per particle -/
def WF (b : PBeam ℝ) : Prop := (∀ s ∈ b.survival, 0 ≤ s) ∧ b.survival.length = b.particles.length

/-- what tracking may do to survival / particle count / charges -/
def Accounted (b' b : PBeam ℝ) : Prop :=
  SurvLE b'.survival b.survival ∧ b'.particles.length = b.particles.length ∧ b'.charges = b.charges

theorem Accounted.wf {b' b : PBeam ℝ} (h : Accounted b' b) (hb : WF b) : WF b' := by
  refine ⟨h.1.nonneg, ?_⟩
  have := h.1.length_eq
  rw [this, hb.2, h.2.1]

theorem Accounted.trans {a b c : PBeam ℝ} (h1 : Accounted a b) (h2 : Accounted b c) : Accounted a c :=
  ⟨h1.1.trans h2.1, h1.2.1.trans h2.2.1, h1.2.2.trans h2.2.2⟩

/-- one element: survival stays in [0, previous value]; count and charges unchanged -/
theorem element (k : Consts ℝ) (e : Elem ℝ) (b : PBeam ℝ) (hb : WF b) : Accounted (Elem.trackP k e b) b := by
  have h1 := trackP_survival k e b hb.1 hb.2
  have h2 := trackP_counts k e b hb.2
  exact ⟨h1, h2.1, h2.2.1⟩

mutual
/-- every lattice (any ordering, nesting): survival never increases along it and stays ≥ 0,
the number of macro-particles and their individual charges never change -/
theorem lattice (k : Consts ℝ) : ∀ (l : Lat (Elem ℝ)) (b : PBeam ℝ), WF b → Accounted (Lat.track (semP k) l b) b
  | .elem e, b, hb => element k e b hb
  | .seg ls, b, hb => by
      rw [Lat.track_seg_eq_seq _ (semP_lawful k)]
      exact lattice_seq k ls b hb
theorem lattice_seq (k : Consts ℝ) :
    ∀ (ls : List (Lat (Elem ℝ))) (b : PBeam ℝ), WF b → Accounted (Lat.seq (semP k) ls b) b
  | [], b, hb => ⟨SurvLE.refl _ hb.1, rfl, rfl⟩
  | l :: ls, b, hb => by
      have h1 := lattice k l b hb
      have h2 := lattice_seq k ls _ (h1.wf hb)
      simp only [Lat.seq]
      exact h2.trans h1
end

/-- survival ≤ 1 is preserved too: values stay within [0, 1] -/
theorem survival_unit_interval (k : Consts ℝ) (l : Lat (Elem ℝ)) (b : PBeam ℝ) (hb : WF b)
    (h1 : ∀ s ∈ b.survival, s ≤ 1) : ∀ s ∈ (Lat.track (semP k) l b).survival, 0 ≤ s ∧ s ≤ 1 := by
  have h := (lattice k l b hb).1
  intro s hs
  exact ⟨h.nonneg s hs, h.le_one h1 s hs⟩

/-- an active aperture multiplies survival by the 0/1 mask of its opening (strict `<` rectangle,
`≤ 1` ellipse) and leaves coordinates, energy and charges untouched -/
theorem aperture_exact (k : Consts ℝ) (xm ym : ℝ) (ell : Bool) (b : PBeam ℝ) :
    Elem.trackP k (.aperture xm ym ell true) b =
      { b with survival := List.zipWith (fun s v => if Elem.apertureMask xm ym ell v then s else 0)
                             b.survival b.particles } := by
  simp only [Elem.trackP, if_true]
  have : (fun (s : ℝ) (v : Vec7 ℝ) => mulMask s (Elem.apertureMask xm ym ell v)) =
      (fun s v => if Elem.apertureMask xm ym ell v then s else 0) := by
    funext s v; exact mulMask_real s _
  rw [this]

theorem aperture_rect_mask (xm ym : ℝ) (v : Vec7 ℝ) :
    Elem.apertureMask xm ym false v = true ↔ (-xm < v.a0 ∧ v.a0 < xm) ∧ (-ym < v.a2 ∧ v.a2 < ym) := by
  simp [Elem.apertureMask]

theorem aperture_ellipse_mask (xm ym : ℝ) (v : Vec7 ℝ) :
    Elem.apertureMask xm ym true v = true ↔ v.a0 * v.a0 / (xm * xm) + v.a2 * v.a2 / (ym * ym) ≤ 1 := by
  simp [Elem.apertureMask]
  norm_num

/-- an inactive aperture, and every aperture for a ParameterBeam, is the identity -/
theorem aperture_inactive (k : Consts ℝ) (xm ym : ℝ) (ell : Bool) (b : PBeam ℝ) (b' : MBeam ℝ) (a : Bool) :
    Elem.trackP k (.aperture xm ym ell false) b = b ∧ Elem.trackM k (.aperture xm ym ell a) b' = b' := by
  simp [Elem.trackP, Elem.trackM]

/-- the reference energy changes only in active cavities, by exactly `voltage·cos(phase)`,
identically for both beam types -/
theorem energy_bookkeeping (k : Consts ℝ) (e : Elem ℝ) (b : PBeam ℝ) :
    (Elem.trackP k e b).energy =
      match e with
      | .cavity _ V ph _ =>
          if V = 0 then b.energy
          else if 0 < b.energy + V * Real.cos (deg2rad k ph) then b.energy + V * Real.cos (deg2rad k ph)
          else b.energy
      | _ => b.energy := by
  have hz : (0.0:ℝ) = 0 := by norm_num
  cases e <;> simp only [Elem.trackP, PBeam.act]
  case cavity L V ph f =>
    by_cases hV : V = 0
    · have : Scalar.eqb V (0.0:ℝ) = true := by rw [Scalar.real_eqb]; norm_num; exact hV
      simp only [this, if_true]
      simp [hV]
    · have : Scalar.eqb V (0.0:ℝ) = false := by rw [Scalar.real_eqb_false]; norm_num; exact hV
      simp only [this, Bool.false_eq_true, if_false, hV]
      unfold Elem.cavTrackP
      simp only
      by_cases hE : 0 < b.energy + V * Real.cos (deg2rad k ph)
      · have : Scalar.ltb (0.0:ℝ) (b.energy + V * Scalar.cos (deg2rad k ph)) = true := by
          rw [Scalar.real_ltb]; norm_num; exact hE
        simp only [this, if_true, hE, Option.getD_some]
        rfl
      · have : Scalar.ltb (0.0:ℝ) (b.energy + V * Scalar.cos (deg2rad k ph)) = false := by
          rw [Scalar.real_ltb_false]; norm_num; exact not_lt.mp hE
        simp only [this, Bool.false_eq_true, if_false, hE, Option.getD_none]
  case aperture xm ym ell active => split <;> rfl
  case screen active blocking => split <;> rfl

/-- a blocking active screen zeroes every survival probability: no charge downstream -/
theorem blocking_screen (k : Consts ℝ) (b : PBeam ℝ) :
    ∀ s ∈ (Elem.trackP k (.screen true true) b).survival, s = 0 := by
  intro s hs
  simp [Elem.trackP] at hs
  obtain ⟨_, _, rfl⟩ := hs
  norm_num

/-- … and it stays zero through any downstream lattice -/
theorem zero_stays_zero (k : Consts ℝ) (l : Lat (Elem ℝ)) (b : PBeam ℝ) (hb : WF b)
    (h0 : ∀ s ∈ b.survival, s = 0) : ∀ s ∈ (Lat.track (semP k) l b).survival, s = 0 := by
  exact (lattice k l b hb).1.zero h0

/-- statistics count lost particles as absent (0/1 survival): weighted mean, unbiased weighted
variance and total charge equal those of the surviving particles alone -/
theorem mean_of_survivors (xw : List (ℝ × ℝ)) (h : ∀ p ∈ xw, p.2 = 0 ∨ p.2 = 1) :
    wmeanP xw = smean (survivors xw) := wmean_survivors xw h
theorem variance_of_survivors (xw : List (ℝ × ℝ)) (h : ∀ p ∈ xw, p.2 = 0 ∨ p.2 = 1)
    (h2 : 2 ≤ (survivors xw).length) : wvarP xw = svar (survivors xw) := wvar_survivors xw h h2
theorem charge_of_survivors (qw : List (ℝ × ℝ)) (h : ∀ p ∈ qw, p.2 = 0 ∨ p.2 = 1) :
    (qw.map fun p => p.1 * p.2).sum = (survivors qw).sum := total_charge_survivors qw h

/-- the pair-list statistics are the model's executable `wmean` / `wvar` (which the correspondence
check ties to `ParticleBeam.mu_*`, `sigma_*²`) -/
theorem wmean_model (x w : List ℝ) (hl : x.length = w.length) : wmean x w = wmeanP (x.zip w) := by
  unfold wmean wmeanP
  rw [listSum_eq, listSum_eq]
  congr 1
  · exact zipWith_mul_eq x w
  · rw [List.map_snd_zip]; omega

/-! non-vacuity -/
example : WF { particles := [⟨0,0,0,0,0,0,1⟩, ⟨1,0,0,0,0,0,1⟩], energy := 1e8, charges := [1,1], survival := [1, 0.5] } := by
  constructor
  · intro s hs; simp at hs; rcases hs with h | h <;> rw [h] <;> norm_num
  · rfl

end C10
