import CheetahModel.Proofs.DiagProofs
import CheetahModel.Proofs.SemLawful
/-!
# C11 — tracking has no side effects on its inputs and no hidden state  (partial)

The model makes the claim explicit: a lattice is its list of parameter records; assignments replace a
record; `track` is a function of (records, beam) and returns the records unchanged.  The history theorem
says that after any sequence of operations a track equals the track of a lattice freshly built from the
final records.  That the real objects *are* such a pure state machine (no writes to input tensors — observed
through `_version` counters and `data_ptr()` —, no dependence on earlier tracks) is what the falsifier
checks on random histories; aliasing is modelled at tensor granularity only, the autograd graph not at all.
-/
namespace C11

/-- operations on a lattice handle -/
inductive Op (α : Type) where
  | assign (i : Nat) (e : Elem α)      -- set parameters of element i (directly or via the segment's by-name handle)
  | track (b : PBeam α)                -- track a beam (either beam type: the ParticleBeam case is modelled)
  | clone                               -- clone the lattice
  | read                                -- read a diagnostic

/-- the lattice state is nothing but the current parameter records -/
noncomputable def step (k : Consts ℝ) (st : List (Elem ℝ)) : Op ℝ → List (Elem ℝ) × Option (PBeam ℝ)
  | .assign i e => (st.set i e, none)
  | .track b => (st, some (Lat.seq (semP k) (st.map .elem) b))
  | .clone => (st, none)
  | .read => (st, none)

noncomputable def run (k : Consts ℝ) (st : List (Elem ℝ)) : List (Op ℝ) → List (Elem ℝ)
  | [] => st
  | op :: ops => run k (step k st op).1 ops

/-- the records after a history: only assignments matter -/
def finalRecords (st : List (Elem ℝ)) : List (Op ℝ) → List (Elem ℝ)
  | [] => st
  | .assign i e :: ops => finalRecords (st.set i e) ops
  | _ :: ops => finalRecords st ops

theorem run_eq_final (k : Consts ℝ) : ∀ (ops : List (Op ℝ)) (st : List (Elem ℝ)), run k st ops = finalRecords st ops
  | [], _ => rfl
  | .assign i e :: ops, st => by simp [run, step, finalRecords, run_eq_final k ops]
  | .track b :: ops, st => by simp [run, step, finalRecords, run_eq_final k ops]
  | .clone :: ops, st => by simp [run, step, finalRecords, run_eq_final k ops]
  | .read :: ops, st => by simp [run, step, finalRecords, run_eq_final k ops]

/-- after any history, tracking equals tracking through a lattice freshly built from the final parameter values -/
theorem history_eq_fresh (k : Consts ℝ) (st : List (Elem ℝ)) (ops : List (Op ℝ)) (b : PBeam ℝ) :
    (step k (run k st ops) (.track b)).2 = some (Lat.seq (semP k) ((finalRecords st ops).map .elem) b) := by
  rw [run_eq_final]; rfl

/-- tracking does not change the lattice, and repeating a track gives the identical result -/
theorem track_pure (k : Consts ℝ) (st : List (Elem ℝ)) (b : PBeam ℝ) :
    (step k st (.track b)).1 = st ∧ (step k (step k st (.track b)).1 (.track b)).2 = (step k st (.track b)).2 :=
  ⟨rfl, rfl⟩

/-- a diagnostic's reading always reflects the most recent beam that passed it -/
theorem reading_is_last_beam {B I : Type} (img : Option B → I) (ops : List (ScreenOp B)) :
    (screenStep img (screenRun img ⟨none, none⟩ ops) .read).2 = some (img (lastBeam none ops)) :=
  reading_reflects_last_beam img ops

/-- the cache is never stale -/
theorem cache_coherent {B I : Type} (img : Option B → I) (ops : List (ScreenOp B)) :
    Coherent img (screenRun img (⟨none, none⟩ : ScreenState B I) ops) :=
  (screenRun_spec img ops _ (Or.inl rfl)).1

/-- the optimisation `transfer_maps_merged` tracks the given beam through the lattice and thereby through the shared
diagnostics: what arrives at every item it leaves unmerged is the beam element-by-element tracking sends there — for every
semantics satisfying the linear contract (`semP_lawful`, `semM_lawful`: the model's two beam types over all element kinds) -/
theorem merged_probe_beam_is_the_tracked_beam {E S M En : Type} (σ : Sem E S M En) (c : Lat.Custom σ)
    (keep : Lat E → Bool) (h : σ.Lawful) (ls : List (Lat E)) (b : S) :
    Lat.arrivals σ c keep ls b = Lat.arrSpec σ keep ls b :=
  Lat.arrivals_spec σ c keep h ls b

end C11
