import CheetahModel.Proofs.SemLawful
import CheetahModel.Proofs.Tables
/-!
# C08 — lattice speed optimisations do not change tracking results

`Lat.merged` is the loop of `Segment.transfer_maps_merged` (pending run of skippable, non-excepted
elements; single-element runs kept; trailing run always merged; the beam tracked forward to obtain
the entrance energy of every run).  `Lat.without` / `Lat.replaced` are the three filters.
-/

namespace C08
variable {E S M En : Type} (σ : Sem E S M En) (c : Lat.Custom σ) (keep : Lat E → Bool)

/-- merging transfer maps for the given incoming beam preserves its tracking result -/
theorem merge_track (h : σ.Lawful) (ls : List (Lat E)) (b : S) :
    Lat.track σ (.seg (Lat.merged σ c keep ls b)) b = Lat.track σ (.seg ls) b :=
  Lat.track_merged σ c keep h ls b

/-- elements that are excepted by name, or not mergeable, are kept unchanged and in order; merged
maps are never among them — so a merged map never spans a non-mergeable (in particular an
energy-changing, hence non-skippable) or an excepted element -/
theorem merge_keeps (P : Lat E → Bool) (hP : ∀ l, P l = true → (Lat.skip σ l && !keep l) = false)
    (hC : ∀ m, P (.elem (c.mkE m)) = false) (ls : List (Lat E)) (b : S) :
    (Lat.merged σ c keep ls b).filter P = ls.filter P :=
  Lat.mergeAux_keeps σ c keep P hP hC ls [] b (by simp)

/-- removing elements whose tracking is the identity (markers; inactive zero-length elements *under
that per-class hypothesis*) preserves tracking -/
theorem drop_identity_track (h : σ.Lawful) (drop : Lat E → Bool)
    (hd : ∀ l, drop l = true → keep l = false → ∀ s, Lat.track σ l s = s) (ls : List (Lat E)) (s : S) :
    Lat.track σ (.seg (Lat.without keep drop ls)) s = Lat.track σ (.seg ls) s := by
  rw [Lat.track_seg_eq_seq σ h, Lat.track_seg_eq_seq σ h, Lat.seq_without σ keep drop hd]

/-- replacing elements by ones that track identically (inactive elements by drifts *under that
per-class hypothesis*) preserves tracking -/
theorem replace_equal_track (h : σ.Lawful) (repl : Lat E → Bool) (f : Lat E → Lat E)
    (hf : ∀ l, repl l = true → keep l = false → ∀ s, Lat.track σ (f l) s = Lat.track σ l s)
    (ls : List (Lat E)) (s : S) :
    Lat.track σ (.seg (Lat.replaced keep repl f ls)) s = Lat.track σ (.seg ls) s := by
  rw [Lat.track_seg_eq_seq σ h, Lat.track_seg_eq_seq σ h, Lat.seq_replaced σ keep repl f hf]

/-- excepted elements survive the filters unchanged, in order -/
theorem filter_keeps (drop : Lat E → Bool) (ls : List (Lat E)) :
    (Lat.without keep drop ls).filter keep = ls.filter keep := Lat.without_keeps keep drop ls

/-- the model's `CustomTransferMap` is a constant-map skippable element -/
noncomputable def customElem (k : Consts ℝ) : Lat.Custom (semP k) where
  mkE := fun m => .custom m 0
  skippable := fun _ => rfl
  map := fun _ _ => rfl

/-- while the lattice is being optimised, every item that is not merged — the active diagnostics among them — receives
exactly the beam that element-by-element tracking of the original lattice sends into it (C11 / C20 for the probe beam of
`transfer_maps_merged`) -/
theorem merge_arrivals (h : σ.Lawful) (ls : List (Lat E)) (b : S) :
    Lat.arrivals σ c keep ls b = Lat.arrSpec σ keep ls b := Lat.arrivals_spec σ c keep h ls b

/-- merging on the concrete ParticleBeam semantics -/
theorem merge_track_particle_beam (k : Consts ℝ) (keep : Lat (Elem ℝ) → Bool)
    (ls : List (Lat (Elem ℝ))) (b : PBeam ℝ) :
    Lat.track (semP k) (.seg (Lat.merged (semP k) (customElem k) keep ls b)) b = Lat.track (semP k) (.seg ls) b :=
  Lat.track_merged _ _ keep (semP_lawful k) ls b

/-- markers track as the identity, for both beam types (so removing them is sound) -/
theorem marker_identity (k : Consts ℝ) (b : PBeam ℝ) (b' : MBeam ℝ) :
    Elem.trackP k .marker b = b ∧ Elem.trackM k .marker b' = b' := ⟨rfl, rfl⟩

/-- the `is_skippable` / `is_active` normal forms and the tracking-method dispatch of every element class of
/repo (regenerated on every run) are the reviewed ones: energy-changing elements (Cavity: `not is_active`),
non-linear ones (SpaceChargeKick, TransverseDeflectingCavity: `False`; Bmad-X tracked: `tracking_method == 'cheetah'`)
and active diagnostics / apertures are never unconditionally skippable -/
theorem skippability_table : Gen.predicates = Gen.pinnedPredicates := by decide +kernel

theorem energy_changing_or_nonlinear_not_skippable :
    ((Gen.findPred "Cavity").map (·.isSkippable)) = some "not self.is_active" ∧
    ((Gen.findPred "SpaceChargeKick").map (·.isSkippable)) = some "False" ∧
    ((Gen.findPred "TransverseDeflectingCavity").map (·.isSkippable)) = some "False" ∧
    ((Gen.findPred "Drift").map (·.isSkippable)) = some "self.tracking_method == 'cheetah'" ∧
    ((Gen.findPred "Quadrupole").map (·.isSkippable)) = some "self.tracking_method == 'cheetah'" ∧
    ((Gen.findPred "Dipole").map (·.isSkippable)) = some "self.tracking_method == 'cheetah'" ∧
    ((Gen.findPred "Aperture").map (·.isSkippable)) = some "not self.is_active" ∧
    ((Gen.findPred "Screen").map (·.isSkippable)) = some "not self.is_active" ∧
    ((Gen.findPred "BPM").map (·.isSkippable)) = some "not self.is_active" := by decide +kernel

end C08
