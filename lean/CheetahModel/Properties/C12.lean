import CheetahModel.Proofs.Tables
import Mathlib.Tactic.NormNum
import Mathlib.Data.Real.Basic
import CheetahModel.Proofs.PromoteProofs
/-!
# C12 — dtype is preserved and float64 simulations are float64-accurate  (table part + constants)

`Gen.suspiciousDtypeSites` lists every tensor-creation call in cheetah/ that allocates with the default
dtype or casts a default-dtype temporary on entry (syntactic rules in tools/extract.py), regenerated on
every run; `Gen.pinnedDtypeSites` is the reviewed baseline (tools/spec/pinned.json: each entry is either
harmless — an index, a 0-dim constant that type-promotes — or a known finding).  Round-off itself is
outside every theorem; it is covered by the float64 correspondences and the mpmath falsifier.
-/
namespace C12
open Gen

/-- no tensor-creation site outside the reviewed baseline allocates in the default dtype -/
theorem no_new_default_dtype_sites : subsetSorted suspiciousDtypeSites pinnedDtypeSites = true := by decide +kernel

/-- splitting forwards dtype and device (and every other constructor parameter) to the pieces -/
theorem split_forwards_dtype : classes.all splitForwardsAll = true := by decide

/-- why a float32 module constant ruins float64 accuracy: the float32 value of the speed of light
(299792448) is off by more than 1e-8 relative -/
theorem f32_speed_of_light_error : |(299792448 : ℝ) - 299792458| / 299792458 > 1e-8 := by norm_num [abs_of_neg]

/-- and a decimal such as 0.1 routed through float32 (0.100000001490116…) is off by more than 1e-9 -/
theorem f32_roundtrip_tenth : |(0.100000001490116119384765625 : ℝ) - 0.1| > 1e-9 := by norm_num [abs_of_pos]

/-! ### PyTorch's type promotion over the operand kinds Cheetah mixes (`Promote.lean`, tied to torch by op `prom`) -/

/-- **a consistently `float64` computation stays `float64`**: in any arithmetic expression whose tensor leaves — dimensioned
or zero-dimensional — are all `float64` (Python literals unrestricted), every tensor-valued result is `float64` -/
theorem f64_in_f64_out (d : Prom.DT) (t : Prom.Tree) (h : t.AllF64) :
    (t.eval d).kind = .py ∨ (t.eval d).dt = .f64 := Prom.f64_closed d t h

/-- … and nothing in it depends on `torch.get_default_dtype()` -/
theorem f64_independent_of_default (d1 d2 : Prom.DT) (t : Prom.Tree) (h : t.AllF64) : t.eval d1 = t.eval d2 :=
  Prom.f64_default_free d1 d2 t h

/-- promotion does not depend on the order of the operands -/
theorem promotion_commutes (d : Prom.DT) (a b : Prom.Opd) : Prom.resultType d a b = Prom.resultType d b a :=
  Prom.resultType_comm d a b

/-- the mechanisms behind the float32 findings: a zero-dimensional `float64` setting does not widen `float32` particles; a
zero-dimensional `float32` setting is silently widened (after its value was rounded); a Python float makes an integer
tensor a tensor of the *default* dtype -/
theorem promotion_traps (d : Prom.DT) :
    Prom.resultType d ⟨.dim, .f32⟩ ⟨.zero, .f64⟩ = .f32 ∧ Prom.resultType d ⟨.dim, .f64⟩ ⟨.zero, .f32⟩ = .f64 ∧
    (d.isFloat = true → Prom.resultType d ⟨.dim, .i64⟩ ⟨.py, .f64⟩ = d) :=
  ⟨Prom.zero_dim_does_not_widen d, Prom.zero_dim_is_widened d, Prom.python_float_uses_default d⟩

/-- non-vacuity: `length * particles + 0.5 * k1` with float64 tensors -/
example : Prom.Tree.AllF64 (.node (.node (.leaf ⟨.zero, .f64⟩) (.leaf ⟨.dim, .f64⟩)) (.node (.leaf ⟨.py, .f64⟩) (.leaf ⟨.zero, .f64⟩))) := by
  simp [Prom.Tree.AllF64]

end C12
