import CheetahModel.Proofs.Tables
import Mathlib.Tactic.NormNum
import Mathlib.Data.Real.Basic
/-!
# C12 — dtype is preserved and float64 simulations are float64-accurate  (table part + constants)

`Gen.suspiciousDtypeSites` lists every tensor-creation call in cheetah/ that allocates with the default
dtype or casts a default-dtype temporary on entry (syntactic rules in tools/extract.py), regenerated on
every run; `Gen.pinnedDtypeSites` is the reviewed baseline (tools/spec/pinned.json: each entry is either
harmless — an index, a 0-dim constant that type-promotes — or a known finding).  Round-off itself is
outside every theorem; it is covered by the float64 correspondences and the mpmath falsifier.
-/
namespace C12
open Gen

/-- no tensor-creation site outside the reviewed baseline allocates in the default dtype -/
theorem no_new_default_dtype_sites : subsetSorted suspiciousDtypeSites pinnedDtypeSites = true := by decide +kernel

/-- splitting forwards dtype and device (and every other constructor parameter) to the pieces -/
theorem split_forwards_dtype : classes.all splitForwardsAll = true := by decide

/-- why a float32 module constant ruins float64 accuracy: the float32 value of the speed of light
(299792448) is off by more than 1e-8 relative -/
theorem f32_speed_of_light_error : |(299792448 : ℝ) - 299792458| / 299792458 > 1e-8 := by norm_num [abs_of_neg]

/-- and a decimal such as 0.1 routed through float32 (0.100000001490116…) is off by more than 1e-9 -/
theorem f32_roundtrip_tenth : |(0.100000001490116119384765625 : ℝ) - 0.1| > 1e-9 := by norm_num [abs_of_pos]

end C12
