/-!
# LatticeJSON: `convert_segment` / `parse_segment` (`latticejson.py`)

Core Lean only.  An element is recorded as (class, parameter dictionary); the two dictionaries of the file
(`elements`, `lattices`) are modelled as lookup functions that are updated key by key, exactly the
`dict[key] = value` / `dict.update` semantics (a later write to the same key wins).
-/

structure ERec where
  cls : String
  params : List (String × String)
deriving DecidableEq

/-- a segment tree with names: leaves are elements, inner nodes (sub-)segments -/
inductive NLat where
  | leaf (name : String) (e : ERec)
  | seg (name : String) (items : List NLat)

namespace NLat

def name : NLat → String
  | .leaf n _ => n
  | .seg n _ => n

/-- the two dictionaries of a LatticeJSON file -/
structure Dict where
  elements : String → Option ERec
  lattices : String → Option (List String)

def Dict.empty : Dict := ⟨fun _ => none, fun _ => none⟩
def Dict.setElem (d : Dict) (k : String) (v : ERec) : Dict := { d with elements := fun x => if x = k then some v else d.elements x }
def Dict.setLat (d : Dict) (k : String) (v : List String) : Dict := { d with lattices := fun x => if x = k then some v else d.lattices x }

mutual
/-- `convert_segment`, threading the dictionaries (the Python builds local dicts and `update`s them into the
caller's: with distinct names that is the same as writing into one pair of dicts in visiting order) -/
def conv : NLat → Dict → Dict
  | .leaf n e, d => d.setElem n e
  | .seg n items, d => (convL items d).setLat n (items.map name)
def convL : List NLat → Dict → Dict
  | [], d => d
  | t :: ts, d => convL ts (conv t d)
end

/-- `parse_segment` / `parse_element`; `fuel` bounds the nesting depth -/
def parse (d : Dict) : Nat → String → Option NLat
  | 0, _ => none
  | fuel + 1, n =>
      match d.lattices n with
      | some cell => (cell.mapM (parse d fuel)).map (NLat.seg n)
      | none => (d.elements n).map (NLat.leaf n)

mutual
/-- all names occurring in a tree -/
def names : NLat → List String
  | .leaf n _ => [n]
  | .seg n items => n :: namesL items
def namesL : List NLat → List String
  | [] => []
  | t :: ts => names t ++ namesL ts
end

mutual
def depth : NLat → Nat
  | .leaf _ _ => 1
  | .seg _ items => depthL items + 1
def depthL : List NLat → Nat
  | [] => 0
  | t :: ts => max (depth t) (depthL ts)
end

end NLat
