import CheetahModel.Dual
/-! Driver op: forward-mode derivatives of the quadrupole / drift / solenoid map entries. -/
open Scalar
namespace DrvD
def g (a : Array Float) (i : Nat) : Float := a.getD i 0.0

def dualOp (op : String) (a : Array Float) : Option (List Float) :=
  match op with
  | "dquad" =>   -- wrt(0..5) L k1 mx my tilt E mc2  ->  49 tangents
      let wrt : QuadVar := match (g a 0).toUInt64.toNat with
        | 0 => .L | 1 => .k1 | 2 => .mx | 3 => .my | 4 => .tilt | _ => .energy
      some ((quadMapDual wrt (g a 1) (g a 2) (g a 3) (g a 4) (g a 5) (g a 6) (g a 7)).toList.map (·.d))
  | "dsolenoid" =>  -- wrt(0: L, 1: k) L k E mc2
      let isL := (g a 0) == 0.0
      let Ld : Dual Float := if isL then Dual.var (g a 1) else Dual.const (g a 1)
      let kd : Dual Float := if isL then Dual.const (g a 2) else Dual.var (g a 2)
      some ((solenoidMap Ld kd (Dual.const 0.0) (Dual.const 0.0) (Dual.const (g a 3)) (Dual.const (g a 4))).toList.map (·.d))
  | _ => none
end DrvD
