import CheetahModel.Maps
import CheetahModel.Beam
import CheetahModel.Lattice
/-!
# Element kinds and their `is_skippable`, `length`, `transfer_map`, `track` for both beam types
(one sample; the default "cheetah" method; Bmad-X elements are in `Bmadx.lean`)
-/
open Scalar

inductive Elem (α : Type) where
  | drift (L : α)
  | quad (L k1 mx my tilt : α)
  | dipole (p : DipoleP α)
  | solenoid (L k mx my : α)
  | hcor (L angle : α)
  | vcor (L angle : α)
  | undulator (L : α)
  | cavity (L V phase freq : α)
  | marker
  | custom (M : Mat7 α) (L : α)
  | aperture (xmax ymax : α) (elliptical active : Bool)
  | bpm (active : Bool)
  | screen (active blocking : Bool)

variable {α : Type} [Scalar α]

namespace Elem

/-- `is_skippable` -/
def skippable : Elem α → Bool
  | .cavity _ V _ _ => eqb V 0.0            -- `not is_active`, `is_active = any(voltage != 0)`
  | .aperture _ _ _ active => !active
  | .bpm active => !active
  | .screen active _ => !active
  | _ => true

/-- `length` -/
def length : Elem α → α
  | .drift L | .quad L _ _ _ _ | .solenoid L _ _ _ | .hcor L _ | .vcor L _ | .undulator L
  | .cavity L _ _ _ | .custom _ L => L
  | .dipole p => p.L
  | _ => 0.0

/-- `transfer_map(energy)` -/
def map (k : Consts α) (e : Elem α) (energy : α) : Mat7 α :=
  match e with
  | .drift L => driftMap L energy k.mc2
  | .quad L k1 mx my t => quadMap L k1 mx my t energy k.mc2
  | .dipole p => dipoleMap p energy k.mc2
  | .solenoid L kk mx my => solenoidMap L kk mx my energy k.mc2
  | .hcor L a => hcorMap L a energy k.mc2
  | .vcor L a => vcorMap L a energy k.mc2
  | .undulator L => undulatorMap L energy k.mc2
  | .cavity L V ph f => cavityMap k L V ph f energy
  | .custom M _ => M
  | _ => identMap

/-! ### cavity tracking (`Cavity._track_beam`) -/

def cube (x : α) : α := x * x * x

/-- second-order longitudinal coefficients (T566, T556, T555) -/
structure CavT (α : Type) where
  t566 : α
  t556 : α
  t555 : α

/-- `accel` is the outcome of the whole-tensor test `torch.any(delta_energy > 0)` -/
def cavTFlag (accel : Bool) (k : Consts α) (L V phase freq energy : α) : CavT α :=
  let rf0 := relFactors energy k.mc2
  let phi := deg2rad k phase
  let dE := V * cos phi
  let t566₀ := 1.5 * L * rf0.igamma2 / cube rf0.beta
  if accel then
    let kk := 2.0 * k.pi * freq / k.c
    let rf1 := relFactors (energy + dE) k.mc2
    let g0 := rf0.gamma; let g1 := rf1.gamma; let b0 := rf0.beta; let b1 := rf1.beta
    let dgamma := V / k.mc2
    { t566 := L * (cube b0 * cube g0 - cube b1 * cube g1)
                / (2.0 * b0 * cube b1 * g0 * (g0 - g1) * cube g1),
      t556 := b0 * kk * L * dgamma * g0 * (cube b1 * cube g1 + b0 * (g0 - cube g1)) * sin phi
                / (cube b1 * cube g1 * ((g0 - g1) * (g0 - g1))),
      t555 := b0 * b0 * (kk * kk) * L * dgamma / 2.0
                * (dgamma * (2.0 * g0 * cube g1 * (b0 * cube b1 - 1.0) + g0 * g0 + 3.0 * (g1 * g1) - 2.0)
                    / (cube b1 * cube g1 * cube (g0 - g1)) * (sin phi * sin phi)
                  - (g1 * g0 * (b1 * b0 - 1.0) + 1.0) / (b1 * g1 * ((g0 - g1) * (g0 - g1))) * cos phi) }
  else { t566 := t566₀, t556 := 0.0, t555 := 0.0 }

/-- one sample on its own: the flag is that sample's own `delta_energy > 0` -/
def cavT (k : Consts α) (L V phase freq energy : α) : CavT α :=
  cavTFlag (ltb 0.0 (V * cos (deg2rad k phase))) k L V phase freq energy

/-- outgoing δ of one particle / of the mean -/
def cavDelta (k : Consts α) (V phase freq energy tau delta : α) : α :=
  let rf0 := relFactors energy k.mc2
  let phi := deg2rad k phase
  let Eout := energy + V * cos phi
  let rf1 := relFactors Eout k.mc2
  let kk := 2.0 * k.pi * freq / k.c
  delta * energy * rf0.beta / (Eout * rf1.beta)
    + V * rf0.beta / (Eout * rf1.beta) * (cos (-tau * rf0.beta * kk + phi) - cos phi)

/-- `Cavity.track` for a `ParticleBeam`; `none` models the `NameError` the code raises when
`energy + delta_energy <= 0` -/
def cavTrackP (k : Consts α) (L V phase freq : α) (b : PBeam α) : Option (PBeam α) :=
  let phi := deg2rad k phase
  let dE := V * cos phi
  if ltb 0.0 (b.energy + dE) then
    let tm := cavityMap k L V phase freq b.energy
    let T := cavT k L V phase freq b.energy
    let f (v : Vec7 α) : Vec7 α :=
      let o := Mat7.mulVec tm v
      { o with a5 := cavDelta k V phase freq b.energy v.a4 v.a5,
               a4 := o.a4 + (T.t566 * (v.a5 * v.a5) + T.t556 * v.a4 * v.a5 + T.t555 * (v.a4 * v.a4)) }
    some { b with particles := b.particles.map f, energy := b.energy + dE }
  else none

/-- `Cavity.track` for a `ParameterBeam` -/
def cavTrackM (k : Consts α) (L V phase freq : α) (b : MBeam α) : Option (MBeam α) :=
  let phi := deg2rad k phase
  let dE := V * cos phi
  if ltb 0.0 (b.energy + dE) then
    let tm := cavityMap k L V phase freq b.energy
    let T := cavT k L V phase freq b.energy
    let o := MBeam.act tm b
    let mu := { o.mu with
      a5 := cavDelta k V phase freq b.energy b.mu.a4 b.mu.a5,
      a4 := o.mu.a4 + (T.t566 * (b.mu.a5 * b.mu.a5) + T.t556 * b.mu.a4 * b.mu.a5 + T.t555 * (b.mu.a4 * b.mu.a4)) }
    let c44 := b.cov.get 4 4; let c45 := b.cov.get 4 5; let c55 := b.cov.get 5 5
    let q := T.t566 * (c55 * c55) + T.t556 * c45 * c55 + T.t555 * (c44 * c44)
    let cov := o.cov.set 5 5 c55
    let cov := cov.set 4 4 q
    let cov := cov.set 4 5 q
    let cov := cov.set 5 4 q
    some { b with mu := mu, cov := cov, energy := b.energy + dE }
  else none

/-! ### aperture -/

/-- the survival mask of `Aperture.track` for one particle -/
def apertureMask (xmax ymax : α) (elliptical : Bool) (v : Vec7 α) : Bool :=
  if elliptical then
    leb (v.a0 * v.a0 / (xmax * xmax) + v.a2 * v.a2 / (ymax * ymax)) 1.0
  else
    (ltb (-xmax) v.a0 && ltb v.a0 xmax) && (ltb (-ymax) v.a2 && ltb v.a2 ymax)

/-- `track` for a `ParticleBeam` (default method) -/
def trackP (k : Consts α) (e : Elem α) (b : PBeam α) : PBeam α :=
  match e with
  | .cavity L V ph f =>
      -- `if not self.is_active: return super().track(incoming)` (after the `fix:` commit)
      if eqb V 0.0 then PBeam.act (cavityMap k L V ph f b.energy) b else (cavTrackP k L V ph f b).getD b
  | .aperture xm ym ell active =>
      if active then
        { b with survival := List.zipWith (fun s v => mulMask s (apertureMask xm ym ell v)) b.survival b.particles }
      else b
  | .marker => b
  | .bpm _ => b
  | .screen active blocking =>
      if active && blocking then { b with survival := b.survival.map fun _ => 0.0 } else b
  | e => PBeam.act (e.map k b.energy) b

/-- `track` for a `ParameterBeam` -/
def trackM (k : Consts α) (e : Elem α) (b : MBeam α) : MBeam α :=
  match e with
  | .cavity L V ph f =>
      if eqb V 0.0 then MBeam.act (cavityMap k L V ph f b.energy) b else (cavTrackM k L V ph f b).getD b
  | .aperture _ _ _ _ => b
  | .marker => b
  | .bpm _ => b
  | .screen active blocking => if active && blocking then { b with charge := 0.0 } else b
  | e => MBeam.act (e.map k b.energy) b

end Elem

/-- `split(resolution)`: Drift and Quadrupole into `ceil(L/res)` equal pieces, correctors into at least one
piece with the angle divided, every other element unsplit -/
def Elem.split (e : Elem α) (res : α) : List (Elem α) :=
  match e with
  | .drift L => let n := ceilNat (L / res); List.replicate n (.drift (L / ofNat n))
  | .quad L k1 mx my t => let n := ceilNat (L / res); List.replicate n (.quad (L / ofNat n) k1 mx my t)
  | .hcor L a => let n := max (ceilNat (L / res)) 1; List.replicate n (.hcor (L / ofNat n) (a / ofNat n))
  | .vcor L a => let n := max (ceilNat (L / res)) 1; List.replicate n (.vcor (L / ofNat n) (a / ofNat n))
  | e => [e]

/-- the semantics record for `ParticleBeam` tracking -/
def semP (k : Consts α) : Sem (Elem α) (PBeam α) (Mat7 α) α where
  one := Mat7.one
  mul := Mat7.mul
  skippable := Elem.skippable
  map := fun e en => e.map k en
  track := Elem.trackP k
  act := PBeam.act
  energy := PBeam.energy

/-- the semantics record for `ParameterBeam` tracking -/
def semM (k : Consts α) : Sem (Elem α) (MBeam α) (Mat7 α) α where
  one := Mat7.one
  mul := Mat7.mul
  skippable := Elem.skippable
  map := fun e en => e.map k en
  track := Elem.trackM k
  act := MBeam.act
  energy := MBeam.energy
