import CheetahModel.Nx
/-!
Driver op `nxfill s₁ l₁ s₂ l₂ …` → for every item of `Nx.fill` the pair `tag length` (tag 1 = drift, 0 = element);
the single value `-1` when the importer's overlap assertion fires.
-/
namespace DrvNx

def pairs : List Float → Option (List (Float × Float))
  | [] => some []
  | a :: b :: rest => (pairs rest).map ((a, b) :: ·)
  | _ => none

def nxOp (op : String) (a : Array Float) : Option (List Float) :=
  match op with
  | "nxfill" =>
    match pairs a.toList with
    | none => none
    | some rows =>
      match Nx.fill rows with
      | none => some [-1.0]
      | some items => some (items.flatMap fun (d, l) => [if d then 1.0 else 0.0, l])
  | _ => none

end DrvNx
