import CheetahModel.Diagnostics
/-! Driver ops for the screen pixel model. -/
open Scalar
namespace DrvG
def g (a : Array Float) (i : Nat) : Float := a.getD i 0.0
def diagOp (op : String) (a : Array Float) : Option (List Float) :=
  match op with
  | "pixel" =>   -- W H binning pxW pxH dx dy x y  ->  row col  (or -1 -1)
      let s : ScreenP Float := ⟨(g a 0).toUInt64.toNat, (g a 1).toUInt64.toNat, (g a 2).toUInt64.toNat, g a 3, g a 4, g a 5, g a 6⟩
      match pixelOf s (g a 7) (g a 8) with
      | some (r, c) => some [r.toFloat, c.toFloat, s.effH.toFloat, s.effW.toFloat]
      | none => some [-1.0, -1.0, s.effH.toFloat, s.effW.toFloat]
  | "hist" =>    -- W H binning pxW pxH dx dy n | n*(x y w)  ->  image row-major (effH*effW values), then histTotal
      let s : ScreenP Float := ⟨(g a 0).toUInt64.toNat, (g a 1).toUInt64.toNat, (g a 2).toUInt64.toNat, g a 3, g a 4, g a 5, g a 6⟩
      let n := (g a 7).toUInt64.toNat
      let pts := (List.range n).map fun i => (g a (8 + 3*i), g a (9 + 3*i), g a (10 + 3*i))
      some (((List.range s.effH).flatMap fun r => (List.range s.effW).map fun c => histImage s pts r c) ++ [histTotal s pts])
  | _ => none
end DrvG
