import CheetahModel.Namelist
/-!
Driver op `nml <statement tokens…>`: runs the statement-level model and prints (one line, starting with `T `) the final
context in canonical form and the expansion of the line named by the last `use`.

statements: `V x <ex>` | `E name etype k (key <ex>)×k` | `P - name prop <ex>` | `P etype pattern prop <ex>` |
`L name k item×k` | `U name`;   expressions (prefix): `l<int>` | `v<name>` | `r elem prop` | `+ a b` | `* a b`.
-/
namespace DrvNml
open Nml

partial def parseEx : List String → Option (Ex × List String)
  | "+" :: r => do let (a, r) ← parseEx r; let (b, r) ← parseEx r; pure (.add a b, r)
  | "*" :: r => do let (a, r) ← parseEx r; let (b, r) ← parseEx r; pure (.mul a b, r)
  | "r" :: e :: p :: r => some (.ref e p, r)
  | t :: r =>
    if t.startsWith "l" then (t.drop 1).toString.toInt?.map fun n => (.lit n, r)
    else if t.startsWith "v" then some (.var (t.drop 1).toString, r)
    else none
  | [] => none

partial def parseProps : Nat → List String → Option (List (String × Ex) × List String)
  | 0, r => some ([], r)
  | k + 1, key :: r => do let (e, r) ← parseEx r; let (ps, r) ← parseProps k r; pure ((key, e) :: ps, r)
  | _, _ => none

partial def parseStmts : List String → Option (List Stmt)
  | [] => some []
  | "V" :: x :: r => do let (e, r) ← parseEx r; let ss ← parseStmts r; pure (.assignVar x e :: ss)
  | "E" :: n :: t :: k :: r => do
      let k ← k.toNat?; let (ps, r) ← parseProps k r; let ss ← parseStmts r; pure (.defElem n t ps :: ss)
  | "P" :: w :: n :: p :: r => do
      let (e, r) ← parseEx r; let ss ← parseStmts r
      pure (.assignProp (if w == "-" then none else some w) n p e :: ss)
  | "L" :: n :: k :: r => do
      let k ← k.toNat?
      if r.length < k then none
      let ss ← parseStmts (r.drop k); pure (.defLine n (r.take k) :: ss)
  | "U" :: n :: r => do let ss ← parseStmts r; pure (.use n :: ss)
  | _ => none

def showProps (ps : List (String × Int)) : String := ",".intercalate (ps.map fun (k, v) => s!"{k}={v}")

def showEntry : String × Entry → String
  | (k, .num n) => s!"{k}=N:{n}"
  | (k, .elem t ps) => s!"{k}=E:{t}:{showProps ps}"
  | (k, .line items) => s!"{k}=L:{",".intercalate items}"

mutual
partial def showTree : Tree → String
  | .leaf n t ps => s!"[{n}:{t}:{showProps ps}]"
  | .seg n items => s!"({n} {showTrees items})"
partial def showTrees : List Tree → String
  | [] => ""
  | t :: ts => showTree t ++ showTrees ts
end

def run (args : List String) : Option String := do
  let ss ← parseStmts args
  match Nml.run [] ss with
  | none => pure "T RAISE"
  | some c =>
    let ctx := ";".intercalate (c.map showEntry)
    let tree := match useName c with
      | none => "NOUSE"
      | some n => match expand c 64 n with
        | none => "RAISE"
        | some t => showTree t ++ " FLAT " ++ ",".intercalate t.flat
    pure s!"T {ctx} | {tree}"
end DrvNml
