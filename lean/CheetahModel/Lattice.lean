/-!
# Lattices: `Segment.track`, `transfer_map`, `is_skippable`, `flattened`, `subcell`, `length`,
`transfer_maps_merged`, `without_inactive_markers`, … (`segment.py`, `element.py:56-88`,
`custom_transfer_map.py`)

Core Lean only.  A lattice is a tree of elements; the semantics record `Sem` abstracts what an
element is (its skippability, map, tracking function) so that the same algorithm runs on integer
stub elements (exact correspondence with the real `Segment` code) and is proved for every `Sem`
satisfying the linear contract.
-/

inductive Lat (E : Type) where
  | elem : E → Lat E
  | seg : List (Lat E) → Lat E

/-- what the segment algorithms need to know about elements, beams (`S`), maps (`M`), energies (`En`) -/
structure Sem (E S M En : Type) where
  one : M
  mul : M → M → M
  skippable : E → Bool
  map : E → En → M
  track : E → S → S
  act : M → S → S
  energy : S → En

/-- the linear contract: a skippable element's `track` is the action of its `transfer_map` at the
entrance energy, and acting with a map does not change the reference energy -/
structure Sem.Lawful {E S M En : Type} (σ : Sem E S M En) : Prop where
  act_one : ∀ s, σ.act σ.one s = s
  act_mul : ∀ a b s, σ.act (σ.mul a b) s = σ.act a (σ.act b s)
  act_energy : ∀ m s, σ.energy (σ.act m s) = σ.energy s
  contract : ∀ e s, σ.skippable e = true → σ.track e s = σ.act (σ.map e (σ.energy s)) s

namespace Lat
variable {E S M En : Type} (σ : Sem E S M En)

mutual
/-- `is_skippable` (`Segment`: all elements skippable) -/
def skip : Lat E → Bool
  | .elem e => σ.skippable e
  | .seg ls => skipL ls
def skipL : List (Lat E) → Bool
  | [] => true
  | l :: ls => skip l && skipL ls
end

mutual
/-- `transfer_map(energy)`; for a segment: left-multiply element maps in lattice order, starting from `tm` -/
def tmap (en : En) : Lat E → M
  | .elem e => σ.map e en
  | .seg ls => tmapL en ls σ.one
def tmapL (en : En) : List (Lat E) → M → M
  | [], tm => tm
  | l :: ls, tm => tmapL en ls (σ.mul (tmap en l) tm)
end

mutual
/-- `track(incoming)`.  For a segment: if skippable, one map; otherwise the grouping loop, where
`run` is the `temporary_todo` segment being filled -/
def track : Lat E → S → S
  | .elem e, s => σ.track e s
  | .seg ls, s =>
      if skipL σ ls then σ.act (tmapL σ (σ.energy s) ls σ.one) s
      else trackTodo ls [] s
def trackTodo : List (Lat E) → List (Lat E) → S → S
  | [], run, s => flush run s
  | l :: ls, run, s =>
      if skip σ l then trackTodo ls (run ++ [l]) s
      else trackTodo ls [] (track l (flush run s))
/-- track the temporary segment (skippable by construction) -/
def flush : List (Lat E) → S → S
  | [], s => s
  | run, s => σ.act (tmapL σ (σ.energy s) run σ.one) s
end

/-- element-by-element tracking in lattice order -/
def seq : List (Lat E) → S → S
  | [], s => s
  | l :: ls, s => seq ls (track σ l s)

mutual
/-- `flattened()` — the leaves in order -/
def flat : Lat E → List (Lat E)
  | .elem e => [.elem e]
  | .seg ls => flatL ls
def flatL : List (Lat E) → List (Lat E)
  | [] => []
  | l :: ls => flat l ++ flatL ls
end

/-- `subcell(start, end)` on names: scan; switch on at `start`; collect; stop after `end`
(also stops at an `end` met before `start`, as the code does) -/
def subcellAux {N : Type} [DecidableEq N] (name : Lat E → N) (start stop : N) :
    List (Lat E) → Bool → List (Lat E)
  | [], _ => []
  | l :: ls, inside =>
      let inside := inside || decide (name l = start)
      let here := if inside then [l] else []
      if name l = stop then here else here ++ subcellAux name start stop ls inside

def subcell {N : Type} [DecidableEq N] (name : Lat E → N) (start stop : N) (ls : List (Lat E)) :
    List (Lat E) := subcellAux name start stop ls false

section Length
variable {L : Type} (zero : L) (add : L → L → L) (len : E → L)
mutual
/-- `length` — the sum of the elements' lengths (fold of `torch.add`) -/
def length : Lat E → L
  | .elem e => len e
  | .seg ls => lengthL ls
def lengthL : List (Lat E) → L
  | [] => zero
  | l :: ls => add (length l) (lengthL ls)
end
end Length

/-! ## `transfer_maps_merged` -/

/-- what the optimisation needs: a constant-map element (`CustomTransferMap`) -/
structure Custom (σ : Sem E S M En) where
  mkE : M → E
  skippable : ∀ m, σ.skippable (mkE m) = true
  map : ∀ m en, σ.map (mkE m) en = m

variable (c : Custom σ) (keep : Lat E → Bool)   -- keep l  ⇔  name l ∈ except_for

/-- close the pending run: nothing / the single element itself / one merged map -/
def closeRun (run : List (Lat E)) (tr : S) : List (Lat E) :=
  match run with
  | [] => []
  | [r] => [r]
  | _ => [.elem (c.mkE (tmapL σ (σ.energy tr) run σ.one))]

/-- the loop of `transfer_maps_merged`; `tr` is the beam tracked up to the start of `run` -/
def mergeAux : List (Lat E) → List (Lat E) → S → List (Lat E)
  | [], run, tr =>
      match run with
      | [] => []
      | _ => [.elem (c.mkE (tmapL σ (σ.energy tr) run σ.one))]   -- trailing run: always merged
  | l :: ls, run, tr =>
      if skip σ l && !keep l then mergeAux ls (run ++ [l]) tr
      else
        let out := closeRun σ c run tr
        out ++ l :: mergeAux ls [] (track σ l (seq σ out tr))

/-- `transfer_maps_merged(incoming_beam, except_for)` -/
def merged (ls : List (Lat E)) (b : S) : List (Lat E) := mergeAux σ c keep ls [] b

/-- the beams `transfer_maps_merged` sends into the items it does not merge (not skippable, or kept by name) — what the
diagnostics among them record while the lattice is being optimised; `tr` is the beam tracked up to the start of `run` -/
def mergeArr : List (Lat E) → List (Lat E) → S → List S
  | [], _, _ => []
  | l :: ls, run, tr =>
      if skip σ l && !keep l then mergeArr ls (run ++ [l]) tr
      else
        let a := seq σ (closeRun σ c run tr) tr
        a :: mergeArr ls [] (track σ l a)

def arrivals (ls : List (Lat E)) (b : S) : List S := mergeArr σ c keep ls [] b

/-- reference: the beams element-by-element tracking sends into the same items -/
def arrSpec : List (Lat E) → S → List S
  | [], _ => []
  | l :: ls, b => (if skip σ l && !keep l then [] else [b]) ++ arrSpec ls (track σ l b)

/-! ## filters: `without_inactive_markers`, `without_inactive_zero_length_elements`, `inactive_elements_as_drifts` -/

/-- remove the elements satisfying `drop` unless kept by name -/
def without (drop : Lat E → Bool) (ls : List (Lat E)) : List (Lat E) :=
  ls.filter fun l => !(drop l) || keep l

/-- replace the elements satisfying `repl` (unless kept) by `f l` -/
def replaced (repl : Lat E → Bool) (f : Lat E → Lat E) (ls : List (Lat E)) : List (Lat E) :=
  ls.map fun l => if repl l && !keep l then f l else l

end Lat
