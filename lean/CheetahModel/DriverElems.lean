import CheetahModel.Elements
/-! Driver ops: `Element.track` of the model for one element and one beam (both beam types), at Float. -/
open Scalar

namespace DrvEl

def g (a : Array Float) (i : Nat) : Float := a.getD i 0.0

/-- args: kind p0..p8 -/
def decode (a : Array Float) : Option (Elem Float) :=
  let p := fun i => g a (i + 1)
  let dp : DipoleP Float := { L := p 0, angle := p 1, k1 := p 2, e1 := p 3, e2 := p 4, tilt := p 5,
                               gap := p 6, fint := p 7, fintx := p 8 }
  match (g a 0).toUInt64.toNat with
  | 0 => some (.drift (p 0))
  | 1 => some (.quad (p 0) (p 1) (p 2) (p 3) (p 4))
  | 2 => some (.dipole dp)
  | 3 => some (.solenoid (p 0) (p 1) (p 2) (p 3))
  | 4 => some (.hcor (p 0) (p 1))
  | 5 => some (.vcor (p 0) (p 1))
  | 6 => some (.undulator (p 0))
  | 7 => some (.cavity (p 0) (p 1) (p 2) (p 3))
  | 8 => some .marker
  | 9 => some (.aperture (p 0) (p 1) (p 2 != 0.0) (p 3 != 0.0))
  | 10 => some (.bpm (p 0 != 0.0))
  | 11 => some (.screen (p 0 != 0.0) (p 1 != 0.0))
  | 12 => some (.dipole (rbendToDipole dp))
  | _ => none

def vecAt (a : Array Float) (o : Nat) : Vec7 Float :=
  ⟨g a o, g a (o+1), g a (o+2), g a (o+3), g a (o+4), g a (o+5), g a (o+6)⟩

def matAt (a : Array Float) (o : Nat) : Mat7 Float :=
  ⟨vecAt a o, vecAt a (o+7), vecAt a (o+14), vecAt a (o+21), vecAt a (o+28), vecAt a (o+35), vecAt a (o+42)⟩

/-- layout: kind p0..p8 | mc2 c pi | energy | n | 7n particles | n survival -/
def elemsOp (op : String) (a : Array Float) : Option (List Float) :=
  let k : Consts Float := { mc2 := g a 10, c := g a 11, pi := g a 12 }
  let energy := g a 13
  match op with
  | "etrackP" => do
      let e ← decode a
      let n := (g a 14).toUInt64.toNat
      let ps := (List.range n).map fun i => vecAt a (15 + 7 * i)
      let sv := (List.range n).map fun i => g a (15 + 7 * n + i)
      let b : PBeam Float := { particles := ps, energy := energy, charges := [], survival := sv }
      let o := Elem.trackP k e b
      pure (o.energy :: (o.particles.flatMap Vec7.toList ++ o.survival))
  | "etrackM" => do
      let e ← decode a
      let b : MBeam Float := { mu := vecAt a 14, cov := matAt a 21, energy := energy, charge := g a 70 }
      let o := Elem.trackM k e b
      pure (o.energy :: o.charge :: (o.mu.toList ++ o.cov.toList))
  | "skippable" => do
      let e ← decode a
      pure [if e.skippable then 1.0 else 0.0]
  | "wstats" =>    -- n | x(n) | y(n) | w(n)  ->  wmean x, wvar x, wcov x y
      let n := (g a 0).toUInt64.toNat
      let xs := (List.range n).map fun i => g a (1 + i)
      let ys := (List.range n).map fun i => g a (1 + n + i)
      let ws := (List.range n).map fun i => g a (1 + 2 * n + i)
      some [wmean xs ws, wvar xs ws, wcov xs ys ws]
  | "twiss" =>     -- sigx sigp sxp tiny -> emit beta alpha
      let t := twissOf (g a 0) (g a 1) (g a 2) (g a 3); some [t.emit, t.beta, t.alpha]
  | "fromtwiss" => -- beta alpha emit -> sxx sxp spp
      let m := fromTwiss (g a 0) (g a 1) (g a 2); some [m.sxx, m.sxp, m.spp]
  | "toxyz" =>     -- me c mec E0 mc2 v(7)
      some (toXyz ⟨g a 0, g a 1, g a 2⟩ (g a 3) (g a 4) (vecAt a 5)).toList
  | "fromxyz" =>
      some (fromXyz ⟨g a 0, g a 1, g a 2⟩ (g a 3) (g a 4) (vecAt a 5)).toList
  | "split" =>     -- kind(0 drift,1 quad,4 hcor) L res -> n, piece length
      let e : Elem Float := match (g a 0).toUInt64.toNat with
        | 0 => .drift (g a 1) | 1 => .quad (g a 1) 1.0 0.0 0.0 0.0 | _ => .hcor (g a 1) 1e-3
      let ps := e.split (g a 2)
      some [ps.length.toFloat, (ps.head?.map Elem.length).getD 0.0]
  | "moments" =>   -- n | 7n particles  ->  mean(7) cov(49)
      let n := (g a 0).toUInt64.toNat
      let ps := (List.range n).map fun i => vecAt a (1 + 7 * i)
      let b : PBeam Float := { particles := ps, energy := 0.0, charges := [], survival := [] }
      some (b.mean.toList ++ b.cov.toList)
  | _ => none

end DrvEl
