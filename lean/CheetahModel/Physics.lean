import CheetahModel.Scalar
/-!
# Relativistic factors (`cheetah/utils/physics.py`)

`mc2` (the electron rest energy in eV) is a parameter of the model: the harness passes the value the
repository itself uses (bit-exactly), and the theorems quantify over it.
-/
open Scalar
variable {α : Type} [Scalar α]

structure RelF (α : Type) where
  gamma : α
  igamma2 : α
  beta : α

/-- `compute_relativistic_factors(energy)` -/
def relFactors (energy mc2 : α) : RelF α :=
  let gamma := energy / mc2
  let ig2 := if eqb gamma 0.0 then 0.0 else 1.0 / (gamma * gamma)
  { gamma := gamma, igamma2 := ig2, beta := sqrt (1.0 - ig2) }
