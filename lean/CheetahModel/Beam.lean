import CheetahModel.Linalg
import CheetahModel.Physics
/-!
# Beams (`particle_beam.py`, `parameter_beam.py`): records and the action of a 7×7 map
(`Element.track`, `element.py:56-88`)
-/
open Scalar

/-- `ParticleBeam`: macro-particles (7-vectors), reference energy, per-particle charges and survival
probabilities (lists of equal length) -/
structure PBeam (α : Type) where
  particles : List (Vec7 α)
  energy : α
  charges : List α
  survival : List α

/-- `ParameterBeam`: mean, covariance, reference energy, total charge -/
structure MBeam (α : Type) where
  mu : Vec7 α
  cov : Mat7 α
  energy : α
  charge : α

variable {α : Type} [Scalar α]

/-- `new_particles = particles @ tm.T` — every particle is mapped by `tm`; energy, charges and
survival are passed on unchanged -/
def PBeam.act (M : Mat7 α) (b : PBeam α) : PBeam α :=
  { b with particles := b.particles.map (Mat7.mulVec M) }

/-- `mu = tm @ mu`, `cov = tm @ cov @ tm.T` -/
def MBeam.act (M : Mat7 α) (b : MBeam α) : MBeam α :=
  { b with mu := Mat7.mulVec M b.mu, cov := Mat7.mul M (Mat7.mul b.cov (Mat7.transpose M)) }

def listSum (l : List α) : α := l.foldl (· + ·) 0.0

/-- `ParticleBeam.total_charge = sum(particle_charges * survival_probabilities)` -/
def PBeam.totalCharge (b : PBeam α) : α := listSum (List.zipWith (· * ·) b.charges b.survival)
