import CheetahModel.Linalg
import CheetahModel.Physics
/-!
# Beams (`particle_beam.py`, `parameter_beam.py`): records and the action of a 7×7 map
(`Element.track`, `element.py:56-88`)
-/
open Scalar

/-- `ParticleBeam`: macro-particles (7-vectors), reference energy, per-particle charges and survival
probabilities (lists of equal length) -/
structure PBeam (α : Type) where
  particles : List (Vec7 α)
  energy : α
  charges : List α
  survival : List α

/-- `ParameterBeam`: mean, covariance, reference energy, total charge -/
structure MBeam (α : Type) where
  mu : Vec7 α
  cov : Mat7 α
  energy : α
  charge : α

variable {α : Type} [Scalar α]

/-- `new_particles = particles @ tm.T` — every particle is mapped by `tm`; energy, charges and
survival are passed on unchanged -/
def PBeam.act (M : Mat7 α) (b : PBeam α) : PBeam α :=
  { b with particles := b.particles.map (Mat7.mulVec M) }

/-- `mu = tm @ mu`, `cov = tm @ cov @ tm.T` -/
def MBeam.act (M : Mat7 α) (b : MBeam α) : MBeam α :=
  { b with mu := Mat7.mulVec M b.mu, cov := Mat7.mul M (Mat7.mul b.cov (Mat7.transpose M)) }

def listSum (l : List α) : α := l.foldl (· + ·) 0.0

/-- `ParticleBeam.total_charge = sum(particle_charges * survival_probabilities)` -/
def PBeam.totalCharge (b : PBeam α) : α := listSum (List.zipWith (· * ·) b.charges b.survival)

/-! ## sample moments of a particle set (all particles surviving) -/

/-- sample mean of the particle vectors -/
def PBeam.mean (b : PBeam α) : Vec7 α :=
  Vec7.smul (1.0 / ofNat b.particles.length) (Vec7.sum b.particles)

/-- unbiased sample covariance of the particle vectors -/
def PBeam.cov (b : PBeam α) : Mat7 α :=
  let μ := b.mean
  Mat7.smul (1.0 / (ofNat b.particles.length - 1.0))
    (Mat7.sum (b.particles.map fun p => Vec7.outer (Vec7.sub p μ) (Vec7.sub p μ)))

/-- the `ParameterBeam` carrying the sample moments of a `ParticleBeam` -/
def PBeam.toMBeam (b : PBeam α) : MBeam α :=
  { mu := b.mean, cov := b.cov, energy := b.energy, charge := b.totalCharge }

/-! ## survival-weighted statistics (`statistics.py`, `ParticleBeam.mu_*`, `sigma_*`, `sigma_xpx`) -/

/-- `sum(x * w) / sum(w)` -/
def wmean (x w : List α) : α := listSum (List.zipWith (· * ·) x w) / listSum w

/-- `unbiased_weighted_covariance(x, y, w)` -/
def wcov (x y w : List α) : α :=
  let mx := wmean x w
  let my := wmean y w
  let corr := listSum w - listSum (w.map fun a => a * a) / listSum w
  listSum (List.zipWith (· * ·) (List.zipWith (fun wi xi => wi * (xi - mx)) w x) (y.map fun yi => yi - my)) / corr

/-- `unbiased_weighted_variance(x, w)` -/
def wvar (x w : List α) : α :=
  let m := wmean x w
  let corr := listSum w - listSum (w.map fun a => a * a) / listSum w
  listSum (List.zipWith (fun wi xi => wi * ((xi - m) * (xi - m))) w x) / corr

/-! ## SI coordinates (`ParticleBeam.to_xyz_pxpypz`, `from_xyz_pxpypz`) -/

/-- constants as the code holds them: `electron_mass`, `speed_of_light` (module-level tensors) and the
product `electron_mass * speed_of_light` as the code forms it -/
structure SIConsts (α : Type) where
  me : α
  c : α
  mec : α

/-- `Beam.relativistic_beta` -/
def relBeta (gamma : α) : α := if ltb 0.0 (abs gamma) then sqrt (1.0 - 1.0 / (gamma * gamma)) else 1.0

/-- `to_xyz_pxpypz` for one particle -/
def toXyz (s : SIConsts α) (E0 mc2 : α) (v : Vec7 α) : Vec7 α :=
  let g0 := E0 / mc2
  let b0 := relBeta g0
  let p0 := g0 * b0 * s.me * s.c
  let gamma := g0 * (1.0 + v.a5 * b0)
  let beta := sqrt (1.0 - 1.0 / (gamma * gamma))
  let momentum := gamma * s.me * beta * s.c
  let px := v.a1 * p0
  let py := v.a3 * p0
  let zs := v.a4 * (-b0)
  let p := sqrt (momentum * momentum - px * px - py * py)
  ⟨v.a0, px, v.a2, py, zs, p, v.a6⟩

/-- `from_xyz_pxpypz` for one particle -/
def fromXyz (s : SIConsts α) (E0 mc2 : α) (w : Vec7 α) : Vec7 α :=
  let g0 := E0 / mc2
  let b0 := relBeta g0
  let p0 := g0 * b0 * s.me * s.c
  let p := sqrt (w.a1 * w.a1 + w.a3 * w.a3 + w.a5 * w.a5)
  let gamma := sqrt (1.0 + (p / s.mec) * (p / s.mec))
  ⟨w.a0, w.a1 / p0, w.a2, w.a3 / p0, -w.a4 / b0, (gamma - g0) / (b0 * g0), w.a6⟩

/-! ## Twiss parameters (`beam.py:329-377`, `parameter_beam.py:188-288`) -/

structure Twiss (α : Type) where
  emit : α
  beta : α
  alpha : α

/-- `torch.clamp_min(x, lo)` -/
def clampMin (x lo : α) : α := if ltb x lo then lo else x

/-- emittance / beta / alpha from the beam sizes `sigma_x`, `sigma_px` and the covariance `sigma_xpx`;
`tiny = torch.finfo(dtype).tiny` -/
def twissOf (sigx sigp sxp tiny : α) : Twiss α :=
  let emit := sqrt (clampMin (sigx * sigx * (sigp * sigp) - sxp * sxp) tiny)
  { emit := emit, beta := sigx * sigx / emit, alpha := -sxp / emit }

/-- second moments `(cov[0,0], cov[0,1], cov[1,1])` that `ParameterBeam.from_twiss` produces -/
structure Mom2 (α : Type) where
  sxx : α
  sxp : α
  spp : α

def fromTwiss (beta alpha emit : α) : Mom2 α :=
  let sigx := sqrt (emit * beta)
  let sigp := sqrt (emit * (1.0 + alpha * alpha) / beta)
  { sxx := sigx * sigx, sxp := -emit * alpha, spp := sigp * sigp }

/-- `ParameterBeam.sigma_x = sqrt(cov[0,0])` etc., then the Twiss read-out -/
def twissOfMom (m : Mom2 α) (tiny : α) : Twiss α := twissOf (sqrt m.sxx) (sqrt m.spp) m.sxp tiny
