import CheetahModel.Linalg
import CheetahModel.Physics
/-!
# Beams (`particle_beam.py`, `parameter_beam.py`): records and the action of a 7×7 map
(`Element.track`, `element.py:56-88`)
-/
open Scalar

/-- `ParticleBeam`: macro-particles (7-vectors), reference energy, per-particle charges and survival
probabilities (lists of equal length) -/
structure PBeam (α : Type) where
  particles : List (Vec7 α)
  energy : α
  charges : List α
  survival : List α

/-- `ParameterBeam`: mean, covariance, reference energy, total charge -/
structure MBeam (α : Type) where
  mu : Vec7 α
  cov : Mat7 α
  energy : α
  charge : α

variable {α : Type} [Scalar α]

/-- `new_particles = particles @ tm.T` — every particle is mapped by `tm`; energy, charges and
survival are passed on unchanged -/
def PBeam.act (M : Mat7 α) (b : PBeam α) : PBeam α :=
  { b with particles := b.particles.map (Mat7.mulVec M) }

/-- `mu = tm @ mu`, `cov = tm @ cov @ tm.T` -/
def MBeam.act (M : Mat7 α) (b : MBeam α) : MBeam α :=
  { b with mu := Mat7.mulVec M b.mu, cov := Mat7.mul M (Mat7.mul b.cov (Mat7.transpose M)) }

def listSum (l : List α) : α := l.foldl (· + ·) 0.0

/-- `ParticleBeam.total_charge = sum(particle_charges * survival_probabilities)` -/
def PBeam.totalCharge (b : PBeam α) : α := listSum (List.zipWith (· * ·) b.charges b.survival)

/-! ## sample moments of a particle set (all particles surviving) -/

/-- sample mean of the particle vectors -/
def PBeam.mean (b : PBeam α) : Vec7 α :=
  Vec7.smul (1.0 / ofNat b.particles.length) (Vec7.sum b.particles)

/-- unbiased sample covariance of the particle vectors -/
def PBeam.cov (b : PBeam α) : Mat7 α :=
  let μ := b.mean
  Mat7.smul (1.0 / (ofNat b.particles.length - 1.0))
    (Mat7.sum (b.particles.map fun p => Vec7.outer (Vec7.sub p μ) (Vec7.sub p μ)))

/-- the `ParameterBeam` carrying the sample moments of a `ParticleBeam` -/
def PBeam.toMBeam (b : PBeam α) : MBeam α :=
  { mu := b.mean, cov := b.cov, energy := b.energy, charge := b.totalCharge }

/-! ## survival-weighted statistics (`statistics.py`, `ParticleBeam.mu_*`, `sigma_*`, `sigma_xpx`) -/

/-- `sum(x * w) / sum(w)` -/
def wmean (x w : List α) : α := listSum (List.zipWith (· * ·) x w) / listSum w

/-- `unbiased_weighted_covariance(x, y, w)` -/
def wcov (x y w : List α) : α :=
  let mx := wmean x w
  let my := wmean y w
  let corr := listSum w - listSum (w.map fun a => a * a) / listSum w
  listSum (List.zipWith (· * ·) (List.zipWith (fun wi xi => wi * (xi - mx)) w x) (y.map fun yi => yi - my)) / corr

/-- `unbiased_weighted_variance(x, w)` -/
def wvar (x w : List α) : α :=
  let m := wmean x w
  let corr := listSum w - listSum (w.map fun a => a * a) / listSum w
  listSum (List.zipWith (fun wi xi => wi * ((xi - m) * (xi - m))) w x) / corr
