import CheetahModel.Bmadx
import CheetahModel.BmadxJac
/-! Driver ops for the Bmad-X kernels (per particle) and the coordinate conversions. -/
open Scalar
namespace DrvB

def g (a : Array Float) (i : Nat) : Float := a.getD i 0.0
def vecAt (a : Array Float) (o : Nat) : Vec7 Float :=
  ⟨g a o, g a (o+1), g a (o+2), g a (o+3), g a (o+4), g a (o+5), g a (o+6)⟩
def out (r : Vec7 Float × Float) : List Float := r.1.toList ++ [r.2]
def eps : Float := 2.220446049250313e-16

def bmadxOp (op : String) (a : Array Float) : Option (List Float) :=
  match op with
  | "tobmad" => let r := toBmad (g a 0) (g a 1) (g a 2) (g a 3); some [r.z, r.pz, r.p0c]       -- tau delta E0 mc2
  | "tocheetah" => let r := toCheetah (g a 0) (g a 1) (g a 2) (g a 3); some [r.tau, r.delta, r.refE]  -- z pz p0c mc2
  | "bdrift" => some (out (bmadxDrift (g a 0) (vecAt a 3) (g a 1) (g a 2)))                     -- L E0 mc2 v
  | "bquad" =>   -- L k1 mx my tilt nsteps E0 mc2 v
      some (out (bmadxQuad (g a 0) (g a 1) (g a 2) (g a 3) (g a 4) (g a 5).toUInt64.toNat eps (vecAt a 8) (g a 6) (g a 7)))
  | "bdipole" =>  -- L angle e1 e2 tilt gap gapx fint fintx fr_in fr_out pi E0 mc2 v
      let fin : Bool := g a 9 != 0.0
      let fout : Bool := g a 10 != 0.0
      let d : BendP Float := BendP.mk (g a 0) (g a 1) (g a 2) (g a 3) (g a 4) (g a 5) (g a 6) (g a 7) (g a 8) fin fout
      some (out (bmadxDipole (g a 11) d (vecAt a 14) (g a 12) (g a 13)))
  | "btdc" =>  -- L V phase freq mx my tilt mc2 c pi E0 v
      let k : Consts Float := { mc2 := g a 7, c := g a 8, pi := g a 9 }
      some (out (bmadxTDC k (g a 0) (g a 1) (g a 2) (g a 3) (g a 4) (g a 5) (g a 6) (vecAt a 11) (g a 10)))
  | "quadcoef" => let q := quadCoef (g a 0) (g a 1) (g a 2) eps
                  some [q.a11, q.a12, q.a21, q.a22, q.c1, q.c2, q.c3]
  | "bdjac" => some (driftJacList (g a 0) (g a 1) (g a 2) (g a 3) (g a 4) (g a 5))           -- L p0c mc2 px py pz
  | "lowenergyz" => some [lowEnergyZ (g a 0) (g a 1) (g a 2) (g a 3)]
  | _ => none
end DrvB
