/-!
# Statement level of the lattice-file parsers (`converters/utils/fortran_namelist.py`: `parse_lines` and its handlers)

The regular expressions that classify a statement and cut it into its parts stay outside the model (the correspondence
`nml` sends every statement through them); modelled is what the handlers do to the *context* — Python's insertion-ordered
dictionary — and what `convert_element` later reads from it:

* `assign_variable`, `define_element` (inheritance by deep copy of the parent's dictionary, properties evaluated left to
  right in the context *before* the element is stored), `assign_property` (wild cards `*` / `%`, the right-hand side
  evaluated **once**, before any of the matched elements is written), `define_line`, `parse_use_line` (the last `use` wins);
* the expansion of a line into the nested lattice `convert_element` builds — names are resolved when the lattice is built,
  i.e. against the **final** context.

Values are integers (the harness writes integer literals, which `evaluate_expression` reads with `int(...)`); a Python
exception (`KeyError`, `TypeError`, …) is `none`.  No Mathlib.
-/

namespace Nml

/-- right-hand sides: integer literal, variable, `elem[prop]`, sum, product -/
inductive Ex where
  | lit (n : Int)
  | var (x : String)
  | ref (e : String) (p : String)
  | add (a b : Ex)
  | mul (a b : Ex)
  deriving Repr

/-- what a name is bound to -/
inductive Entry where
  | num (n : Int)
  | elem (etype : String) (props : List (String × Int))
  | line (items : List String)
  deriving Repr, BEq, DecidableEq

/-- Python `dict`: insertion ordered; re-assignment keeps the position -/
abbrev Ctx := List (String × Entry)

/-- `d.get(k)` -/
def dget {β : Type} : List (String × β) → String → Option β
  | [], _ => none
  | (k, v) :: r, x => if k == x then some v else dget r x

/-- `d[k] = v` (keys are unique: the first occurrence is the only one) -/
def dset {β : Type} : List (String × β) → String → β → List (String × β)
  | [], k, v => [(k, v)]
  | (k', v') :: r, k, v => if k' == k then (k, v) :: r else (k', v') :: dset r k v

def lookup (c : Ctx) (k : String) : Option Entry := dget c k
def set (c : Ctx) (k : String) (v : Entry) : Ctx := dset c k v
def setProp (ps : List (String × Int)) (k : String) (v : Int) : List (String × Int) := dset ps k v
def getProp (ps : List (String × Int)) (k : String) : Option Int := dget ps k

/-- `evaluate_expression` on the expression forms the harness writes -/
def eval (c : Ctx) : Ex → Option Int
  | .lit n => some n
  | .var x => match lookup c x with
      | some (.num n) => some n
      | _ => none
  | .ref e p => match lookup c e with
      | some (.elem _ ps) => getProp ps p
      | _ => none
  | .add a b => do let x ← eval c a; let y ← eval c b; pure (x + y)
  | .mul a b => do let x ← eval c a; let y ← eval c b; pure (x * y)

/-- `f` holds for some suffix of `s` -/
def anySuffix (f : List Char → Bool) : List Char → Bool
  | [] => f []
  | c :: t => f (c :: t) || anySuffix f t

/-- `re.fullmatch(pattern.replace("*", ".*").replace("%", "."), key)` for names without regex metacharacters -/
def glob : List Char → List Char → Bool
  | [], s => s.isEmpty
  | a :: p, s =>
    if a == '*' then anySuffix (glob p) s
    else match s with
      | [] => false
      | c :: t => (a == '%' || a == c) && glob p t

/-- `resolve_object_name_wildcard("type::pattern", context)`: names that match and are elements of that type, in
dictionary order -/
def resolve (c : Ctx) (etype pat : String) : List String :=
  (c.filter fun kv => glob pat.toList kv.1.toList &&
    (match kv.2 with | .elem t _ => t == etype | _ => false)).map (·.1)

inductive Stmt where
  | assignVar (x : String) (e : Ex)
  | defElem (name etype : String) (props : List (String × Ex))
  /-- `name[prop] = e` (`wild = none`) or `type::pattern[prop] = e` -/
  | assignProp (wild : Option String) (name prop : String) (e : Ex)
  | defLine (name : String) (items : List String)
  | use (name : String)
  deriving Repr

/-- properties of `define_element` are evaluated one after the other in the context as it was before the statement -/
def evalProps (c : Ctx) (base : List (String × Int)) : List (String × Ex) → Option (List (String × Int))
  | [] => some base
  | (k, e) :: rest => do let v ← eval c e; evalProps c (setProp base k v) rest

/-- write one property of one element (`context[name][prop] = value`); a name that is not in the context yet gets a
fresh dictionary (without `element_type`), a name bound to a number or a line raises -/
def writeProp (c : Ctx) (name prop : String) (v : Int) : Option Ctx :=
  match lookup c name with
  | none => some (set c name (.elem "" [(prop, v)]))
  | some (.elem t ps) => some (set c name (.elem t (setProp ps prop v)))
  | some _ => none

def step (c : Ctx) : Stmt → Option Ctx
  | .assignVar x e => do let v ← eval c e; pure (set c x (.num v))
  | .defElem name etype props =>
      -- `if element_type in context: deepcopy(context[element_type]) else {"element_type": element_type}`
      match lookup c etype with
      | some (.elem t ps) => do let q ← evalProps c ps props; pure (set c name (.elem t q))
      | some _ => none
      | none => do let q ← evalProps c [] props; pure (set c name (.elem etype q))
  | .assignProp wild name prop e =>
      let names := match wild with
        | some etype => resolve c etype name
        | none => [name]
      -- the right-hand side is evaluated once, before the loop
      match eval c e with
      | none => none
      | some v => names.foldlM (fun c' n => writeProp c' n prop v) c
  | .defLine name items => some (set c name (.line items))
  | .use name => some (set c "__use__" (.line [name]))

def run (c : Ctx) : List Stmt → Option Ctx
  | [] => some c
  | s :: rest => (step c s).bind (run · rest)

/-- the lattice `convert_element` builds: a leaf per element (with its final type and properties), a segment per line -/
inductive Tree where
  | leaf (name etype : String) (props : List (String × Int))
  | seg (name : String) (items : List Tree)
  deriving Repr

mutual
/-- `convert_element(name, context)` with recursion fuel (Python: `RecursionError` on cyclic lines) -/
def expand (c : Ctx) : Nat → String → Option Tree
  | 0, _ => none
  | fuel + 1, name =>
    match lookup c name with
    | some (.line items) => (expandList c fuel items).map (Tree.seg name)
    | some (.elem t ps) => if t == "" then none else some (.leaf name t ps)   -- no `element_type`: `ValueError`
    | _ => none
def expandList (c : Ctx) : Nat → List String → Option (List Tree)
  | _, [] => some []
  | fuel, n :: rest => do let t ← expand c fuel n; let ts ← expandList c fuel rest; pure (t :: ts)
end

mutual
/-- the element names in beam order -/
def Tree.flat : Tree → List String
  | .leaf n _ _ => [n]
  | .seg _ items => flatList items
def flatList : List Tree → List String
  | [] => []
  | t :: ts => t.flat ++ flatList ts
end

/-- the line named by the last `use` statement -/
def useName (c : Ctx) : Option String :=
  match lookup c "__use__" with
  | some (.line [n]) => some n
  | _ => none

end Nml
