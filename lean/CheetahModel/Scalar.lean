/-!
# Scalar — the law-free class of scalar operations the Cheetah model is written over

Every numeric definition of the model is written once, polymorphically over `Scalar α`, and is
instantiated at `Float` (executed by the driver for the correspondence check), at `ℝ`
(`Proofs/RealInst.lean`, what the theorems are about), at `Int` (exact checks of the lattice
algorithms on integer-valued maps) and at `Dual α` (forward-mode derivative pairs).
No Mathlib import here: this file is part of the executable driver.
-/

class Scalar (α : Type) extends Add α, Sub α, Mul α, Div α, Neg α, OfScientific α where
  sin : α → α
  cos : α → α
  tan : α → α
  sinh : α → α
  cosh : α → α
  sqrt : α → α
  exp : α → α
  log : α → α
  atan : α → α
  asin : α → α
  abs : α → α
  atan2 : α → α → α
  /-- `a < b` as torch evaluates it (false on NaN) -/
  ltb : α → α → Bool
  /-- `a <= b` -/
  leb : α → α → Bool
  /-- `a == b` -/
  eqb : α → α → Bool
  /-- embedding of natural numbers (e.g. the number of splits) -/
  ofNat : Nat → α
  /-- `ceil` as a natural number (`torch.ceil(...).int()` for non-negative arguments) -/
  ceilNat : α → Nat

namespace Scalar

instance : Scalar Float where
  sin := Float.sin
  cos := Float.cos
  tan := Float.tan
  sinh := Float.sinh
  cosh := Float.cosh
  sqrt := Float.sqrt
  exp := Float.exp
  log := Float.log
  atan := Float.atan
  asin := Float.asin
  abs := Float.abs
  atan2 := Float.atan2
  ltb a b := a < b
  leb a b := a ≤ b
  eqb a b := a == b
  ofNat n := n.toFloat
  ceilNat x := (Float.ceil x).toUInt64.toNat

/-- `torch.where(c, a, b)` / a Python conditional on a scalar -/
@[inline] def sel {α : Type} (c : Bool) (a b : α) : α := if c then a else b

/-- multiplication by a boolean mask as torch does it: `x * mask` (so `NaN * 0 = NaN` at Float) -/
def mulMask {α : Type} [Scalar α] (x : α) (m : Bool) : α := x * (if m then 1.0 else 0.0)

end Scalar

/-- exact integer instance, used to run the lattice algorithms on integer-valued stub maps
(transcendental operations are not meaningful here and return 0) -/
instance : Scalar Int where
  ofScientific m s e := if s then ((m / 10 ^ e : Nat) : Int) else ((m * 10 ^ e : Nat) : Int)
  sin _ := 0
  cos _ := 0
  tan _ := 0
  sinh _ := 0
  cosh _ := 0
  sqrt _ := 0
  exp _ := 0
  log _ := 0
  atan _ := 0
  asin _ := 0
  abs x := Int.ofNat x.natAbs
  atan2 _ _ := 0
  ltb a b := decide (a < b)
  leb a b := decide (a ≤ b)
  eqb a b := decide (a = b)
  ofNat n := (n : Int)
  ceilNat x := x.toNat
