import CheetahModel.Maps
/-! Driver ops for the linear maps: each op takes Floats (as bit patterns) and returns Floats. -/
open Scalar

namespace Drv

def getF (a : Array Float) (i : Nat) : Float := a.getD i 0.0

def consts (a : Array Float) (i : Nat) : Consts Float :=
  { mc2 := getF a i, c := getF a (i+1), pi := getF a (i+2) }

/-- ops over floats; `none` = unknown op -/
def mapsOp (op : String) (a : Array Float) : Option (List Float) :=
  let g := getF a
  match op with
  | "relfactors" => let r := relFactors (g 0) (g 1); some [r.gamma, r.igamma2, r.beta]
  | "rot" => some (rotationMatrix (g 0)).toList
  | "base" => some (baseR (g 0) (g 1) (g 2) (g 3) (g 4) (g 5)).toList     -- L k1 hx tilt E mc2
  | "drift" => some (driftMap (g 0) (g 1) (g 2)).toList                    -- L E mc2
  | "quad" => some (quadMap (g 0) (g 1) (g 2) (g 3) (g 4) (g 5) (g 6)).toList  -- L k1 mx my tilt E mc2
  | "dipole" =>   -- L angle k1 e1 e2 tilt gap fint fintx E mc2
      let p : DipoleP Float := { L := g 0, angle := g 1, k1 := g 2, e1 := g 3, e2 := g 4, tilt := g 5,
                                  gap := g 6, fint := g 7, fintx := g 8 }
      some (dipoleMapCode p (g 9) (g 10)).toList
  | "rbend" =>
      let p : DipoleP Float := { L := g 0, angle := g 1, k1 := g 2, e1 := g 3, e2 := g 4, tilt := g 5,
                                  gap := g 6, fint := g 7, fintx := g 8 }
      some (dipoleMapCode (rbendToDipole p) (g 9) (g 10)).toList
  | "solenoid" => some (solenoidMap (g 0) (g 1) (g 2) (g 3) (g 4) (g 5)).toList  -- L k mx my E mc2
  | "hcor" => some (hcorMap (g 0) (g 1) (g 2) (g 3)).toList
  | "vcor" => some (vcorMap (g 0) (g 1) (g 2) (g 3)).toList
  | "undulator" => some (undulatorMap (g 0) (g 1) (g 2)).toList
  | "cavity" => some (cavityMap (consts a 5) (g 0) (g 1) (g 2) (g 3) (g 4)).toList  -- L V phase f E mc2 c pi
  | "ident" => some (identMap (α := Float)).toList
  | _ => none

end Drv
