import CheetahModel.Scalar
import CheetahModel.Linalg
import CheetahModel.Physics
import CheetahModel.Maps
import CheetahModel.DriverMaps
