import CheetahModel.DriverMaps
import CheetahModel.DriverLattice
import CheetahModel.DriverElems
import CheetahModel.DriverBmadx
import CheetahModel.DriverDual
import CheetahModel.DriverDiag
import CheetahModel.DriverSC
import CheetahModel.DriverSer
import CheetahModel.DriverText
import CheetahModel.DriverNx
import CheetahModel.DriverRev
import CheetahModel.DriverNml
import CheetahModel.DriverProm
/-!
# Line-protocol driver

One request per line: `<op> <arg> <arg> …`.  Float arguments and results cross the pipe as the
decimal value of their 64-bit IEEE pattern, so both sides see identical numbers.  The reply is one
line: the result patterns separated by blanks, or `ERR <reason>`.
Run: `lake env lean --run Driver.lean < ops.txt` (or the compiled `driver` executable).
-/

def parseF (s : String) : Option Float := s.toNat?.map fun n => Float.ofBits n.toUInt64

def fmtF (x : Float) : String := toString x.toBits.toNat

def floatOps : List (String → Array Float → Option (List Float)) :=
  [Drv.mapsOp, DrvEl.elemsOp, DrvB.bmadxOp, DrvD.dualOp, DrvG.diagOp, DrvS.scOp, DrvNx.nxOp]

def runFloatOp (op : String) (a : Array Float) : Option (List Float) :=
  floatOps.findSome? fun f => f op a

def handle (line : String) : String :=
  match (line.trimAscii.toString.splitOn " ").filter (· ≠ "") with
  | [] => "ERR empty"
  | "lat" :: rest =>
    match DrvLat.run rest with
    | some out => out
    | none => "ERR lat-parse"
  | "ser" :: rest =>
    match DrvSer.run rest with
    | some out => out
    | none => "ERR ser-parse"
  | "txt" :: rest =>
    match DrvText.run rest with
    | some out => out
    | none => "ERR txt-parse"
  | "prom" :: rest =>
    match DrvProm.run rest with
    | some out => out
    | none => "ERR prom-parse"
  | "nml" :: rest =>
    match DrvNml.run rest with
    | some out => out
    | none => "ERR nml-parse"
  | "rev" :: rest =>
    match DrvRev.run rest with
    | some out => out
    | none => "ERR rev-parse"
  | op :: args =>
    match args.mapM parseF with
    | none => s!"ERR bad-arg {op}"
    | some fs =>
      match runFloatOp op fs.toArray with
      | some out => " ".intercalate (out.map fmtF)
      | none => s!"ERR unknown-op {op}"

partial def loop (h : IO.FS.Stream) (out : IO.FS.Stream) : IO Unit := do
  let line ← h.getLine
  if line.isEmpty then return ()
  out.putStrLn (handle line)
  loop h out

def main : IO Unit := do
  let out ← IO.getStdout
  loop (← IO.getStdin) out
  out.flush
