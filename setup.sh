#!/bin/bash
# MANIFEST.setup_cmd: build the Lean model, every property's theorems and the compiled driver, offline.
set -e
cd "$(dirname "$0")"
mkdir -p .work evidence replays
/venv/bin/python tools/extract.py
cd lean
lake build CheetahModel CheetahModel.AllProperties driver 2>&1 | tail -5
